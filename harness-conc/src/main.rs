//! kv-conc: concurrency harness for C18 (see /verif/DESIGN.md §6 "C18").
//!
//!  * `record-locks`: lock programs of every operation kind run alone
//!    (input of spec/Locks.tla),
//!  * `run-conc`: worker threads + scheduler thread with a watchdog; call
//!    log and final observation (input of spec/KrillConcTrace.tla).
#![allow(dead_code)]

#[path = "../../harness/src/common.rs"]
mod common;
#[path = "../../harness/src/rp.rs"]
mod rp;
mod conc;
mod locks;
mod world;

use std::path::PathBuf;

fn arg(args: &[String], name: &str) -> Option<String> {
    args.iter().position(|a| a == name).and_then(|i| args.get(i + 1)).cloned()
}

fn flag(args: &[String], name: &str) -> bool {
    args.iter().any(|a| a == name)
}

fn main() {
    common::install_panic_hook();
    let args: Vec<String> = std::env::args().collect();
    let input = arg(&args, "--in").map(PathBuf::from);
    let out = arg(&args, "--out").map(PathBuf::from);
    let work = arg(&args, "--work").map(PathBuf::from);
    match args.get(1).map(|s| s.as_str()).unwrap_or("") {
        "record-locks" => {
            locks::run(&out.unwrap(), &work.unwrap(), flag(&args, "--memory"));
        }
        "run-conc" => {
            let watchdog = arg(&args, "--watchdog-ms").and_then(|s| {
                s.parse().ok()
            }).unwrap_or(30_000);
            conc::run(&input.unwrap(), &out.unwrap(), &work.unwrap(), watchdog);
        }
        "selftest-cycle" => {
            use serde_json::json;
            // thread 1 holds cas/A and wants ca_objects/, thread 2 the
            // other way round; thread 3 just waits for thread 1
            let bad = json!([
                {"thr": 1, "name": "cas/A", "mode": "w", "held": true},
                {"thr": 2, "name": "ca_objects/", "mode": "w", "held": true},
                {"thr": 1, "name": "ca_objects/", "mode": "w", "held": false},
                {"thr": 2, "name": "cas/A", "mode": "w", "held": false},
                {"thr": 3, "name": "cas/A", "mode": "w", "held": false},
            ]);
            let fine = json!([
                {"thr": 1, "name": "cas/A", "mode": "w", "held": true},
                {"thr": 2, "name": "cas/A", "mode": "w", "held": false},
                {"thr": 3, "name": "cas/", "mode": "r", "held": true},
                {"thr": 1, "name": "cas/", "mode": "r", "held": true},
            ]);
            // reader re-entrance behind a waiting writer
            let wp = json!([
                {"thr": 1, "name": "cas/", "mode": "r", "held": true},
                {"thr": 2, "name": "cas/", "mode": "w", "held": false},
                {"thr": 1, "name": "cas/", "mode": "r", "held": false},
            ]);
            let ok = conc::wait_cycle(&bad, false).map(|c| c.len()) == Some(2)
                && conc::wait_cycle(&fine, true).is_none()
                && conc::wait_cycle(&wp, true).is_some()
                && conc::wait_cycle(&wp, false).is_none();
            if !ok {
                eprintln!("wait-for analysis gives wrong answers");
                std::process::exit(2);
            }
            println!("wait-for analysis: cycle found in the inverted \
                      table, none in the acyclic one, reader re-entrance \
                      only under writer preference");
        }
        _ => {
            eprintln!(
                "usage: kv-conc record-locks --out <file> --work <dir> \
                 [--memory]\n       kv-conc run-conc --in <scenarios.ndjson> \
                 --out <trace.ndjson> --work <dir> [--watchdog-ms N]"
            );
            std::process::exit(2);
        }
    }
}
