//! A small in-process Krill world for the concurrency drivers:
//! TA <- A <- B, TA <- C, all publishing in the local publication server,
//! plus identities for a "remote" child X of A and external publishers.
//!
//! Every operation of the drivers is one function call into the same entry
//! points the HTTP layer uses (`CaManager`, `RepositoryManager`), so it can
//! be issued from any thread.

use std::collections::{BTreeMap, BTreeSet, HashMap};
use std::path::Path;
use std::str::FromStr;
use bytes::Bytes;
use krill::api::admin::{
    AddChildRequest, ParentCaReq, PublicationServerUris,
    RepoFileDeleteCriteria, RepositoryContact, UpdateChildRequest,
};
use krill::api::history::CommandHistoryCriteria;
use krill::api::roa::{RoaConfiguration, RoaConfigurationUpdates, RoaPayload};
use krill::commons::actor::Actor;
use krill::commons::error::Error;
use krill::commons::storage::Ident;
use krill::constants::TASK_QUEUE_NS;
use krill::server::mq::{self, Task, TaskResult};
use krill::server::runtime::{KrillRuntime, SlowKrillRuntime};
use krill::server::scheduler::verif_process_task;
use rpki::ca::idcert::IdCert;
use rpki::ca::idexchange::{
    CaHandle, ChildHandle, PublisherHandle, PublisherRequest,
};
use rpki::ca::provisioning;
use rpki::ca::publication::{
    self, Base64, Publish, PublishDelta, Update, Withdraw,
};
use rpki::crypto::KeyIdentifier;
use rpki::repository::resources::ResourceSet;
use rpki::rrdp::Hash;
use rpki::uri;
use serde_json::{json, Map, Value};
use crate::common::*;
use crate::rp;

pub const RSYNC_BASE: &str = "rsync://krill.example.org/repo/";
pub const RRDP_BASE: &str = "https://krill.example.org:3000/rrdp/";

pub fn ca_handle(name: &str) -> CaHandle {
    CaHandle::from_str(name).unwrap()
}

/// Entitlement classes used for child updates: "s" (small), "l" (large).
pub fn ent_set(class: &str) -> ResourceSet {
    match class {
        "l" => ResourceSet::from_strs(
            "AS65001", "10.0.0.0/16, 10.1.0.0/16", ""
        ).unwrap(),
        _ => ResourceSet::from_strs("AS65001", "10.0.0.0/16", "").unwrap(),
    }
}

pub fn ent_class(set: &ResourceSet) -> String {
    if *set == ent_set("s") {
        "s".into()
    }
    else if *set == ent_set("l") {
        "l".into()
    }
    else {
        format!("?{set}")
    }
}

/// ROA number `n` of a CA: a /24 inside space the CA holds in every state
/// of a scenario.
pub fn roa_payload(ca: &str, n: i64) -> RoaPayload {
    let (second, asn) = match ca {
        "A" => (1, 65002),
        "B" => (0, 65001),
        _ => (2, 65003),
    };
    RoaPayload::from_str(&format!("10.{second}.{n}.0/24 => {asn}")).unwrap()
}

pub fn roa_id(text: &str) -> String {
    // "10.1.3.0/24 => 65002" -> "A3"
    let pfx = text.split_whitespace().next().unwrap_or("");
    let parts: Vec<&str> = pfx.split(['.', '/']).collect();
    if parts.len() == 5 && parts[0] == "10" && parts[3] == "0"
        && (parts[4] == "24" || parts[4] == "24-24")
    {
        let ca = match parts[1] { "1" => "A", "0" => "B", "2" => "C", _ => "?" };
        format!("{ca}{}", parts[2])
    }
    else {
        format!("?{text}")
    }
}

pub struct Identity {
    pub key: KeyIdentifier,
    pub cert: IdCert,
}

pub struct World {
    pub env: Env,
    pub actor: Actor,
    pub idents: HashMap<String, Identity>,
}

pub fn label(e: &Error) -> String {
    let label = e.to_error_response().label;
    if label == "general-error" {
        // not specific enough to be compared: add the start of the text
        let text: String = e.to_string().chars().take(60).collect();
        format!("general-error: {text}")
    }
    else {
        label
    }
}

fn lab<T>(r: Result<T, Error>) -> Result<T, String> {
    r.map_err(|e| format!("{}: {e}", label(&e)))
}

impl World {
    pub fn create(dir: &Path, memory: bool) -> Result<Self, String> {
        let opts = EnvOpts { memory, ..Default::default() };
        let env = Env::create(dir, opts)?;
        let mut world = World {
            env, actor: Actor::system("verif"), idents: HashMap::new(),
        };
        world.init()?;
        Ok(world)
    }

    pub fn krill(&self) -> &KrillRuntime {
        &self.env.krill
    }

    pub fn slow(&self) -> &SlowKrillRuntime {
        &self.env.slow
    }

    fn init(&mut self) -> Result<(), String> {
        let krill = self.env.krill.clone();
        let uris = PublicationServerUris {
            rrdp_base_uri: uri::Https::from_str(RRDP_BASE).unwrap(),
            rsync_jail: uri::Rsync::from_str(RSYNC_BASE).unwrap(),
        };
        lab(krill.repo_manager().init(uris, &krill))?;
        lab(krill.ca_manager().ta_init_fully_embedded(
            uri::Rsync::from_str("rsync://krill.example.org/ta/ta.cer")
                .unwrap(),
            vec![uri::Https::from_str(
                "https://krill.example.org:3000/ta/ta.cer"
            ).unwrap()],
            None, &self.actor, &self.env.slow,
        ))?;
        for name in ["A", "B", "C"] {
            self.add_ca(name)?;
        }
        self.add_parent("A", "ta", ResourceSet::from_strs(
            "AS65001-AS65002", "10.0.0.0/16, 10.1.0.0/16", ""
        ).unwrap())?;
        self.add_parent("C", "ta", ResourceSet::from_strs(
            "AS65003", "10.2.0.0/16", ""
        ).unwrap())?;
        self.settle(200)?;
        self.add_parent("B", "A", ent_set("s"))?;
        self.settle(200)?;
        for name in ["X", "x", "y"] {
            let cert = krill.signer().create_self_signed_id_cert()
                .map_err(|e| format!("id cert: {e}"))?;
            let key = cert.public_key().key_identifier();
            self.idents.insert(name.into(), Identity { key, cert });
        }
        Ok(())
    }

    fn add_ca(&mut self, name: &str) -> Result<(), String> {
        let krill = &self.env.krill;
        let handle = ca_handle(name);
        lab(krill.ca_manager().init_ca(handle.clone(), krill))?;
        let pub_req = {
            let ca = lab(krill.ca_manager().get_ca(&handle))?;
            PublisherRequest::new(
                ca.id_cert().base64.clone(), handle.convert(), None,
            )
        };
        lab(krill.repo_manager().create_publisher(pub_req, &self.actor))?;
        let response = lab(krill.repo_manager().repository_response(
            &handle.convert(), krill
        ))?;
        let contact = RepositoryContact::try_from_response(response)
            .map_err(|e| e.to_string())?;
        lab(krill.ca_manager().update_repo(
            handle, contact, false, &self.actor, &self.env.slow,
        ))
    }

    fn add_parent(
        &mut self, child: &str, parent: &str, res: ResourceSet,
    ) -> Result<(), String> {
        let krill = &self.env.krill;
        let child_handle = ca_handle(child);
        let parent_handle = ca_handle(parent);
        let response = {
            let ca = lab(krill.ca_manager().get_ca(&child_handle))?;
            let id_cert = ca.child_request().validate().map_err(|e| {
                e.to_string()
            })?;
            let req = AddChildRequest {
                handle: child_handle.convert(), resources: res, id_cert,
            };
            lab(krill.ca_manager().ca_add_child(
                &parent_handle, req, &self.actor, krill
            ))?
        };
        let req = ParentCaReq { handle: parent_handle.convert(), response };
        lab(krill.ca_manager().ca_parent_add_or_update(
            child_handle, req, &self.actor, krill
        ))
    }

    //--- tasks

    /// Pending tasks as (timestamp ms, name).
    pub fn pending(&self) -> Vec<(i64, String)> {
        pending_tasks(&self.env.krill)
    }

    /// Runs due tasks on this thread until nothing is due within the next
    /// two seconds (tasks re-queued "in one second" are waited for).
    pub fn settle(&self, max_tasks: usize) -> Result<Vec<String>, String> {
        settle(&self.env.krill, &self.env.slow, self.env.started, max_tasks)
    }
}

pub fn pending_tasks(krill: &KrillRuntime) -> Vec<(i64, String)> {
    let store = krill.storage().open(TASK_QUEUE_NS).unwrap();
    let mut res = Vec::new();
    for key in store.keys(Some(Ident::make("pending")), "").unwrap() {
        if let Some((ts, name)) = key.as_str().split_once('-') {
            res.push((ts.parse().unwrap_or(0), name.to_string()));
        }
    }
    res.sort();
    res
}

pub fn running_tasks(krill: &KrillRuntime) -> Vec<String> {
    let store = krill.storage().open(TASK_QUEUE_NS).unwrap();
    store.keys(Some(Ident::make("running")), "").unwrap().iter().map(|k| {
        k.to_string()
    }).collect()
}

/// One iteration of the inner loop of `scheduler::run`: claim, process,
/// apply the result. `Err` is what makes the real scheduler stop the
/// daemon.
pub fn scheduler_step(
    krill: &KrillRuntime, slow: &SlowKrillRuntime,
    started: krill::api::ca::Timestamp,
) -> Result<Option<String>, String> {
    let Some((key, value)) = krill.tasks().pop() else {
        return Ok(None)
    };
    let name = key.as_str().split_once('-').map(|x| x.1).unwrap_or("")
        .to_string();
    let task: Task = serde_json::from_value(value).map_err(|e| {
        format!("scheduler_task_parse {key}: {e}")
    })?;
    let res = verif_process_task(slow, task, started).map_err(|e| {
        format!("scheduler_task_fatal {name}: {e}")
    })?;
    let tasks = krill.tasks();
    let kind = match &res {
        TaskResult::Done => "finish",
        TaskResult::FollowUp(..) => "followup",
        TaskResult::Reschedule(..) => "reschedule",
    };
    match res {
        TaskResult::Done => tasks.finish(&key),
        TaskResult::FollowUp(task, prio) => {
            tasks.schedule_and_finish_existing(task, prio)
        }
        TaskResult::Reschedule(prio) => tasks.reschedule(&key, prio),
    }.map_err(|e| format!("scheduler_finish_failed {kind} {name}: {e}"))?;
    Ok(Some(name))
}

pub fn settle(
    krill: &KrillRuntime, slow: &SlowKrillRuntime,
    started: krill::api::ca::Timestamp, max_tasks: usize,
) -> Result<Vec<String>, String> {
    let mut done = Vec::new();
    let mut waited = 0;
    loop {
        while let Some(name) = scheduler_step(krill, slow, started)? {
            done.push(name);
            if done.len() > max_tasks {
                return Err(format!(
                    "tasks did not settle within {max_tasks} steps: {done:?}"
                ))
            }
        }
        let now = chrono::Utc::now().timestamp_millis();
        if pending_tasks(krill).iter().any(|(ts, _)| *ts <= now + 2500) {
            std::thread::sleep(std::time::Duration::from_millis(100));
            waited += 1;
            if waited > 300 {
                return Err(format!(
                    "tasks stay due for 30 s: {:?}", pending_tasks(krill)
                ))
            }
            continue
        }
        return Ok(done)
    }
}


//------------ operations ----------------------------------------------------

/// The shareable part of the world needed to issue operations.
pub struct Ops {
    pub krill: KrillRuntime,
    pub slow: SlowKrillRuntime,
    pub actor: Actor,
    pub idents: HashMap<String, (KeyIdentifier, IdCert)>,
    pub started: krill::api::ca::Timestamp,
}

impl Ops {
    pub fn new(world: &World) -> Self {
        Ops {
            krill: world.env.krill.clone(),
            slow: world.env.slow.clone(),
            actor: world.actor.clone(),
            idents: world.idents.iter().map(|(k, v)| {
                (k.clone(), (v.key, v.cert.clone()))
            }).collect(),
            started: world.env.started,
        }
    }

    fn jail(p: &str) -> uri::Rsync {
        uri::Rsync::from_str(&format!("{RSYNC_BASE}{p}/")).unwrap()
    }

    fn obj_uri(p: &str, n: i64) -> uri::Rsync {
        uri::Rsync::from_str(&format!("{RSYNC_BASE}{p}/f{n}.bin")).unwrap()
    }

    fn content(c: &str) -> Vec<u8> {
        format!("content-{c}").into_bytes()
    }

    /// Executes one operation. Returns the result class: "ok" or the
    /// error label of the refusal ("refused" for protocol level errors).
    pub fn exec(&self, op: &Value) -> String {
        match self.exec_inner(op) {
            Ok(()) => "ok".into(),
            Err(e) => e,
        }
    }

    fn exec_inner(&self, op: &Value) -> Result<(), String> {
        let krill = &self.krill;
        let cam = krill.ca_manager();
        let repo = krill.repo_manager();
        let short = |e: Error| label(&e);
        let ca = str_arg(op, "ca");
        match str_arg(op, "k") {
            "roa_add" => {
                let updates = RoaConfigurationUpdates {
                    added: vec![RoaConfiguration::from(
                        roa_payload(ca, int_arg(op, "r"))
                    )],
                    removed: vec![],
                };
                cam.ca_routes_update(
                    ca_handle(ca), updates, &self.actor, krill
                ).map_err(short)
            }
            "roa_del" => {
                let updates = RoaConfigurationUpdates {
                    added: vec![],
                    removed: vec![roa_payload(ca, int_arg(op, "r"))],
                };
                cam.ca_routes_update(
                    ca_handle(ca), updates, &self.actor, krill
                ).map_err(short)
            }
            "child_add" => {
                let child = str_arg(op, "child");
                let req = AddChildRequest {
                    handle: ChildHandle::from_str(child).unwrap(),
                    resources: ent_set(str_arg(op, "ent")),
                    id_cert: self.idents[child].1.clone(),
                };
                cam.ca_add_child(
                    &ca_handle(ca), req, &self.actor, krill
                ).map(|_| ()).map_err(short)
            }
            "child_upd" => {
                let req = UpdateChildRequest {
                    id_cert: None,
                    resources: Some(ent_set(str_arg(op, "ent"))),
                    suspend: None,
                    resource_class_name_mapping: None,
                };
                cam.ca_child_update(
                    &ca_handle(ca),
                    ChildHandle::from_str(str_arg(op, "child")).unwrap(),
                    req, &self.actor, krill
                ).map_err(short)
            }
            // a CA of its own (no parent, no repository), created, given a
            // new identity, deleted
            "ca_add" => cam.init_ca(ca_handle(ca), krill).map_err(short),
            "ca_id" => {
                cam.ca_update_id(ca_handle(ca), &self.actor, krill)
                    .map_err(short)
            }
            "ca_del" => {
                cam.delete_ca(&ca_handle(ca), &self.actor, &self.slow)
                    .map_err(short)
            }
            "child_rm" => {
                cam.ca_child_remove(
                    &ca_handle(ca),
                    ChildHandle::from_str(str_arg(op, "child")).unwrap(),
                    &self.actor, krill
                ).map_err(short)
            }
            "ud_list" => {
                // An RFC 6492 list query of the remote child, through the
                // entry point of the HTTP layer.
                let child = str_arg(op, "child");
                let msg = provisioning::Message::list(
                    rpki::ca::idexchange::SenderHandle::from_str(child)
                        .unwrap(),
                    ca_handle(ca).convert(),
                );
                let cms = krill.signer().create_rfc6492_cms(
                    msg, &self.idents[child].0
                ).map_err(|e| format!("harness: cannot sign: {e}"))?;
                let reply = cam.rfc6492(
                    &ca_handle(ca), cms.to_bytes(), None, &self.actor, krill
                ).map_err(short)?;
                let cms = provisioning::ProvisioningCms::decode(
                    reply.as_ref()
                ).map_err(|e| format!("garbled reply: {e}"))?;
                match cms.into_message().into_payload() {
                    provisioning::Payload::ListResponse(_) => Ok(()),
                    provisioning::Payload::ErrorResponse(_) => {
                        Err("refused".into())
                    }
                    _ => Err("odd reply".into()),
                }
            }
            "pub_add" => {
                let p = str_arg(op, "p");
                let req = PublisherRequest::new(
                    Base64::from_content(&self.idents[p].1.to_bytes()).into(),
                    PublisherHandle::from_str(p).unwrap(), None,
                );
                repo.create_publisher(req, &self.actor).map_err(short)
            }
            "pub_rm" => {
                let p = str_arg(op, "p");
                repo.remove_publisher(
                    PublisherHandle::from_str(p).unwrap(), &self.actor,
                    krill,
                ).map_err(short)
            }
            "publish" => {
                // An RFC 8181 delta of an external publisher, signed,
                // through the entry point of the HTTP layer.
                let p = str_arg(op, "p");
                let mut delta = PublishDelta::empty();
                for e in op["elems"].as_array().cloned().unwrap_or_default()
                {
                    let uri = Self::obj_uri(p, int_arg(&e, "u"));
                    let content = || Base64::from_content(
                        &Self::content(str_arg(&e, "c"))
                    );
                    let hash = || Hash::from_data(
                        &Self::content(str_arg(&e, "h"))
                    );
                    match str_arg(&e, "k") {
                        "P" => delta.add_publish(
                            Publish::new(None, uri, content())
                        ),
                        "U" => delta.add_update(
                            Update::new(None, uri, content(), hash())
                        ),
                        _ => delta.add_withdraw(
                            Withdraw::new(None, uri, hash())
                        ),
                    }
                }
                let msg = publication::Message::delta(delta);
                let cms = krill.signer().create_rfc8181_cms(
                    msg, &self.idents[p].0
                ).map_err(|e| format!("harness: cannot sign: {e}"))?;
                let bytes = repo.rfc8181(
                    PublisherHandle::from_str(p).unwrap(), cms.to_bytes(),
                    krill
                ).map_err(short)?;
                let cms = publication::PublicationCms::decode(&bytes)
                    .map_err(|e| format!("garbled reply: {e}"))?;
                match cms.into_message().as_reply() {
                    Ok(publication::Reply::Success) => Ok(()),
                    Ok(publication::Reply::ErrorReply(_)) => {
                        Err("refused".into())
                    }
                    _ => Err("odd reply".into()),
                }
            }
            "del_files" => {
                repo.delete_matching_files(RepoFileDeleteCriteria {
                    base_uri: Self::jail(str_arg(op, "p")),
                }).map_err(short)
            }
            // --- operations whose answer does not depend on the order
            "session_reset" => repo.rrdp_session_reset().map_err(short),
            "roll_init" => cam.ca_keyroll_init(
                ca_handle(ca), chrono::Duration::seconds(0), &self.actor,
                krill
            ).map_err(short),
            "roll_activate" => cam.ca_keyroll_activate(
                ca_handle(ca), chrono::Duration::seconds(0), &self.actor,
                krill
            ).map_err(short),
            "ca_list" => cam.ca_handles().map(|_| ()).map_err(short),
            "ca_show" => cam.get_ca(&ca_handle(ca)).map(|_| ())
                .map_err(short),
            "history" => cam.ca_history(
                &ca_handle(ca), CommandHistoryCriteria::default()
            ).map(|_| ()).map_err(short),
            "status" => cam.get_ca_status(&ca_handle(ca)).map(|_| ())
                .map_err(short),
            "repo_stats" => repo.repo_stats().map(|_| ()).map_err(short),
            "pub_show" => repo.get_publisher_details(
                PublisherHandle::from_str(str_arg(op, "p")).unwrap()
            ).map(|_| ()).map_err(short),
            "refresh_all" => cam.cas_schedule_refresh_all(krill)
                .map_err(short),
            "sync_all" => cam.cas_schedule_repo_sync_all(krill)
                .map_err(short),
            "republish" => cam.republish_all(true, krill).map(|_| ())
                .map_err(short),
            "bg" => {
                // the timer of a recurring background task fires
                let task = match str_arg(op, "task") {
                    "republish" => Task::RepublishIfNeeded,
                    "renew" => Task::RenewObjectsIfNeeded,
                    "snapshots" => Task::UpdateSnapshots,
                    "rrdp" => Task::RrdpUpdateIfNeeded,
                    "ta" => Task::SyncTrustAnchorProxySignerIfPossible,
                    other => return Err(format!("harness: task {other}")),
                };
                krill.tasks().schedule(task, mq::now()).map_err(short)
            }
            other => Err(format!("harness: unknown operation {other}")),
        }
    }
}


//------------ observation after quiescence ----------------------------------

pub fn publisher_objects(
    krill: &KrillRuntime
) -> BTreeMap<String, BTreeMap<String, Bytes>> {
    let repo = krill.repo_manager();
    let mut res = BTreeMap::new();
    for p in repo.publishers().unwrap_or_default() {
        let mut objs = BTreeMap::new();
        if let Ok(details) = repo.get_publisher_details(p.clone()) {
            let d = serde_json::to_value(&details).unwrap();
            for f in d["current_files"].as_array().cloned()
                .unwrap_or_default()
            {
                use base64::Engine;
                let data = base64::engine::general_purpose::STANDARD
                    .decode(f["base64"].as_str().unwrap_or(""))
                    .unwrap_or_default();
                objs.insert(
                    f["uri"].as_str().unwrap_or("").to_string(),
                    Bytes::from(data)
                );
            }
        }
        res.insert(p.to_string(), objs);
    }
    res
}

fn content_name(data: &[u8]) -> String {
    match std::str::from_utf8(data) {
        Ok(s) if s.starts_with("content-") => s[8..].to_string(),
        _ => "?".into(),
    }
}

/// The observable state after quiescence, in the vocabulary of
/// KrillConcTrace.tla, plus the list of problems that make the repository
/// differ from what a relying party must be able to validate.
pub fn observe(world: &World) -> Value {
    let krill = &world.env.krill;
    let mut problems: Vec<String> = Vec::new();

    // configuration as the API reports it
    let mut roas = Map::new();
    let mut children = Map::new();
    let mut want_vrps = BTreeSet::new();
    for name in ["A", "B", "C"] {
        match krill.ca_manager().get_ca(&ca_handle(name)) {
            Ok(ca) => {
                let ids: BTreeSet<String> = ca.configured_roas().iter().map(
                    |r| {
                        let p = r.roa_configuration.payload;
                        want_vrps.insert(
                            (p.prefix.to_string(), 24u8,
                             p.asn.to_string().trim_start_matches("AS")
                                .parse::<u32>().unwrap_or(u32::MAX))
                        );
                        roa_id(&p.to_string())
                    }
                ).collect();
                roas.insert(name.into(), json!(ids));
                let mut ch = Map::new();
                let mut names: Vec<String> = ca.children().map(|c| {
                    c.to_string()
                }).collect();
                names.sort();
                for child in names {
                    let h = ChildHandle::from_str(&child).unwrap();
                    if let Ok(details) = ca.get_child(&h) {
                        let d = serde_json::to_value(details).unwrap();
                        let r = &d["resources"];
                        let set = ResourceSet::from_strs(
                            r["asn"].as_str().unwrap_or(""),
                            r["ipv4"].as_str().unwrap_or(""),
                            r["ipv6"].as_str().unwrap_or(""),
                        ).map(|s| ent_class(&s)).unwrap_or("?".into());
                        ch.insert(child, json!(set));
                    }
                }
                children.insert(name.into(), Value::Object(ch));
            }
            Err(e) => problems.push(format!("CA {name} unreadable: {e}")),
        }
    }

    // the publication server's content, per publisher it knows
    let per = publisher_objects(krill);
    let mut server: rp::Objects = rp::Objects::new();
    for objs in per.values() {
        for (uri, data) in objs {
            server.insert(uri.clone(), data.clone());
        }
    }

    // what is on disk for RRDP and rsync clients
    let repo_dir = world.env.dir.join("repo");
    let (disk, session_disk, serial_disk)
        = match rp::read_rrdp_snapshot(&repo_dir)
    {
        Ok((objs, session, serial)) => (objs, session, serial as i64),
        Err(e) => {
            problems.push(format!("rrdp files unreadable: {e}"));
            (rp::Objects::new(), String::new(), -1)
        }
    };
    let stats = krill.repo_manager().repo_stats().ok().map(|s| {
        serde_json::to_value(&s).unwrap_or(Value::Null)
    }).unwrap_or(Value::Null);
    let serial_server = stats["serial"].as_i64().unwrap_or(-2);
    let session_server = stats["session"].as_str().unwrap_or("").to_string();
    if serial_disk != serial_server || session_disk != session_server {
        problems.push(format!(
            "RrdpFilesStale: notification on disk has session \
             {session_disk} serial {serial_disk}, the server's content \
             session {session_server} serial {serial_server}"
        ));
    }

    // The external publishers as a client sees them: the objects served
    // under their URI space (judged by KrillConcTrace against the serial
    // execution), and whether the server knows the publisher.
    let external = |uri: &str| -> Option<(String, String)> {
        let rest = uri.strip_prefix(RSYNC_BASE)?;
        let (p, file) = rest.split_once('/')?;
        if p == "x" || p == "y" {
            Some((p.to_string(), file.trim_start_matches('f')
                .trim_end_matches(".bin").to_string()))
        }
        else {
            None
        }
    };
    let mut pubs = Map::new();
    for p in ["x", "y"] {
        let mut objs = Map::new();
        for (uri, data) in &disk {
            if let Some((owner, n)) = external(uri) && owner == p {
                objs.insert(n, json!(content_name(data)));
            }
        }
        pubs.insert(p.into(), json!({
            "exists": per.contains_key(p), "objs": objs,
        }));
    }
    // Everything the server holds for a publisher it knows must be what is
    // served, and nothing else may be served outside the external spaces.
    let mut missing: Vec<&String> = server.keys().filter(|u| {
        disk.get(*u) != server.get(*u)
    }).collect();
    let mut extra: Vec<&String> = disk.keys().filter(|u| {
        !server.contains_key(*u) && external(u).is_none()
    }).collect();
    if !missing.is_empty() || !extra.is_empty() {
        missing.sort();
        extra.sort();
        problems.push(format!(
            "RrdpSnapshotDiffers: snapshot on disk differs from the \
             server's content (missing or different {missing:?}, \
             extra {extra:?})"
        ));
    }
    let rsync = rp::read_rsync_tree(&repo_dir, RSYNC_BASE);
    if rsync != disk {
        problems.push(format!(
            "RsyncTreeDiffers: {} files in the rsync tree, {} in the RRDP \
             snapshot", rsync.len(), disk.len()
        ));
    }

    // relying-party walk over what is on disk
    let mut vrps = BTreeSet::new();
    let mut certs = Map::new();
    match krill.ca_manager().get_trust_anchor_proxy().ok().and_then(|p| {
        p.get_ta_details().ok().map(|d| d.cert.to_bytes())
    }) {
        Some(ta) => {
            let res = rp::walk(ta, &disk);
            for p in &res.problems {
                problems.push(format!("RpProblem: {p}"));
            }
            for v in &res.vrps {
                vrps.insert((v.0.clone(), v.1, v.2));
            }
            // resources on the CA certificates, by publication point
            for point in &res.points {
                let name = point.repo.strip_prefix(RSYNC_BASE).unwrap_or("")
                    .split('/').next().unwrap_or("").to_string();
                if let Some(set) = point.resources.as_ref() {
                    let known = certs.get(&name).and_then(|v| v.as_str())
                        .map(String::from);
                    let class = ent_class(set);
                    match known {
                        Some(k) if k != class => {
                            certs.insert(name, json!("?differ"));
                        }
                        _ => { certs.insert(name, json!(class)); }
                    }
                }
            }
        }
        None => problems.push("no TA certificate".into()),
    }
    if !certs.contains_key("B") {
        // B has no certificate (it was removed as a child): what it has
        // configured cannot be valid; KrillConcTrace compares certB with
        // the entitlement of the serial execution.
        want_vrps.retain(|v| !v.0.starts_with("10.0."));
    }
    if vrps != want_vrps {
        problems.push(format!(
            "VrpsDiffer: relying party sees {vrps:?}, configured \
             {want_vrps:?}"
        ));
    }
    let running = running_tasks(krill);
    if !running.is_empty() {
        problems.push(format!("TasksStillRunning: {running:?}"));
    }
    json!({
        "roas": roas,
        "children": children,
        "pubs": pubs,
        "certB": certs.get("B").cloned().unwrap_or(json!("none")),
        "problems": problems,
        "serial": serial_server,
    })
}
