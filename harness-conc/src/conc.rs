//! run-conc: worker threads and a scheduler thread execute a scenario on
//! one in-process Krill. Every call is logged with start/end numbers from
//! one global counter, its arguments and its result; a watchdog bounds
//! every call; after quiescence the observable state is recorded.

use std::path::Path;
use std::sync::atomic::{AtomicBool, AtomicU64, Ordering};
use std::sync::{mpsc, Arc, Barrier, Mutex};
use std::time::{Duration, Instant};
use krill::verif;
use serde_json::{json, Value};
use crate::common::*;
use crate::world::{self, Ops, World};

static SEQ: AtomicU64 = AtomicU64::new(1);

fn tick() -> u64 {
    SEQ.fetch_add(1, Ordering::SeqCst)
}

fn now_ms() -> u64 {
    std::time::SystemTime::now().duration_since(std::time::UNIX_EPOCH)
        .map(|d| d.as_millis() as u64).unwrap_or(0)
}

/// What a thread is doing, for the watchdog.
struct Slot {
    /// 0 = idle or finished, otherwise the wall clock (ms) at which the
    /// current call started.
    since: AtomicU64,
    what: Mutex<String>,
}

impl Slot {
    fn new() -> Arc<Self> {
        Arc::new(Slot { since: AtomicU64::new(0), what: Mutex::new("".into()) })
    }

    fn enter(&self, what: String) {
        *self.what.lock().unwrap() = what;
        self.since.store(now_ms(), Ordering::SeqCst);
    }

    fn leave(&self) {
        self.since.store(0, Ordering::SeqCst);
    }
}

//------------ wait-for analysis ---------------------------------------------

/// Searches the hook lock table for a cycle of threads each waiting for a
/// lock the next one holds (or, on the memory back-end, queueing behind a
/// writer that waits). Returns the cycle as a list of edges.
pub fn wait_cycle(table: &Value, writer_pref: bool) -> Option<Vec<Value>> {
    let entries = table.as_array().cloned().unwrap_or_default();
    let mut edges: Vec<(i64, i64, Value)> = Vec::new();
    for (i, w) in entries.iter().enumerate() {
        if w["held"].as_bool().unwrap_or(false) {
            continue
        }
        let (wt, wl, wm) = (int_arg(w, "thr"), str_arg(w, "name"),
                            str_arg(w, "mode"));
        for (j, h) in entries.iter().enumerate() {
            if i == j || str_arg(h, "name") != wl {
                continue
            }
            let (ht, hm) = (int_arg(h, "thr"), str_arg(h, "mode"));
            let held = h["held"].as_bool().unwrap_or(false);
            let blocks = if held {
                wm == "w" || hm == "w"
            }
            else {
                // a reader queues behind a waiting writer
                writer_pref && wm == "r" && hm == "w" && ht != wt
            };
            if blocks {
                edges.push((wt, ht, json!({
                    "waiter": wt, "wants": wl, "mode": wm,
                    "blocked_by": ht, "their_mode": hm,
                    "they_hold_it": held,
                })));
            }
        }
    }
    // DFS for a cycle
    fn dfs(
        at: i64, start: i64, edges: &[(i64, i64, Value)],
        path: &mut Vec<Value>, seen: &mut Vec<i64>,
    ) -> bool {
        for (from, to, info) in edges {
            if *from != at {
                continue
            }
            path.push(info.clone());
            if *to == start {
                return true
            }
            if !seen.contains(to) {
                seen.push(*to);
                if dfs(*to, start, edges, path, seen) {
                    return true
                }
            }
            path.pop();
        }
        false
    }
    let mut starts: Vec<i64> = edges.iter().map(|e| e.0).collect();
    starts.sort();
    starts.dedup();
    for s in starts {
        let mut path = Vec::new();
        let mut seen = vec![s];
        if dfs(s, s, &edges, &mut path, &mut seen) {
            return Some(path)
        }
    }
    None
}

//------------ one scenario --------------------------------------------------

struct Outcome1 {
    line: Value,
}

fn run_one(sc: &Value, workdir: &Path, watchdog_ms: u64) -> Outcome1 {
    let id = int_arg(sc, "id");
    let memory = sc["memory"].as_bool().unwrap_or(false);
    let seed = int_arg(sc, "seed") as u64;
    let yield_us = int_arg(sc, "yield_us") as u64;
    let real_sched = sc["real_sched"].as_bool().unwrap_or(false);
    refill_keys((id as usize * 41) % 1000);
    verif::set_yield(0, 0);
    verif::locks_enable(false);
    let world = match World::create(&workdir.join(format!("w{id}")), memory) {
        Ok(w) => w,
        Err(e) => {
            eprintln!("world set-up failed: {e}");
            std::process::exit(2);
        }
    };
    let ops = Arc::new(Ops::new(&world));
    let calls: Arc<Mutex<Vec<Value>>> = Arc::new(Mutex::new(Vec::new()));
    // memory back-end: lock names are pointers; find out the namespaces
    let namer = crate::locks::Namer::probe(&world);

    // sequential prefix
    for op in sc["pre"].as_array().cloned().unwrap_or_default() {
        let s = tick();
        let res = match guarded(|| ops.exec(&op)) {
            Outcome::Ok(r) => r,
            Outcome::Panic(m) | Outcome::Crash(m) => format!("panic: {m}"),
        };
        let e = tick();
        calls.lock().unwrap().push(json!({
            "thr": 0, "op": op, "s": s, "e": e, "res": res,
        }));
    }
    if let Err(e) = world.settle(300) {
        eprintln!("scenario {id}: prefix does not settle: {e}");
        std::process::exit(2);
    }

    verif::locks_enable(true);
    verif::set_yield(seed, yield_us);
    let threads = sc["threads"].as_array().cloned().unwrap_or_default();
    let barrier = Arc::new(Barrier::new(threads.len() + 2));
    let mut slots = Vec::new();
    let mut handles = Vec::new();
    for (t, list) in threads.iter().enumerate() {
        let list = list.as_array().cloned().unwrap_or_default();
        let ops = ops.clone();
        let calls = calls.clone();
        let barrier = barrier.clone();
        let slot = Slot::new();
        slots.push((format!("worker {}", t + 1), slot.clone()));
        handles.push(std::thread::spawn(move || {
            verif::set_thread_tag(t as u32 + 1);
            barrier.wait();
            for op in list {
                let d = int_arg(&op, "d");
                if d > 0 {
                    std::thread::sleep(Duration::from_micros(d as u64));
                }
                slot.enter(op.to_string());
                let s = tick();
                let res = match guarded(|| ops.exec(&op)) {
                    Outcome::Ok(r) => r,
                    Outcome::Panic(m) | Outcome::Crash(m) => {
                        format!("panic: {m}")
                    }
                };
                let e = tick();
                slot.leave();
                calls.lock().unwrap().push(json!({
                    "thr": t + 1, "op": op, "s": s, "e": e, "res": res,
                }));
            }
        }));
    }

    // the scheduler thread
    let stop = Arc::new(AtomicBool::new(false));
    let sched_log: Arc<Mutex<Vec<String>>> = Arc::new(Mutex::new(Vec::new()));
    let fatal: Arc<Mutex<Option<String>>> = Arc::new(Mutex::new(None));
    let sched_slot = Slot::new();
    slots.push(("scheduler".to_string(), sched_slot.clone()));
    let (shutdown_tx, shutdown_rx) = mpsc::channel::<()>();
    let sched = {
        let ops = ops.clone();
        let stop = stop.clone();
        let log = sched_log.clone();
        let fatal = fatal.clone();
        let slot = sched_slot.clone();
        let barrier = barrier.clone();
        std::thread::spawn(move || {
            verif::set_thread_tag(100);
            barrier.wait();
            if real_sched {
                // the daemon's own loop; process::exit shows as a panic
                let slow = ops.slow.clone();
                if let Outcome::Panic(m) | Outcome::Crash(m) = guarded(|| {
                    krill::server::scheduler::verif_run(slow, shutdown_rx)
                }) {
                    *fatal.lock().unwrap() = Some(m);
                }
                return
            }
            let _keep = shutdown_rx;
            while !stop.load(Ordering::SeqCst) {
                slot.enter("task".into());
                let step = guarded(|| {
                    world::scheduler_step(&ops.krill, &ops.slow, ops.started)
                });
                slot.leave();
                match step {
                    Outcome::Ok(Ok(Some(name))) => {
                        log.lock().unwrap().push(name);
                    }
                    Outcome::Ok(Ok(None)) => {
                        std::thread::sleep(Duration::from_millis(2));
                    }
                    Outcome::Ok(Err(e)) => {
                        *fatal.lock().unwrap() = Some(e);
                        return
                    }
                    Outcome::Panic(m) | Outcome::Crash(m) => {
                        *fatal.lock().unwrap() = Some(format!("panic: {m}"));
                        return
                    }
                }
            }
        })
    };

    // watchdog while the workers run
    barrier.wait();
    let t0 = Instant::now();
    let mut deadlock: Option<Value> = None;
    let watch = |slots: &[(String, Arc<Slot>)]| -> Option<(String, String)> {
        let now = now_ms();
        for (name, slot) in slots {
            let since = slot.since.load(Ordering::SeqCst);
            if since != 0 && now.saturating_sub(since) > watchdog_ms {
                return Some((name.clone(), slot.what.lock().unwrap().clone()))
            }
        }
        None
    };
    let mut stuck: Option<(String, String)> = None;
    loop {
        if handles.iter().all(|h| h.is_finished()) {
            break
        }
        if let Some(s) = watch(&slots) {
            stuck = Some(s);
            break
        }
        std::thread::sleep(Duration::from_millis(20));
    }
    if stuck.is_none() {
        for h in handles {
            let _ = h.join();
        }
        // let the scheduler catch up with what is due, then stop it
        let mut idle = 0;
        let t1 = Instant::now();
        loop {
            if fatal.lock().unwrap().is_some() || sched.is_finished() {
                break
            }
            if let Some(s) = watch(&slots) {
                stuck = Some(s);
                break
            }
            let now = chrono::Utc::now().timestamp_millis();
            let due = world.pending().iter().any(|(ts, _)| *ts <= now + 2500)
                || !world::running_tasks(&ops.krill).is_empty();
            if due {
                idle = 0;
            }
            else {
                idle += 1;
                if idle >= 3 {
                    break
                }
            }
            if t1.elapsed() > Duration::from_secs(120) {
                eprintln!(
                    "scenario {id}: scheduler does not catch up: {:?}",
                    world.pending()
                );
                std::process::exit(2);
            }
            std::thread::sleep(Duration::from_millis(if real_sched {
                200
            } else {
                20
            }));
        }
    }
    if let Some((who, what)) = stuck {
        // a call did not return within the watchdog limit
        let snap1 = verif::locks_snapshot();
        std::thread::sleep(Duration::from_millis(500));
        let mut snap2 = verif::locks_snapshot();
        if let Some(entries) = snap2.as_array_mut() {
            for e in entries {
                if let Ok(name) = namer.name(str_arg(e, "name")) {
                    e["name"] = json!(name);
                }
            }
        }
        let snap1 = {
            let mut s = snap1;
            if let Some(entries) = s.as_array_mut() {
                for e in entries {
                    if let Ok(name) = namer.name(str_arg(e, "name")) {
                        e["name"] = json!(name);
                    }
                }
            }
            s
        };
        // (the same cycle at both instants: threads outside the cycle -
        // the scheduler polling its queue - may come and go in between)
        let cycle = match (
            wait_cycle(&snap1, memory), wait_cycle(&snap2, memory)
        ) {
            (Some(c1), Some(c2)) if c1 == c2 => Some(c2),
            _ => None,
        };
        match cycle {
            Some(cycle) => {
                deadlock = Some(json!({
                    "stuck": who, "call": what, "cycle": cycle,
                    "locks": snap2,
                }));
            }
            None => {
                eprintln!(
                    "scenario {id}: {who} did not finish {what} within \
                     {watchdog_ms} ms and the lock table shows no wait-for \
                     cycle (slow machine, or a lock without a hook): \
                     {snap2}"
                );
                std::process::exit(2);
            }
        }
    }
    verif::set_yield(0, 0);
    let elapsed = t0.elapsed().as_millis() as u64;
    let mut line = json!({
        "ev": "run", "id": id, "memory": memory, "seed": seed,
        "yield_us": yield_us, "real_sched": real_sched,
        "scenario": sc, "elapsed_ms": elapsed,
    });
    if let Some(d) = deadlock {
        // the threads are stuck for good: report and leave the process
        line["deadlock"] = d;
        line["calls"] = json!(*calls.lock().unwrap());
        return Outcome1 { line }
    }
    stop.store(true, Ordering::SeqCst);
    let _ = shutdown_tx.send(());
    let _ = sched.join();
    verif::locks_enable(false);
    let fatal = fatal.lock().unwrap().clone();
    line["fatal"] = json!(fatal);
    let mut calls = calls.lock().unwrap().clone();
    calls.sort_by_key(|c| c["s"].as_u64());
    line["calls"] = json!(calls);
    line["tasks"] = json!(*sched_log.lock().unwrap());
    if fatal.is_none() {
        // whatever the stopped scheduler left is run here
        // ... followed by one round of the periodic refresh (every CA asks
        // its parents for its entitlements), so that "caught up" does not
        // depend on the ten-minute timer: a sync that sends pending
        // requests does not fetch entitlements in the same run. Nothing is
        // re-published on purpose: a publication lost in a race must stay
        // visible.
        match guarded(|| -> Result<Vec<String>, String> {
            let mut names = world.settle(400)?;
            let cam = ops.krill.ca_manager();
            cam.cas_schedule_refresh_all(&ops.krill).map_err(|e| {
                e.to_string()
            })?;
            names.extend(world.settle(400)?);
            Ok(names)
        }) {
            Outcome::Ok(Ok(names)) => {
                line["tasks_after"] = json!(names);
            }
            Outcome::Ok(Err(e)) => {
                line["fatal"] = json!(format!("after the run: {e}"));
            }
            Outcome::Panic(m) | Outcome::Crash(m) => {
                line["fatal"] = json!(format!("after the run: panic: {m}"));
            }
        }
    }
    match guarded(|| world::observe(&world)) {
        Outcome::Ok(obs) => { line["final"] = obs; }
        Outcome::Panic(m) | Outcome::Crash(m) => {
            line["final"] = json!({"problems": [format!("ObservePanic: {m}")]});
        }
    }
    Outcome1 { line }
}

pub fn run(input: &Path, out: &Path, workdir: &Path, watchdog_ms: u64) {
    let scenarios = read_ndjson(input);
    let mut trace = TraceOut::create(out);
    for sc in &scenarios {
        let res = run_one(sc, workdir, watchdog_ms);
        let dead = res.line.get("deadlock").is_some();
        trace.push(&res.line);
        let id = int_arg(sc, "id");
        let _ = std::fs::remove_dir_all(workdir.join(format!("w{id}")));
        if dead {
            // stuck threads cannot be joined; the remaining scenarios of
            // this shard are reported as not run
            trace.finish();
            std::process::exit(3);
        }
    }
    trace.finish();
}
