//! record-locks: runs every operation kind alone on a quiescent world and
//! records its lock program: the ordered sequence of lock acquisitions and
//! releases the storage back-end hooks report (`lock_wait`/`lock_acq`/
//! `lock_rel`). The programs are the input of spec/Locks.tla.

use std::collections::HashMap;
use std::path::Path;
use krill::commons::storage::Ident;
use krill::verif;
use serde_json::{json, Value};
use crate::common::*;
use crate::world::{self, Ops, World};

const NAMESPACES: &[&str] = &[
    "cas", "ca_objects", "keys", "properties", "pubd_objects", "pubd",
    "signers", "status", "ta_proxy", "ta_signer", "tasks",
];

pub struct Namer {
    /// memory back-end: "mem0x..." -> namespace
    ptrs: HashMap<String, String>,
}

impl Namer {
    /// Finds out the lock name prefix of every namespace by touching it.
    pub fn probe(world: &World) -> Self {
        let mut ptrs = HashMap::new();
        for ns in NAMESPACES {
            let ident = Ident::from_str(ns).unwrap();
            verif::trace_enable(true);
            if let Ok(store) = world.krill().storage().open(ident) {
                let _ = store.is_empty();
                let _ = store.scopes();
            }
            for ev in verif::trace_drain() {
                let name = str_arg(&ev, "name");
                if let Some((ptr, _)) = name.split_once('/')
                    && ptr.starts_with("mem")
                {
                    ptrs.insert(ptr.to_string(), ns.to_string());
                }
            }
            verif::trace_enable(false);
        }
        Namer { ptrs }
    }

    pub fn name(&self, raw: &str) -> Result<String, String> {
        let (ns, scope) = raw.split_once('/').unwrap_or((raw, ""));
        if ns.starts_with("mem") {
            match self.ptrs.get(ns) {
                Some(real) => Ok(format!("{real}/{scope}")),
                None => Err(format!("lock of an unknown namespace: {raw}")),
            }
        }
        else {
            Ok(raw.to_string())
        }
    }
}

/// Turns drained hook events into a lock program.
pub fn program(events: &[Value], namer: &Namer) -> Result<Vec<Value>, String> {
    let mut steps = Vec::new();
    let mut waiting: Option<(String, String)> = None;
    for ev in events {
        let kind = str_arg(ev, "ev");
        if !kind.starts_with("lock_") {
            continue
        }
        let name = namer.name(str_arg(ev, "name"))?;
        let mode = str_arg(ev, "mode").to_string();
        match kind {
            "lock_wait" => {
                if waiting.is_some() {
                    return Err("two lock_wait in a row".into())
                }
                waiting = Some((name, mode));
            }
            "lock_acq" => {
                if waiting.take() != Some((name.clone(), mode.clone())) {
                    return Err(format!("lock_acq {name} without lock_wait"))
                }
                steps.push(json!({"a": "acq", "l": name, "m": mode}));
            }
            _ => {
                steps.push(json!({"a": "rel", "l": name, "m": mode}));
            }
        }
    }
    if waiting.is_some() {
        return Err("program ends in a lock_wait".into())
    }
    Ok(steps)
}

fn catalogue() -> Vec<Value> {
    let mut ops = vec![
        json!({"k": "ca_list"}),
        json!({"k": "repo_stats"}),
        json!({"k": "pub_add", "p": "x"}),
        json!({"k": "publish", "p": "x", "elems": [
            {"k": "P", "u": 1, "c": "a"}, {"k": "P", "u": 2, "c": "b"}]}),
        json!({"k": "publish", "p": "x", "elems": [
            {"k": "U", "u": 1, "c": "c", "h": "a"},
            {"k": "W", "u": 2, "h": "b"}]}),
        json!({"k": "publish", "p": "x", "elems": [
            {"k": "P", "u": 1, "c": "a"}]}),
        json!({"k": "pub_show", "p": "x"}),
        json!({"k": "del_files", "p": "x"}),
        json!({"k": "session_reset"}),
        json!({"k": "pub_rm", "p": "x"}),
        json!({"k": "pub_rm", "p": "x"}),
    ];
    for ca in ["A", "B", "C"] {
        ops.push(json!({"k": "ca_show", "ca": ca}));
        ops.push(json!({"k": "status", "ca": ca}));
        ops.push(json!({"k": "history", "ca": ca}));
        ops.push(json!({"k": "roa_add", "ca": ca, "r": 1}));
        ops.push(json!({"k": "roa_add", "ca": ca, "r": 1}));
        ops.push(json!({"k": "roa_add", "ca": ca, "r": 2}));
        ops.push(json!({"k": "roa_del", "ca": ca, "r": 1}));
        ops.push(json!({"k": "roa_del", "ca": ca, "r": 3}));
    }
    ops.extend([
        json!({"k": "child_add", "ca": "A", "child": "X", "ent": "s"}),
        json!({"k": "child_add", "ca": "A", "child": "X", "ent": "s"}),
        json!({"k": "ud_list", "ca": "A", "child": "X"}),
        json!({"k": "child_upd", "ca": "A", "child": "X", "ent": "l"}),
        json!({"k": "child_rm", "ca": "A", "child": "X"}),
        json!({"k": "child_rm", "ca": "A", "child": "X"}),
        json!({"k": "ud_list", "ca": "A", "child": "X"}),
        json!({"k": "child_upd", "ca": "A", "child": "B", "ent": "l"}),
        json!({"k": "child_upd", "ca": "A", "child": "B", "ent": "s"}),
        json!({"k": "ca_add", "ca": "Z"}),
        json!({"k": "ca_id", "ca": "Z"}),
        json!({"k": "ca_show", "ca": "Z"}),
        json!({"k": "ca_del", "ca": "Z"}),
        json!({"k": "ca_del", "ca": "Z"}),
        json!({"k": "roll_init", "ca": "B"}),
        json!({"k": "roll_activate", "ca": "B"}),
        json!({"k": "roll_init", "ca": "A"}),
        json!({"k": "roll_activate", "ca": "A"}),
        json!({"k": "refresh_all"}),
        json!({"k": "sync_all"}),
        json!({"k": "republish"}),
        json!({"k": "bg", "task": "republish"}),
        json!({"k": "bg", "task": "renew"}),
        json!({"k": "bg", "task": "snapshots"}),
        json!({"k": "bg", "task": "rrdp"}),
        json!({"k": "bg", "task": "ta"}),
    ]);
    ops
}

fn op_name(op: &Value) -> String {
    let mut name = str_arg(op, "k").to_string();
    for key in ["ca", "child", "p", "task"] {
        if let Some(v) = op.get(key).and_then(|v| v.as_str()) {
            name.push_str(&format!(" {key}={v}"));
        }
    }
    name
}

pub fn run(out: &Path, workdir: &Path, memory: bool) {
    refill_keys(0);
    let world = match World::create(&workdir.join("locks"), memory) {
        Ok(w) => w,
        Err(e) => {
            eprintln!("world set-up failed: {e}");
            std::process::exit(2);
        }
    };
    let namer = Namer::probe(&world);
    let ops = Ops::new(&world);
    let mut trace = TraceOut::create(out);
    let backend = if memory { "memory" } else { "disk" };
    let mut emit = |name: String, res: String, events: Vec<Value>| {
        match program(&events, &namer) {
            Ok(steps) => trace.push(&json!({
                "op": name, "res": res, "backend": backend, "steps": steps,
            })),
            Err(e) => {
                eprintln!("bad lock events in {name}: {e}");
                std::process::exit(2);
            }
        }
    };
    for op in catalogue() {
        verif::trace_enable(true);
        let res = match guarded(|| ops.exec(&op)) {
            Outcome::Ok(res) => res,
            Outcome::Panic(msg) | Outcome::Crash(msg) => {
                eprintln!("panic while recording {op}: {msg}");
                std::process::exit(2);
            }
        };
        if res.starts_with("harness:") {
            eprintln!("operation {op} failed in the harness: {res}");
            std::process::exit(2);
        }
        let events = verif::trace_drain();
        emit(op_name(&op), res, events);
        // every task the operation left behind, one at a time
        let mut count = 0;
        loop {
            verif::trace_enable(true);
            let step = guarded(|| {
                world::scheduler_step(&ops.krill, &ops.slow, ops.started)
            });
            let events = verif::trace_drain();
            match step {
                Outcome::Ok(Ok(Some(name))) => {
                    emit(format!("task {name}"), "ok".into(), events);
                }
                Outcome::Ok(Ok(None)) => {
                    emit("task none".into(), "ok".into(), events);
                    let now = chrono::Utc::now().timestamp_millis();
                    if world.pending().iter().any(|(ts, _)| {
                        *ts <= now + 1500
                    }) {
                        std::thread::sleep(
                            std::time::Duration::from_millis(100)
                        );
                    }
                    else {
                        break
                    }
                }
                Outcome::Ok(Err(e)) => {
                    eprintln!("scheduler stopped while recording: {e}");
                    std::process::exit(2);
                }
                Outcome::Panic(msg) | Outcome::Crash(msg) => {
                    eprintln!("panic in a task while recording: {msg}");
                    std::process::exit(2);
                }
            }
            count += 1;
            if count > 400 {
                eprintln!("tasks do not settle while recording");
                std::process::exit(2);
            }
        }
        verif::trace_enable(false);
    }
    trace.finish();
}
