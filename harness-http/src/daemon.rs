//! Starts the real krill daemon in-process with a given user/role set-up.

use std::collections::HashMap;
use std::fs;
use std::path::{Path, PathBuf};
use std::str::FromStr;
use std::sync::Arc;
use std::time::{Duration, Instant};
use krill::config::Config;
use krill::daemon::http::auth::{Permission, PermissionSet, Role, RoleMap};
use rpki::ca::idexchange::MyHandle;
use serde_json::Value;
use tokio::sync::oneshot;
use unicode_normalization::UnicodeNormalization;

use crate::client::{Client, Target};


//------------ RoleDef -------------------------------------------------------

/// A role as the specification describes it.
#[derive(Clone, Debug, PartialEq, Eq)]
pub struct RoleDef {
    pub none: Vec<String>,
    pub any: Vec<String>,
    pub specific: Vec<(String, Vec<String>)>,
}

impl RoleDef {
    /// Parses `{"none":[..],"any":[..],"specific":[{"ca":..,"perms":[..]}]}`.
    pub fn from_json(v: &Value) -> Self {
        fn strs(v: Option<&Value>) -> Vec<String> {
            let mut res: Vec<String> = v.and_then(|v| v.as_array()).map(|a| {
                a.iter().filter_map(|x| x.as_str().map(String::from)).collect()
            }).unwrap_or_default();
            res.sort();
            res.dedup();
            res
        }
        let mut specific: Vec<(String, Vec<String>)> = v.get("specific")
            .and_then(|s| s.as_array()).map(|a| {
                a.iter().map(|e| {
                    (
                        e.get("ca").and_then(|c| c.as_str())
                            .unwrap_or("").to_string(),
                        strs(e.get("perms"))
                    )
                }).collect()
            }).unwrap_or_default();
        specific.sort();
        RoleDef {
            none: strs(v.get("none")), any: strs(v.get("any")), specific
        }
    }

    pub fn to_json(&self) -> Value {
        serde_json::json!({
            "none": self.none, "any": self.any,
            "specific": self.specific.iter().map(|(ca, perms)| {
                serde_json::json!({"ca": ca, "perms": perms})
            }).collect::<Vec<_>>()
        })
    }

    /// `permissions = [..]` without `cas`: one set for everything.
    fn is_simple(&self) -> bool {
        self.specific.is_empty() && self.none == self.any
    }

    /// `permissions = [..], cas = [..]`: the set for requests without a CA
    /// and for the listed CAs, nothing for other CAs.
    fn is_scoped(&self) -> bool {
        !self.specific.is_empty() && self.any.is_empty()
            && self.specific.iter().all(|(_, p)| *p == self.none)
    }

    fn toml(&self) -> Option<String> {
        let perms = |p: &[String]| {
            p.iter().map(|s| format!("\"{s}\"")).collect::<Vec<_>>()
                .join(", ")
        };
        if self.is_simple() {
            Some(format!("{{ permissions = [{}] }}", perms(&self.none)))
        }
        else if self.is_scoped() {
            Some(format!(
                "{{ permissions = [{}], cas = [{}] }}",
                perms(&self.none),
                self.specific.iter().map(|(c, _)| format!("\"{c}\""))
                    .collect::<Vec<_>>().join(", ")
            ))
        }
        else {
            None
        }
    }

    fn set(perms: &[String]) -> PermissionSet {
        let mut res = PermissionSet::default();
        for p in perms {
            res = res.add(Permission::from_str(p).unwrap_or_else(|_| {
                panic!("unknown permission {p}")
            }));
        }
        res
    }

    fn to_role(&self) -> Role {
        Role::complex(
            Self::set(&self.none), Self::set(&self.any),
            self.specific.iter().map(|(ca, perms)| {
                (MyHandle::from_str(ca).unwrap(), Self::set(perms))
            }).collect::<HashMap<_, _>>()
        )
    }
}


//------------ UserDef -------------------------------------------------------

#[derive(Clone, Debug)]
pub struct UserDef {
    pub name: String,
    pub password: String,
    pub role: String,
}

/// Password hash and salt as `krillc config user` computes them
/// (src/cli/options/config.rs:65-96), with one difference: the name that
/// goes into the weak salt is trimmed as well as NFKC-normalised, which is
/// what the daemon's login does (config_file.rs:187). krillc does not trim
/// the id, so for an id with surrounding blanks its output can never match
/// in the daemon; that tooling inconsistency is not what C20 is about.
pub fn password_hash(id: &str, password: &str) -> (String, String) {
    let user_id = id.trim().nfkc().collect::<String>();
    let password = password.trim().nfkc().collect::<String>();
    let params = scrypt::Params::new(
        krill::constants::PW_HASH_LOG_N,
        krill::constants::PW_HASH_R,
        krill::constants::PW_HASH_P,
        scrypt::Params::RECOMMENDED_LEN,
    ).unwrap();
    let weak_salt = format!("krill-lagosta-{user_id}");
    let weak_salt = weak_salt.nfkc().collect::<String>();
    let mut interim = [0u8; 32];
    scrypt::scrypt(
        password.as_bytes(), weak_salt.as_bytes(), &params, &mut interim
    ).unwrap();
    let mut strong_salt = [0u8; 32];
    openssl::rand::rand_bytes(&mut strong_salt).unwrap();
    let mut fin = [0u8; 32];
    scrypt::scrypt(&interim, &strong_salt, &params, &mut fin).unwrap();
    (hex::encode(fin), hex::encode(strong_salt))
}


//------------ DaemonOpts ----------------------------------------------------

#[derive(Clone, Debug, Default)]
pub struct DaemonOpts {
    pub testbed: bool,
    pub roles: Vec<(String, RoleDef)>,
    pub users: Vec<UserDef>,
    /// system user -> role name
    pub unix_users: Vec<(String, String)>,
    pub admin_token: String,
}

pub struct Daemon {
    pub dir: PathBuf,
    pub port: u16,
    pub sock: PathBuf,
    pub admin_token: String,
    exit: Option<oneshot::Sender<()>>,
    thread: Option<std::thread::JoinHandle<Result<(), String>>>,
}

fn free_port() -> u16 {
    let l = std::net::TcpListener::bind(("127.0.0.1", 0)).unwrap();
    l.local_addr().unwrap().port()
}

pub fn current_user() -> String {
    nix::unistd::User::from_uid(nix::unistd::Uid::current())
        .ok().flatten().map(|u| u.name).unwrap_or_else(|| "root".into())
}

fn toml_str(s: &str) -> String {
    // TOML basic string with \u escapes for everything unusual
    let mut res = String::from("\"");
    for c in s.chars() {
        match c {
            '"' => res.push_str("\\\""),
            '\\' => res.push_str("\\\\"),
            c if c.is_ascii_graphic() || c == ' ' => res.push(c),
            c => res.push_str(&format!("\\U{:08X}", c as u32)),
        }
    }
    res.push('"');
    res
}

impl Daemon {
    /// Starts a daemon on a fresh (or, with `keep`, the existing) directory.
    pub fn start(
        dir: &Path, opts: &DaemonOpts, keep: bool
    ) -> Result<Self, String> {
        let mut last = String::new();
        for _ in 0..5 {
            match Self::start_once(dir, opts, keep) {
                Ok(res) => return Ok(res),
                Err(err) => {
                    if !err.contains("TCP socket") {
                        return Err(err)
                    }
                    last = err;
                }
            }
        }
        Err(last)
    }

    fn start_once(
        dir: &Path, opts: &DaemonOpts, keep: bool
    ) -> Result<Self, String> {
        if !keep {
            let _ = fs::remove_dir_all(dir);
        }
        for sub in ["data", "ssl", "repo"] {
            fs::create_dir_all(dir.join(sub)).map_err(|e| e.to_string())?;
        }
        let port = free_port();
        let sock = dir.join("krill.sock");

        // password hashes in parallel (two scrypt runs each)
        let hashes: Vec<(String, String)> = std::thread::scope(|s| {
            let handles: Vec<_> = opts.users.iter().map(|u| {
                s.spawn(move || password_hash(&u.name, &u.password))
            }).collect();
            handles.into_iter().map(|h| h.join().unwrap()).collect()
        });

        let mut toml = format!(
            "storage_uri = \"{d}/data/\"\n\
             tls_keys_dir = \"{d}/ssl\"\n\
             repo_dir = \"{d}/repo\"\n\
             pid_file = \"{d}/krill.pid\"\n\
             ip = \"127.0.0.1\"\n\
             port = {port}\n\
             https_mode = \"generate\"\n\
             unix_socket_enabled = true\n\
             unix_socket = \"{sock}\"\n\
             unix_users = {{ {unix} }}\n\
             admin_token = {token}\n\
             auth_type = \"config-file\"\n\
             log_type = \"stderr\"\n\
             log_level = \"{loglevel}\"\n\
             service_uri = \"https://localhost:{port}/\"\n\
             bgp_riswhois_enabled = false\n\
             ca_refresh_seconds = 86400\n",
            d = dir.display(), sock = sock.display(),
            loglevel = std::env::var("VERIF_KRILL_LOG")
                .unwrap_or_else(|_| "off".into()),
            token = toml_str(&opts.admin_token),
            unix = opts.unix_users.iter().map(|(u, r)| {
                format!("{} = {}", toml_str(u), toml_str(r))
            }).collect::<Vec<_>>().join(", "),
        );
        if !opts.testbed {
            toml.push_str("ta_support_enabled = true\n\
                           ta_signer_enabled = true\n");
        }
        toml.push_str("\n[auth_users]\n");
        for (u, (hash, salt)) in opts.users.iter().zip(hashes.iter()) {
            // accounts whose configured hash no password can match: an
            // empty hash, a hash that is not hexadecimal ("locked")
            let hash = match u.password.as_str() {
                "#locked-empty" => "",
                "#locked-nonhex" => "!locked",
                _ => hash.as_str(),
            };
            toml.push_str(&format!(
                "{} = {{ password_hash = \"{hash}\", salt = \"{salt}\", \
                 role = {} }}\n",
                toml_str(&u.name), toml_str(&u.role)
            ));
        }
        toml.push_str("\n[auth_roles]\n");
        for (name, role) in &opts.roles {
            let def = role.toml().unwrap_or_else(|| {
                // placeholder, replaced below
                "{ permissions = [] }".into()
            });
            toml.push_str(&format!("{} = {def}\n", toml_str(name)));
        }
        if opts.testbed {
            toml.push_str(&format!(
                "\n[testbed]\n\
                 rrdp_base_uri = \"https://localhost:{port}/rrdp/\"\n\
                 rsync_jail = \"rsync://localhost/repo/\"\n\
                 ta_aia = \"rsync://localhost/ta/ta.cer\"\n\
                 ta_uri = \"https://localhost:{port}/ta/ta.cer\"\n"
            ));
        }
        let conf_path = dir.join("krill.conf");
        fs::write(&conf_path, &toml).map_err(|e| e.to_string())?;
        let mut config = Config::read_config(&conf_path).map_err(|e| {
            format!("config: {e}")
        })?;
        config.process().map_err(|e| format!("config: {e}"))?;

        // Roles the configuration file cannot express (separate sets for
        // "no CA", "any CA" and single CAs) are put in place directly.
        let mut map = RoleMap::new();
        for (name, role) in &opts.roles {
            match role.toml() {
                Some(_) => {
                    let parsed = config.auth_roles.get(name).ok_or_else(|| {
                        format!("role {name} lost in config")
                    })?;
                    if *parsed != role.to_role() {
                        return Err(format!(
                            "role {name}: the configuration file yields a \
                             different role than the specification's"
                        ))
                    }
                    map.add(name.clone(), parsed);
                }
                None => map.add(name.clone(), role.to_role()),
            }
        }
        config.auth_roles = Arc::new(map);
        if std::env::var_os("VERIF_KRILL_LOG").is_some() {
            let _ = config.init_logging();
        }

        let (running_tx, mut running_rx) = oneshot::channel();
        let (exit_tx, exit_rx) = oneshot::channel();
        let thread = std::thread::Builder::new()
            .name("krill-daemon".into())
            .spawn(move || {
                krill::daemon::start::start_krill_daemon(
                    config, Some(running_tx), Some(exit_rx)
                ).map_err(|e| e.to_string())
            }).map_err(|e| e.to_string())?;
        let t0 = Instant::now();
        loop {
            match running_rx.try_recv() {
                Ok(()) => break,
                Err(oneshot::error::TryRecvError::Empty) => {
                    if thread.is_finished() {
                        let res = thread.join();
                        return Err(format!("daemon did not start: {res:?}"))
                    }
                    if t0.elapsed() > Duration::from_secs(120) {
                        return Err("daemon start timed out".into())
                    }
                    std::thread::sleep(Duration::from_millis(20));
                }
                Err(oneshot::error::TryRecvError::Closed) => {
                    let res = thread.join();
                    return Err(format!("daemon did not start: {res:?}"))
                }
            }
        }
        Ok(Daemon {
            dir: dir.into(), port, sock,
            admin_token: opts.admin_token.clone(),
            exit: Some(exit_tx), thread: Some(thread),
        })
    }

    pub fn unix(&self) -> Client {
        Client::new(Target::Unix(self.sock.clone()))
    }

    pub fn tls(&self) -> Client {
        Client::new(Target::Tls(self.port))
    }

    pub fn stop(mut self) {
        self.stop_inner();
    }

    fn stop_inner(&mut self) {
        if let Some(exit) = self.exit.take() {
            let _ = exit.send(());
        }
        if let Some(thread) = self.thread.take() {
            let _ = thread.join();
        }
    }
}

impl Drop for Daemon {
    fn drop(&mut self) {
        self.stop_inner();
    }
}
