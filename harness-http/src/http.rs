//! `run-http`: executes TLC-generated authorisation / authentication cases
//! against the real daemon and records what it did.
//!
//! Input: one JSON object per line = one batch (one daemon instance):
//!   {"id":..,"kind":"c13","testbed":bool,"peer_mapped":bool,
//!    "peer_role":{..},"cases":[..]}
//!   {"id":..,"kind":"c20","peer_role":"reader"|"nologin"|"",
//!    "seed":..,"variants":..,"cfg":{..},"cases":[..]}
//! Output: one line per executed request (case + `obs`), judged by TLC.

use std::collections::{BTreeMap, BTreeSet, HashMap};
use std::path::Path;
use base64::Engine;
use base64::engine::general_purpose::{
    STANDARD as B64, STANDARD_NO_PAD, URL_SAFE, URL_SAFE_NO_PAD,
};
use serde_json::{json, Value};
use unicode_normalization::UnicodeNormalization;
use crate::client::{Client, Resp};
use crate::common::{self, str_arg, TraceOut};
use crate::daemon::*;

const ADMIN_TOKEN: &str = "Adm1n-T0ken-f0r-Verif";
const ROA_BODY: &str =
    r#"{"added":[{"asn":64496,"prefix":"10.0.0.0/24"}],"removed":[]}"#;

type Hdr = (&'static str, Vec<u8>);

fn bearer(token: &str) -> Hdr {
    ("Authorization", format!("Bearer {token}").into_bytes())
}

fn basic(user: &str, pw: &str) -> Hdr {
    (
        "Authorization",
        format!("Basic {}", B64.encode(format!("{user}:{pw}"))).into_bytes()
    )
}


//------------ Rng -----------------------------------------------------------

struct Rng(u64);

impl Rng {
    fn new(seed: u64) -> Self {
        Rng(seed.wrapping_mul(0x9E3779B97F4A7C15) ^ 0xD1B54A32D192ED03)
    }
    fn next(&mut self) -> u64 {
        let mut x = self.0;
        x ^= x >> 12;
        x ^= x << 25;
        x ^= x >> 27;
        self.0 = x;
        x.wrapping_mul(0x2545F4914F6CDD1D)
    }
    fn below(&mut self, n: usize) -> usize {
        (self.next() % (n.max(1) as u64)) as usize
    }
}


//------------ Inst ----------------------------------------------------------

/// A running daemon with the fixed state the cases expect.
struct Inst {
    daemon: Daemon,
    admin: Client,
    ux: Client,
    tl: Client,
    testbed: bool,
    base_cas: BTreeSet<String>,
    base_pubs: BTreeSet<String>,
    pub_reqs: HashMap<String, Value>,
    child_add_body: String,
    asset: String,
    digest: Value,
}

fn verdict_of(resp: &Resp) -> &'static str {
    match resp.status {
        401 | 403 => "refused",
        404 if resp.body.is_empty() => "absent",
        405 => "nomethod",
        _ => "served",
    }
}

impl Inst {
    fn start(dir: &Path, opts: &DaemonOpts) -> Result<Self, String> {
        Self::start_with(dir, opts, false)
    }

    /// With `keep`, starts on the existing data and leaves it as it is.
    fn start_with(
        dir: &Path, opts: &DaemonOpts, keep: bool
    ) -> Result<Self, String> {
        let daemon = Daemon::start(dir, opts, keep)?;
        let admin = daemon.unix();
        let ux = daemon.unix();
        let tl = daemon.tls();
        let asset = std::fs::read_dir("/repo/ui/assets").ok()
            .and_then(|mut d| d.next()).and_then(|e| e.ok())
            .map(|e| e.file_name().to_string_lossy().into_owned())
            .unwrap_or_else(|| "missing".into());
        let mut res = Inst {
            daemon, admin, ux, tl, testbed: opts.testbed,
            base_cas: Default::default(), base_pubs: Default::default(),
            pub_reqs: Default::default(), child_add_body: String::new(),
            asset, digest: Value::Null,
        };
        if keep {
            let (cas, pubs) = res.lists()?;
            res.base_cas = cas;
            res.base_pubs = pubs;
            res.digest = res.take_digest()?;
        }
        else {
            res.setup()?;
        }
        Ok(res)
    }

    fn adm(
        &mut self, method: &str, path: &str, body: Option<&str>
    ) -> Result<Resp, String> {
        self.admin.request(
            method, path, &[bearer(ADMIN_TOKEN)], body.map(|b| b.as_bytes())
        )
    }

    fn adm_ok(
        &mut self, method: &str, path: &str, body: Option<&str>
    ) -> Result<Resp, String> {
        let resp = self.adm(method, path, body)?;
        if resp.status / 100 != 2 {
            return Err(format!(
                "set-up request {method} {path} failed: {} {}",
                resp.status, resp.text()
            ))
        }
        Ok(resp)
    }

    fn setup(&mut self) -> Result<(), String> {
        if !self.testbed {
            let port = self.daemon.port;
            self.adm_ok("POST", "/api/v1/pubd/init", Some(&format!(
                "{{\"rrdp_base_uri\":\"https://localhost:{port}/rrdp/\",\
                 \"rsync_jail\":\"rsync://localhost/repo/\"}}"
            )))?;
        }
        self.ensure_cas()?;
        for (ca, publisher) in [("ca1", "pub1"), ("ca2", "pub2")] {
            let mut req = self.adm_ok(
                "GET",
                &format!("/api/v1/cas/{ca}/id/publisher_request.json"), None
            )?.json().ok_or("publisher request is not JSON")?;
            req["publisher_handle"] = json!(publisher);
            self.pub_reqs.insert(publisher.into(), req);
        }
        let body = self.pub_reqs["pub1"].to_string();
        self.adm_ok("POST", "/api/v1/pubd/publishers", Some(&body))?;
        let creq = self.adm_ok(
            "GET", "/api/v1/cas/ca2/id/child_request.json", None
        )?.json().ok_or("child request is not JSON")?;
        self.child_add_body = json!({
            "handle": "child2",
            "resources": {"asn": "AS65000", "ipv4": "10.0.0.0/24", "ipv6": ""},
            "id_cert": creq.get("id_cert").cloned().unwrap_or(Value::Null),
        }).to_string();
        let (cas, pubs) = self.lists()?;
        self.base_cas = cas;
        self.base_pubs = pubs;
        self.digest = self.take_digest()?;
        Ok(())
    }

    fn lists(
        &mut self
    ) -> Result<(BTreeSet<String>, BTreeSet<String>), String> {
        let cas = self.adm_ok("GET", "/api/v1/cas", None)?.json()
            .and_then(|j| j.get("cas").and_then(|c| c.as_array().cloned()))
            .ok_or("bad CA list")?
            .iter().filter_map(|c| {
                c.get("handle").and_then(|h| h.as_str()).map(String::from)
            }).collect();
        let pubs = self.adm_ok("GET", "/api/v1/pubd/publishers", None)?
            .json().and_then(|j| {
                j.get("publishers").and_then(|c| c.as_array().cloned())
            }).ok_or("bad publisher list")?
            .iter().filter_map(|c| {
                c.get("handle").and_then(|h| h.as_str()).map(String::from)
            }).collect();
        Ok((cas, pubs))
    }

    /// The externally visible state that a refused request must not change:
    /// CAs, publishers, and per CA the number of commands in its history.
    fn take_digest(&mut self) -> Result<Value, String> {
        let (cas, pubs) = self.lists()?;
        let mut hist = BTreeMap::new();
        for ca in &cas {
            // the TA and the testbed CA have a life of their own
            // (background re-publication); their presence is still checked
            if ca == "ta" || ca == "testbed" {
                continue
            }
            let h = self.adm_ok(
                "GET", &format!("/api/v1/cas/{ca}/history/commands/1/0"), None
            )?.json().ok_or("bad history")?;
            let info = self.ca_info(ca)?.unwrap_or(Value::Null);
            hist.insert(ca.clone(), json!({
                "commands": h.get("total").cloned().unwrap_or(Value::Null),
                "children": Self::handles(&info, "children"),
                "parents": Self::handles(&info, "parents"),
            }));
        }
        Ok(json!({"cas": cas, "publishers": pubs, "history": hist}))
    }

    /// Last actor recorded in the history of `ca`.
    fn last_actor(&mut self, ca: &str) -> Result<(u64, String), String> {
        let h = self.adm_ok(
            "GET", &format!("/api/v1/cas/{ca}/history/commands/1/0"), None
        )?.json().ok_or("bad history")?;
        let total = h.get("total").and_then(|t| t.as_u64()).unwrap_or(0);
        if total == 0 {
            return Ok((0, String::new()))
        }
        let h = self.adm_ok(
            "GET",
            &format!("/api/v1/cas/{ca}/history/commands/1/{}", total - 1),
            None
        )?.json().ok_or("bad history")?;
        let actor = h.get("commands").and_then(|c| c.as_array())
            .and_then(|c| c.last())
            .and_then(|c| c.get("actor")).and_then(|a| a.as_str())
            .unwrap_or("").to_string();
        Ok((total, actor))
    }

    fn ca_info(&mut self, ca: &str) -> Result<Option<Value>, String> {
        let resp = self.adm("GET", &format!("/api/v1/cas/{ca}"), None)?;
        if resp.status == 200 {
            Ok(resp.json())
        }
        else {
            Ok(None)
        }
    }

    fn handles(info: &Value, key: &str) -> BTreeSet<String> {
        info.get(key).and_then(|c| c.as_array()).map(|a| {
            a.iter().filter_map(|x| {
                x.as_str().map(String::from).or_else(|| {
                    x.get("handle").and_then(|h| h.as_str())
                        .map(String::from)
                })
            }).collect()
        }).unwrap_or_default()
    }

    /// Makes sure that ca1 and ca2 exist, have a non-empty history and
    /// something to show under "issues".
    fn ensure_cas(&mut self) -> Result<(), String> {
        let pairs = [("ca1", "ca2"), ("ca2", "ca1")];
        for (ca, _) in pairs {
            if self.ca_info(ca)?.is_none() {
                self.adm_ok(
                    "POST", "/api/v1/cas",
                    Some(&format!("{{\"handle\":\"{ca}\"}}"))
                )?;
                // a (failing, but recorded) command so that the history
                // is not empty
                self.adm(
                    "POST", &format!("/api/v1/cas/{ca}/routes"),
                    Some(ROA_BODY)
                )?;
            }
        }
        // Give both CAs something to show under "issues": a repository
        // whose publication server has forgotten them.
        for (ca, _) in pairs {
            if self.has_issue(ca)? {
                continue
            }
            let mut req = self.adm_ok(
                "GET",
                &format!("/api/v1/cas/{ca}/id/publisher_request.json"), None
            )?.json().ok_or("publisher request is not JSON")?;
            let tmp = format!("tmp-{ca}");
            req["publisher_handle"] = json!(tmp);
            let mut resp = self.adm_ok(
                "POST", "/api/v1/pubd/publishers", Some(&req.to_string())
            )?.json().ok_or("repository response is not JSON")?;
            // Address the server by IP so that the CA really goes through
            // HTTP (krill short-cuts requests to its own service URI).
            if let Some(uri) = resp.get("service_uri")
                .and_then(|u| u.as_str()).map(String::from)
            {
                resp["service_uri"] = json!(
                    uri.replace("https://localhost:", "https://127.0.0.1:")
                );
            }
            self.adm_ok(
                "POST", &format!("/api/v1/cas/{ca}/repo"),
                Some(&json!({"repository_response": resp}).to_string())
            )?;
            self.adm_ok(
                "DELETE", &format!("/api/v1/pubd/publishers/{tmp}"), None
            )?;
            let mut seen = false;
            for round in 0..400 {
                if round % 40 == 0 {
                    self.adm(
                        "POST", &format!("/api/v1/cas/{ca}/sync/repo"), None
                    )?;
                }
                seen = self.has_issue(ca)?;
                if seen {
                    break
                }
                std::thread::sleep(std::time::Duration::from_millis(25));
            }
            if !seen {
                return Err(format!("no issue for {ca} showed up"))
            }
        }
        Ok(())
    }

    fn has_issue(&mut self, ca: &str) -> Result<bool, String> {
        let issues = self.adm_ok(
            "GET", &format!("/api/v1/cas/{ca}/issues"), None
        )?.json().unwrap_or(Value::Null);
        Ok(issues.get("repo_issue").map(|r| !r.is_null()).unwrap_or(false))
    }

    /// Puts CAs and publishers back to what the cases assume.
    fn ensure_baseline(&mut self) -> Result<(), String> {
        self.ensure_cas()?;
        let (cas, pubs) = self.lists()?;
        for ca in cas.difference(&self.base_cas.clone()) {
            self.adm_ok("DELETE", &format!("/api/v1/cas/{ca}"), None)?;
        }
        for p in self.base_pubs.clone().difference(&pubs) {
            if let Some(req) = self.pub_reqs.get(p) {
                let body = req.to_string();
                self.adm_ok("POST", "/api/v1/pubd/publishers", Some(&body))?;
            }
        }
        for p in pubs.difference(&self.base_pubs.clone()) {
            self.adm_ok(
                "DELETE", &format!("/api/v1/pubd/publishers/{p}"), None
            )?;
        }
        Ok(())
    }

    fn login(
        &mut self, user: &str, pw: &str
    ) -> Result<(Resp, Option<String>), String> {
        let resp = self.admin.request(
            "POST", "/auth/login", &[basic(user, pw)], None
        )?;
        let token = resp.json().and_then(|j| {
            j.get("token").and_then(|t| t.as_str().map(String::from))
        });
        Ok((resp, token))
    }

    fn path_of(&self, template: &str, ca: &str) -> String {
        template.replace("{ca}", ca)
            .replace("{child}", "child1")
            .replace("{parent}", "parent1")
            .replace("{publisher}", "pub1")
            .replace("{asn}", "AS65000")
            .replace("{asset}", &self.asset)
    }

    fn body_of(&self, route: &str, method: &str) -> Option<String> {
        let body = match route {
            "cas_create" => r#"{"handle":"newca"}"#.to_string(),
            "routes_update" | "routes_try" | "routes_dryrun" => {
                ROA_BODY.to_string()
            }
            "aspas_update" => {
                r#"{"add_or_replace":[{"customer":"AS65000","providers":["AS65001"]}],"remove":[]}"#.to_string()
            }
            "aspas_as_update" => {
                r#"{"added":["AS65001"],"removed":[]}"#.to_string()
            }
            "bgpsec_update" => r#"{"add":[],"remove":[]}"#.to_string(),
            "routes_sugg_post" => {
                r#"{"asn":"","ipv4":"10.0.0.0/8","ipv6":""}"#.to_string()
            }
            "child_add" => self.child_add_body.clone(),
            "child_update" => r#"{"suspend":true}"#.to_string(),
            "pubd_add" => self.pub_reqs["pub2"].to_string(),
            "pubd_init" => {
                r#"{"rrdp_base_uri":"https://localhost/rrdp/","rsync_jail":"rsync://localhost/repo/"}"#.to_string()
            }
            "pubd_delete" => {
                r#"{"base_uri":"rsync://localhost/repo/nonexistent/"}"#
                    .to_string()
            }
            "rfc8181" | "rfc6492" => "not a CMS message".to_string(),
            _ => {
                if method == "POST" {
                    // no body for the trigger-like routes
                    match route {
                        "id_update" | "roll_init" | "roll_activate"
                        | "sync_parents" | "sync_repo" | "pubd_reset"
                        | "ta_init" | "ta_signer_req_make"
                        | "bulk_sync_parent" | "bulk_sync_repo"
                        | "bulk_publish" | "bulk_force_publish"
                        | "bulk_suspend" | "logout" | "login" => {
                            return None
                        }
                        _ => "{}".to_string()
                    }
                }
                else {
                    return None
                }
            }
        };
        Some(body)
    }
}


//------------ C13 -----------------------------------------------------------

fn role_key(role: &RoleDef) -> String {
    role.to_json().to_string()
}

fn run_c13(
    batch: &Value, dir: &Path, out: &mut TraceOut
) -> Result<(), String> {
    let cases = batch.get("cases").and_then(|c| c.as_array())
        .ok_or("batch without cases")?;
    let testbed = batch.get("testbed").and_then(|t| t.as_bool())
        .unwrap_or(false);
    let peer_mapped = batch.get("peer_mapped").and_then(|t| t.as_bool())
        .unwrap_or(false);
    let me = current_user();

    // distinct roles of the batch -> role and user names
    let mut roles: Vec<(String, RoleDef)> = Vec::new();
    let mut names: HashMap<String, usize> = HashMap::new();
    for case in cases {
        if str_arg(case, "cred") != "role" {
            continue
        }
        let role = RoleDef::from_json(&case["role"]);
        let key = role_key(&role);
        if !names.contains_key(&key) {
            names.insert(key, roles.len());
            roles.push((format!("r{}", roles.len()), role));
        }
    }
    let mut opts = DaemonOpts {
        testbed, admin_token: ADMIN_TOKEN.into(), ..Default::default()
    };
    for (i, (name, role)) in roles.iter().enumerate() {
        if !role.none.iter().any(|p| p == "login") {
            return Err(format!(
                "role {name} cannot log in; such identities must come \
                 through the socket peer mapping"
            ))
        }
        opts.roles.push((name.clone(), role.clone()));
        opts.users.push(UserDef {
            name: format!("u{i}"), password: format!("pw-{i}"),
            role: name.clone()
        });
    }
    // the user for the login route itself
    opts.roles.push(("loginrole".into(), RoleDef {
        none: vec!["login".into()], any: vec!["login".into()],
        specific: vec![],
    }));
    opts.users.push(UserDef {
        name: "loginuser".into(), password: "login-pw".into(),
        role: "loginrole".into()
    });
    if peer_mapped {
        opts.roles.push(
            ("peerrole".into(), RoleDef::from_json(&batch["peer_role"]))
        );
        opts.unix_users.push((me.clone(), "peerrole".into()));
    }
    else {
        // a mapping for somebody else must not help us
        opts.unix_users.push(("nobody".into(), "loginrole".into()));
    }

    let mut inst = Inst::start(dir, &opts)?;

    // log every user in (in parallel: two scrypt runs per login)
    let tokens: Vec<String> = {
        let daemon = &inst.daemon;
        let n = opts.users.len() - 1;
        let res: Vec<Result<String, String>> = std::thread::scope(|s| {
            let chunks: Vec<_> = (0..n).collect::<Vec<_>>()
                .chunks(n.div_ceil(8).max(1)).map(|c| c.to_vec()).collect();
            let handles: Vec<_> = chunks.into_iter().map(|chunk| {
                s.spawn(move || {
                    let mut cl = daemon.unix();
                    chunk.into_iter().map(|i| {
                        let resp = cl.request(
                            "POST", "/auth/login",
                            &[basic(&format!("u{i}"), &format!("pw-{i}"))],
                            None
                        )?;
                        resp.json().and_then(|j| {
                            j.get("token").and_then(|t| {
                                t.as_str().map(String::from)
                            })
                        }).ok_or_else(|| format!(
                            "login of u{i} failed: {} {}",
                            resp.status, resp.text()
                        ))
                    }).collect::<Vec<_>>()
                })
            }).collect();
            handles.into_iter().flat_map(|h| h.join().unwrap()).collect()
        });
        res.into_iter().collect::<Result<Vec<_>, _>>()?
    };

    let mut wrong_seen = 0usize;
    for case in cases {
        let route = str_arg(case, "route");
        let method = str_arg(case, "m");
        let ca = str_arg(case, "ca");
        let cred = str_arg(case, "cred");
        let transport = str_arg(case, "transport");
        let path = inst.path_of(str_arg(case, "path"), ca);
        let body = inst.body_of(route, method);
        let mut headers: Vec<Hdr> = Vec::new();
        let mut user = String::new();
        if route == "login" || route == "callback" {
            // the credentials of the login route are the Basic pair
            headers.push(basic("loginuser", "login-pw"));
        }
        else {
            match cred {
                "admin" => headers.push(bearer(ADMIN_TOKEN)),
                "wrong" => {
                    // a token that is not the administrator's: unrelated,
                    // a proper prefix of it, it with something appended,
                    // it with its last character changed (in turn)
                    wrong_seen += 1;
                    let t = match wrong_seen % 4 {
                        0 => "bm90LWEtdG9rZW4tYXQtYWxs".to_string(),
                        1 => ADMIN_TOKEN[..ADMIN_TOKEN.len() - 2].to_string(),
                        2 => format!("{ADMIN_TOKEN}x"),
                        _ => format!(
                            "{}F", &ADMIN_TOKEN[..ADMIN_TOKEN.len() - 1]
                        ),
                    };
                    headers.push(bearer(&t))
                }
                "role" => {
                    let role = RoleDef::from_json(&case["role"]);
                    let idx = names[&role_key(&role)];
                    user = format!("u{idx}");
                    headers.push(bearer(&tokens[idx]));
                }
                _ => { }
            }
        }
        if body.is_some() {
            headers.push(("Content-Type", b"application/json".to_vec()));
        }
        let before = inst.digest.clone();
        let resp = {
            let client = if transport == "unix" { &mut inst.ux }
                         else { &mut inst.tl };
            client.request(
                method, &path, &headers, body.as_deref().map(|b| b.as_bytes())
            )?
        };
        let verdict = verdict_of(&resp);
        let mut shown = json!([]);
        if str_arg(case, "kind") == "listing" && resp.status == 200 {
            let j = resp.json().unwrap_or(Value::Null);
            let list: Vec<String> = if route == "cas_list" {
                j.get("cas").and_then(|c| c.as_array()).map(|a| {
                    a.iter().filter_map(|c| {
                        c.get("handle").and_then(|h| h.as_str())
                            .map(String::from)
                    }).collect()
                }).unwrap_or_default()
            }
            else {
                // bulk issues: {"cas": {"<ca>": issues}} or {"<ca>": ..}
                let obj = j.get("cas").cloned().unwrap_or(j.clone());
                obj.as_object().map(|o| o.keys().cloned().collect())
                    .unwrap_or_default()
            };
            shown = json!(list);
        }
        let after = inst.take_digest()?;
        let effect = after != before;
        if after != before {
            inst.ensure_baseline()?;
            inst.digest = inst.take_digest()?;
        }
        let label = resp.json().and_then(|j| {
            j.get("label").and_then(|l| l.as_str().map(String::from))
        }).unwrap_or_default();
        let mut line = case.clone();
        let obj = line.as_object_mut().unwrap();
        obj.insert("ev".into(), json!("c13"));
        obj.insert("batch".into(), batch["id"].clone());
        obj.insert("user".into(), json!(user));
        obj.insert("obs".into(), json!({
            "status": resp.status,
            "verdict": verdict,
            "label": label,
            "effect": effect,
            "shown": shown,
            "existing": before["cas"],
        }));
        if effect && verdict != "served" {
            obj.insert("before".into(), before);
            obj.insert("after".into(), after);
        }
        out.push(&line);
    }
    eprintln!(
        "batch {}: {} cases, {} roles, requests unix={} tls={} admin={}",
        batch["id"], cases.len(), roles.len(),
        inst.ux.requests, inst.tl.requests, inst.admin.requests
    );
    Ok(())
}


//------------ C20 -----------------------------------------------------------

/// Spec-level names use ASCII escapes for the characters that matter.
fn concrete(s: &str) -> String {
    s.replace("~fi~", "\u{FB01}").replace("~G~", "\u{FF27}")
        .replace("~i~", "\u{0131}")
}

fn abstract_name(s: &str) -> String {
    s.replace('\u{FB01}', "~fi~").replace('\u{FF27}', "~G~")
        .replace('\u{0131}', "~i~")
}

fn nfkc_trim(s: &str) -> String {
    s.trim().nfkc().collect()
}

struct Probe {
    id: &'static str,
    method: &'static str,
    path: &'static str,
    body: Option<&'static str>,
}

const PROBES: &[Probe] = &[
    Probe { id: "health", method: "GET", path: "/health", body: None },
    Probe {
        id: "authorized", method: "GET", path: "/api/v1/authorized",
        body: None
    },
    Probe {
        id: "ca_show", method: "GET", path: "/api/v1/cas/ca1", body: None
    },
    Probe {
        id: "ca_show_other", method: "GET", path: "/api/v1/cas/ca2",
        body: None
    },
    Probe {
        id: "routes_show", method: "GET", path: "/api/v1/cas/ca1/routes",
        body: None
    },
    Probe {
        id: "pubd_list", method: "GET", path: "/api/v1/pubd/publishers",
        body: None
    },
    Probe {
        id: "ta_id", method: "GET", path: "/api/v1/ta/proxy/id", body: None
    },
    Probe {
        id: "routes_update", method: "POST", path: "/api/v1/cas/ca1/routes",
        body: Some(ROA_BODY)
    },
];

/// Sends the probes under the given `Authorization` value.
///
/// Returns the verdict per probe and the audit actor of the command that
/// the state changing probe left in the history (if it was accepted).
fn fingerprint(
    inst: &mut Inst, transport: &str, auth: Option<&[u8]>, full: bool,
) -> Result<(Value, String, Vec<u16>), String> {
    let mut fp = serde_json::Map::new();
    let mut actor = String::new();
    let mut statuses = Vec::new();
    for probe in PROBES {
        if probe.method != "GET" && !full {
            continue
        }
        let mut headers: Vec<Hdr> = Vec::new();
        if let Some(auth) = auth {
            headers.push(("Authorization", auth.to_vec()));
        }
        let before = if probe.method != "GET" {
            inst.last_actor("ca1")?.0
        } else { 0 };
        let resp = {
            let client = if transport == "unix" { &mut inst.ux }
                         else { &mut inst.tl };
            client.request(
                probe.method, probe.path, &headers,
                probe.body.map(|b| b.as_bytes())
            )?
        };
        statuses.push(resp.status);
        let verdict = if resp.status == 400 && resp.body.is_empty() {
            // refused by the HTTP layer (illegal header bytes)
            "refused"
        } else {
            verdict_of(&resp)
        };
        fp.insert(probe.id.into(), json!(verdict));
        if probe.method != "GET" {
            let (total, last) = inst.last_actor("ca1")?;
            if total > before {
                actor = last;
            }
        }
    }
    Ok((Value::Object(fp), actor, statuses))
}

fn header_legal(bytes: &[u8]) -> bool {
    bytes.iter().all(|b| *b == b'\t' || (*b >= 0x20 && *b != 0x7f))
}

/// Damaged and forged variants of a valid token (exploration, seeded).
fn junk_family(
    kind: &str, valid: &str, rng: &mut Rng, n: usize, all: bool,
) -> Vec<(String, Vec<u8>)> {
    let mut res: Vec<(String, Vec<u8>)> = Vec::new();
    let b = valid.as_bytes();
    let mut push = |label: String, token: Vec<u8>| {
        if token != b && header_legal(&token) {
            let mut v = b"Bearer ".to_vec();
            v.extend_from_slice(&token);
            res.push((label, v));
        }
    };
    // truncations and extensions of the text
    let cuts: Vec<usize> = if all || b.len() <= n {
        (0..b.len()).collect()
    } else {
        let mut c: Vec<usize> = (0..n.saturating_sub(3))
            .map(|_| rng.below(b.len())).collect();
        c.extend([0, 1, b.len() - 1]);
        c
    };
    for cut in cuts {
        push(format!("{kind}:truncate:{cut}"), b[..cut].to_vec());
    }
    for extra in ["A", "=", "==", " x", "\tx", "AAAA"] {
        let mut t = b.to_vec();
        t.extend_from_slice(extra.as_bytes());
        push(format!("{kind}:append:{extra:?}"), t);
    }
    let mut t = b"x".to_vec();
    t.extend_from_slice(b);
    push(format!("{kind}:prepend"), t);
    let mut t = b.to_vec();
    t.extend_from_slice(b);
    push(format!("{kind}:doubled"), t);
    push(format!("{kind}:upper"), valid.to_uppercase().into_bytes());
    push(format!("{kind}:lower"), valid.to_lowercase().into_bytes());
    push(format!("{kind}:quoted"), format!("\"{valid}\"").into_bytes());
    if b.len() > 4 {
        let mid = b.len() / 2;
        let mut t = b[..mid].to_vec();
        t.push(b' ');
        t.extend_from_slice(&b[mid..]);
        push(format!("{kind}:inner-space"), t);
    }
    // every-character substitutions in the text
    let positions: Vec<usize> = if all { (0..b.len()).collect() } else {
        (0..n).map(|_| rng.below(b.len())).collect()
    };
    for pos in positions {
        let mut t = b.to_vec();
        let bit = 1u8 << rng.below(7);
        t[pos] ^= bit;
        push(format!("{kind}:textflip:{pos}:{bit}"), t);
    }
    // mutations below the base64 layer
    if let Ok(raw) = B64.decode(b) {
        let positions: Vec<(usize, u8)> = if all {
            (0..raw.len()).flat_map(|p| (0..8).map(move |k| (p, 1u8 << k)))
                .collect()
        } else {
            let mut v: Vec<(usize, u8)> = (0..raw.len()).map(|p| {
                (p, 1u8 << rng.below(8))
            }).collect();
            // keep the run short in the quick tier: every fourth byte
            // plus the whole nonce/tag prefix
            v.retain(|(p, _)| *p < 28 || p % 4 == (rng.0 % 4) as usize);
            v
        };
        for (pos, bit) in positions {
            let mut t = raw.clone();
            t[pos] ^= bit;
            push(
                format!("{kind}:bitflip:{pos}:{bit}"),
                B64.encode(&t).into_bytes()
            );
        }
        for cut in [1usize, 12, 27, 28, 29, raw.len().saturating_sub(1)] {
            if cut < raw.len() {
                push(
                    format!("{kind}:rawtruncate:{cut}"),
                    B64.encode(&raw[..cut]).into_bytes()
                );
                push(
                    format!("{kind}:rawdrophead:{cut}"),
                    B64.encode(&raw[cut..]).into_bytes()
                );
            }
        }
        let mut t = raw.clone();
        t.push(0);
        push(format!("{kind}:rawappend"), B64.encode(&t).into_bytes());
        if raw.len() > 28 {
            // swap nonce and tag
            let mut t = raw[12..28].to_vec();
            t.extend_from_slice(&raw[..12]);
            t.extend_from_slice(&raw[28..]);
            push(format!("{kind}:swap-nonce-tag"), B64.encode(&t).into_bytes());
            let mut t = raw.clone();
            for x in t[..12].iter_mut() { *x = 0; }
            push(format!("{kind}:zero-nonce"), B64.encode(&t).into_bytes());
            let mut t = raw.clone();
            for x in t[12..28].iter_mut() { *x = 0; }
            push(format!("{kind}:zero-tag"), B64.encode(&t).into_bytes());
        }
        // re-encodings of the same bytes
        push(
            format!("{kind}:b64-nopad"),
            STANDARD_NO_PAD.encode(&raw).into_bytes()
        );
        push(format!("{kind}:b64-url"), URL_SAFE.encode(&raw).into_bytes());
        push(
            format!("{kind}:b64-url-nopad"),
            URL_SAFE_NO_PAD.encode(&raw).into_bytes()
        );
        let std = B64.encode(&raw);
        let wrapped: String = std.as_bytes().chunks(16).map(|c| {
            String::from_utf8_lossy(c).into_owned()
        }).collect::<Vec<_>>().join(" ");
        push(format!("{kind}:b64-wrapped"), wrapped.into_bytes());
        push(format!("{kind}:b64-hex"), hex::encode(&raw).into_bytes());
        push(
            format!("{kind}:b64-double"),
            B64.encode(std.as_bytes()).into_bytes()
        );
        // non-canonical trailing bits
        if let Some(stripped) = std.strip_suffix('=') {
            let body = stripped.trim_end_matches('=');
            let pads = std.len() - body.len();
            let mut chars: Vec<u8> = body.as_bytes().to_vec();
            if let Some(last) = chars.last_mut() {
                const ALPHA: &[u8] = b"ABCDEFGHIJKLMNOPQRSTUVWXYZ\
                    abcdefghijklmnopqrstuvwxyz0123456789+/";
                if let Some(idx) = ALPHA.iter().position(|c| c == last) {
                    *last = ALPHA[idx ^ 1];
                }
            }
            let mut t = chars;
            t.extend(std::iter::repeat_n(b'=', pads));
            push(format!("{kind}:b64-trailing-bits"), t);
        }
    }
    // unrelated strings
    for len in [1usize, 8, 44, b.len().max(1)] {
        let raw: Vec<u8> = (0..len).map(|_| rng.next() as u8).collect();
        push(format!("{kind}:random-b64:{len}"), B64.encode(&raw).into_bytes());
        let txt: Vec<u8> = (0..len).map(|_| {
            b"abcdefghijklmnopqrstuvwxyz0123456789-_.~"[rng.below(40)]
        }).collect();
        push(format!("{kind}:random-text:{len}"), txt);
    }
    res
}

fn c20_opts(cfg: &Value, me: &str, peer_role: &str) -> DaemonOpts {
    let mut opts = DaemonOpts {
        testbed: false, admin_token: ADMIN_TOKEN.into(), ..Default::default()
    };
    if let Some(roles) = cfg.get("roles").and_then(|r| r.as_object()) {
        for (name, role) in roles {
            opts.roles.push((name.clone(), RoleDef::from_json(role)));
        }
    }
    if let Some(users) = cfg.get("users").and_then(|r| r.as_object()) {
        for (name, user) in users {
            opts.users.push(UserDef {
                name: concrete(name),
                password: str_arg(user, "pw").into(),
                role: str_arg(user, "role").into(),
            });
        }
    }
    if !peer_role.is_empty() {
        opts.unix_users.push((me.into(), peer_role.into()));
    }
    else {
        opts.unix_users.push(("nobody".into(), "reader".into()));
    }
    opts
}

fn run_c20(
    batch: &Value, dir: &Path, out: &mut TraceOut
) -> Result<(), String> {
    let cases = batch.get("cases").and_then(|c| c.as_array())
        .ok_or("batch without cases")?;
    let cfg = &batch["cfg"];
    let peer_role = str_arg(batch, "peer_role");
    let seed = batch.get("seed").and_then(|s| s.as_u64()).unwrap_or(1);
    let variants = batch.get("variants").and_then(|s| s.as_u64())
        .unwrap_or(20) as usize;
    let all = batch.get("all").and_then(|s| s.as_bool()).unwrap_or(false);
    let me = current_user();
    let mut rng = Rng::new(seed);

    let opts = c20_opts(cfg, &me, peer_role);
    let mut stale_tokens: HashMap<String, String> = HashMap::new();
    let mut inst = if let Some(removed) = batch.get("removed")
        .and_then(|r| r.as_object())
    {
        // Run with the removed roles still present, log the users in,
        // then restart on the same data with the batch's configuration,
        // one user dropped and one user given another role.
        let mut before = opts.clone();
        for (name, role) in removed {
            before.roles.push((name.clone(), RoleDef::from_json(role)));
        }
        let mut first = Inst::start(&dir.join("this"), &before)?;
        for (user, pw) in [
            ("bob", "pw-bob"), ("alice", "pw-alice"), ("carol", "pw-carol")
        ] {
            let (resp, token) = first.login(user, pw)?;
            stale_tokens.insert(user.into(), token.ok_or_else(|| format!(
                "set-up login of {user} failed: {} {}",
                resp.status, resp.text()
            ))?);
        }
        drop(first);
        let mut after = opts.clone();
        after.users.retain(|u| u.name != "alice");
        for u in after.users.iter_mut() {
            if u.name == "carol" {
                u.role = "reader".into();
            }
        }
        Inst::start_with(&dir.join("this"), &after, true)?
    }
    else {
        Inst::start(&dir.join("this"), &opts)?
    };
    // a second instance with the same configuration but its own key
    let need_other = cases.iter().any(|c| {
        str_arg(&c["bearer"], "issuer") == "other"
    });
    let mut other = if need_other {
        Some(Inst::start(&dir.join("other"), &opts)?)
    } else { None };

    let users = cfg.get("users").and_then(|u| u.as_object())
        .ok_or("cfg without users")?.clone();
    let emit = |case: &Value, variant: &str, extra: Value,
                    out: &mut TraceOut| {
        let mut line = case.clone();
        let obj = line.as_object_mut().unwrap();
        obj.insert("cfg".into(), cfg.clone());
        if let Some(removed) = batch.get("removed") {
            obj.insert("removed".into(), removed.clone());
        }
        obj.insert("ev".into(), json!("c20"));
        obj.insert("batch".into(), batch["id"].clone());
        obj.insert("variant".into(), json!(variant));
        obj.insert("obs".into(), extra);
        out.push(&line);
    };

    for case in cases {
        let transport = str_arg(case, "transport");
        match str_arg(case, "table") {
            "chain" => {
                let b = &case["bearer"];
                let kind = str_arg(b, "kind");
                let mut concretes: Vec<(String, Option<Vec<u8>>, bool)>
                    = Vec::new();
                match kind {
                    "none" => {
                        concretes.push(("no-header".into(), None, true));
                        concretes.push((
                            "basic-credentials".into(),
                            Some(basic("alice", "pw-alice").1), false
                        ));
                        concretes.push((
                            "lowercase-scheme".into(),
                            Some(format!("bearer {ADMIN_TOKEN}").into_bytes()),
                            false
                        ));
                        concretes.push((
                            "other-scheme".into(),
                            Some(format!("Token {ADMIN_TOKEN}").into_bytes()),
                            false
                        ));
                        concretes.push((
                            "scheme-only".into(), Some(b"Bearer".to_vec()),
                            false
                        ));
                        concretes.push((
                            "no-space".into(),
                            Some(format!("Bearer{ADMIN_TOKEN}").into_bytes()),
                            false
                        ));
                    }
                    "admin" => {
                        concretes.push((
                            "exact".into(), Some(bearer(ADMIN_TOKEN).1), true
                        ));
                        concretes.push((
                            "surrounding-space".into(),
                            Some(format!("Bearer   {ADMIN_TOKEN}  ")
                                .into_bytes()),
                            false
                        ));
                    }
                    "session" => {
                        let user = concrete(str_arg(b, "user"));
                        let pw = str_arg(&users[str_arg(b, "user")], "pw");
                        let src = if str_arg(b, "issuer") == "other" {
                            other.as_mut().unwrap()
                        } else { &mut inst };
                        for round in 0..2 {
                            let (resp, token) = src.login(&user, pw)?;
                            let token = token.ok_or_else(|| format!(
                                "set-up login of {user} failed: {} {}",
                                resp.status, resp.text()
                            ))?;
                            concretes.push((
                                format!("login-{round}"),
                                Some(bearer(&token).1), round == 0
                            ));
                        }
                    }
                    _ => {
                        // junk: families derived from the admin token and
                        // from valid session tokens (exploration)
                        let (_, alice) = inst.login("alice", "pw-alice")?;
                        let alice = alice.ok_or("login of alice failed")?;
                        for (label, value) in junk_family(
                            "admin", ADMIN_TOKEN, &mut rng, variants, all
                        ) {
                            concretes.push((label, Some(value), false));
                        }
                        for (label, value) in junk_family(
                            "session", &alice, &mut rng, variants, all
                        ) {
                            concretes.push((label, Some(value), false));
                        }
                    }
                }
                for (label, auth, full) in concretes {
                    let (fp, actor, statuses) = fingerprint(
                        &mut inst, transport, auth.as_deref(), full
                    )?;
                    emit(case, &label, json!({
                        "fp": fp, "actor": actor, "statuses": statuses,
                        "auth": auth.as_ref().map(|a| {
                            String::from_utf8_lossy(a).into_owned()
                        }),
                    }), out);
                }
            }
            "stale" => {
                let user = str_arg(&case["bearer"], "user");
                let token = stale_tokens.get(user)
                    .ok_or("stale case without a token")?.clone();
                let (fp, actor, statuses) = fingerprint(
                    &mut inst, transport, Some(&bearer(&token).1), true
                )?;
                emit(case, "role-removed", json!({
                    "fp": fp, "actor": actor, "statuses": statuses,
                    "auth": "",
                }), out);
                // not judged (the property is silent on it): sessions of a
                // user that was removed / whose role was changed
                for (who, what) in [
                    ("alice", "user-removed"), ("carol", "role-changed")
                ] {
                    let token = stale_tokens[who].clone();
                    let (fp, actor, _) = fingerprint(
                        &mut inst, transport, Some(&bearer(&token).1), false
                    )?;
                    let mut line = json!({
                        "ev": "c20-observation", "what": what, "user": who,
                        "transport": transport, "fp": fp, "actor": actor,
                    });
                    line["batch"] = batch["id"].clone();
                    out.push(&line);
                }
            }
            "login" => {
                let name = str_arg(case, "name");
                let typed_name = concrete(name);
                let configured = users.get(name);
                let cfg_pw = configured.map(|u| str_arg(u, "pw"))
                    .unwrap_or("pw-unknown").to_string();
                // (an account whose configured hash matches no password:
                // whatever is typed is not "the" password)
                let cfg_pw = if cfg_pw.starts_with("#locked") {
                    "pw-locked".to_string()
                } else { cfg_pw };
                let typed_pw = match str_arg(case, "pw_class") {
                    "exact" => cfg_pw.clone(),
                    "padded" => format!("  {cfg_pw}\t "),
                    "nfkc" => {
                        // full-width form of the first letter
                        let mut chars = cfg_pw.chars();
                        let first = chars.next().unwrap_or('p');
                        let wide = char::from_u32(
                            first as u32 - 0x21 + 0xFF01
                        ).unwrap_or(first);
                        format!("{wide}{}", chars.as_str())
                    }
                    "wrong" => format!("{cfg_pw}x"),
                    "empty" => String::new(),
                    "case" => cfg_pw.to_uppercase(),
                    _ => {
                        // another user's password
                        if name == "alice" { "pw-bob".into() }
                        else { "pw-alice".into() }
                    }
                };
                let resp = {
                    let client = if transport == "unix" { &mut inst.ux }
                                 else { &mut inst.tl };
                    client.request(
                        "POST", "/auth/login",
                        &[basic(&typed_name, &typed_pw)], None
                    )?
                };
                let j = resp.json().unwrap_or(Value::Null);
                let token = j.get("token").and_then(|t| t.as_str())
                    .map(String::from);
                let ok = resp.status == 200 && token.is_some();
                let (fp, actor) = match &token {
                    Some(token) => {
                        let (fp, actor, _) = fingerprint(
                            &mut inst, transport, Some(&bearer(token).1), true
                        )?;
                        (fp, actor)
                    }
                    None => (json!({}), String::new())
                };
                emit(case, "login", json!({
                    "login": if ok { "ok" } else { "refused" },
                    "status": resp.status,
                    "id": abstract_name(
                        j.get("id").and_then(|i| i.as_str()).unwrap_or("")
                    ),
                    "role": j.get("attributes").and_then(|a| a.get("role"))
                        .cloned().unwrap_or(json!("")),
                    "typed_name": typed_name,
                    "typed_pw": typed_pw,
                    "pw_normal": nfkc_trim(&typed_pw),
                    "fp": fp, "actor": actor,
                }), out);
            }
            other => return Err(format!("unknown C20 table {other}")),
        }
    }
    eprintln!(
        "batch {}: {} cases, requests unix={} tls={} admin={}",
        batch["id"], cases.len(),
        inst.ux.requests, inst.tl.requests, inst.admin.requests
    );
    drop(other.take());
    Ok(())
}


//------------ run -----------------------------------------------------------

pub fn run(inp: &Path, out: &Path, work: &Path) -> i32 {
    let batches = common::read_ndjson(inp);
    let mut trace = TraceOut::create(out);
    let _ = std::fs::create_dir_all(work);
    for (i, batch) in batches.iter().enumerate() {
        let id = batch.get("id").and_then(|i| i.as_u64()).unwrap_or(0);
        common::refill_keys((id as usize * 37) % 1400);
        let dir = work.join(format!("b{i}"));
        let res = match str_arg(batch, "kind") {
            "c13" => run_c13(batch, &dir, &mut trace),
            "c20" => run_c20(batch, &dir, &mut trace),
            other => Err(format!("unknown batch kind {other}")),
        };
        if let Err(err) = res {
            eprintln!("batch {id}: {err}");
            trace.finish();
            return 2
        }
        let _ = std::fs::remove_dir_all(&dir);
    }
    trace.finish();
    0
}
