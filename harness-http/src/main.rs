//! kv-http: conformance harness for Authz.tla (C13, C20): drives the real
//! krill daemon, started in-process, over its Unix socket and over TLS.
#![allow(dead_code)]

#[path = "../../harness/src/common.rs"]
mod common;
mod client;
mod daemon;
mod http;

use std::path::PathBuf;

fn arg(args: &[String], name: &str) -> Option<String> {
    args.iter().position(|a| a == name).and_then(|i| args.get(i + 1)).cloned()
}

fn main() {
    common::install_panic_hook();
    let args: Vec<String> = std::env::args().collect();
    match args.get(1).map(|s| s.as_str()).unwrap_or("") {
        "run-http" => {
            let inp = PathBuf::from(arg(&args, "--in").expect("--in"));
            let out = PathBuf::from(arg(&args, "--out").expect("--out"));
            let work = PathBuf::from(arg(&args, "--work").expect("--work"));
            std::process::exit(http::run(&inp, &out, &work));
        }
        _ => {
            eprintln!("usage: kv-http run-http --in <batches.ndjson> --out <trace.ndjson> --work <dir>");
            std::process::exit(2);
        }
    }
}
