"""C16  Untrusted input never brings the daemon down.

Spec: spec/Malformed.tla (catalogue of endpoints x classes of malformed and
odd input x abstract state; Malformed(e, c, t, ch) = error reply and state
unchanged, always enabled; Accepted for classes that are not malformed by
construction; no action stops the process), MC_Malformed (exhaustive),
MC_Malformed_gen (TLC emits the vectors per distinguishable context),
MalformedTrace (TLC judges what the real endpoints did).
Harness: `kv-fuzz run` (harness-fuzz): every vector is concretised by seeded
instances (structured mutations of valid messages, raw random bytes) and fed
  * direct: inside catch_unwind to CaManager::rfc6492,
    RepositoryManager::rfc8181, serde decoding of the API request types
    followed by the manager call the dispatcher makes, the parsers of the
    stored notations, the announcement loader of the BGP analyser;
  * http: to the real HttpServer::process_request (authentication,
    dispatcher, thread pool) over a Unix socket, without the scheduler.
Recorded per vector and distinct outcome: kind of reply, whether the digest
of the configuration / of the published content changed.
Level: exploration (the byte space is sampled; endpoint x class x context is
enumerated completely).
"""
import base64
import collections
import concurrent.futures
import json
import os
import re
import shutil
import subprocess
import time

import vlib

PID = "C16"
LEVEL = "exploration"
CRATE = "harness-fuzz"

# instances per vector, by kind of endpoint (the signed-message endpoints
# need no credentials at all and get the most)
INSTANCES = {
    "quick": {"json": 6, "cms": 32, "path": 20, "text": 24},
    "thorough": {"json": 120, "cms": 500, "path": 300, "text": 400},
}
# at most this many instances of one vector in one world (accepted odd
# inputs accumulate state)
RANGE = 25
# vectors per behaviour (one world each)
CHUNK = 70
JOPTS = "-Xss512m -Xmx6g -Dtlc2.tool.queue.IStateQueue=StateDeque"

MISMATCH_RE = re.compile(r'^<<"MISMATCH", (\d+)>>\s*$', re.M)
SUMMARY_RE = re.compile(r'^<<"SUMMARY", (\d+), (\d+), (".*")>>\s*$', re.M)


# ---------------------------------------------------------------------------
# TLC: specification and vectors
# ---------------------------------------------------------------------------

def model_check(chk):
    if os.environ.get("VERIF_SKIP_MC"):
        # (mutation runs: the model does not depend on the code)
        return
    res = vlib.run_tlc("MC_Malformed", "MC_Malformed.cfg",
                       os.path.join(chk.out, "mc"), workers=8, timeout=600,
                       coverage=True)
    chk.add_tlc("MC_Malformed", res)
    if res.violated or res.errors or not res.ok():
        print(res.counterexample()[:3000])
        raise vlib.ToolError(
            "Malformed.tla violates its own properties "
            f"({res.violated}): the specification is inconsistent")
    vlib.log(f"MC_Malformed: {res.distinct} states, {res.generated} "
             f"transitions, properties hold")


def generate(chk):
    """Contexts with their vectors, from TLC."""
    ctxs = vlib.exhaustive_behaviours(
        "MC_Malformed_gen", "MC_Malformed_gen.cfg",
        os.path.join(chk.out, "gen"), timeout=600)
    if not ctxs:
        raise vlib.ToolError("the generator printed no context")
    total = sum(len(c["vectors"]) for c in ctxs)
    vlib.log(f"TLC generated {total} vectors in {len(ctxs)} contexts")
    return ctxs


def ctx_tag(ctx):
    return "".join(k[0] if ctx[k] else "-"
                   for k in ("repo", "ca", "child", "pub"))


def behaviours(ctxs, n, seed):
    """Groups the vectors into behaviours: one context, one channel, at
    most CHUNK vectors, at most RANGE instances of each."""
    behs = []
    for c in ctxs:
        for chan in ("direct", "http"):
            # the unmutated messages first: whether they are accepted
            # must not depend on what odd input was accepted before
            # one endpoint per behaviour: what one endpoint accepts (a new
            # identity for the child, say) must not change what the
            # others are tested against; text endpoints share one
            groups = collections.OrderedDict()
            for v in sorted((v for v in c["vectors"] if v["chan"] == chan),
                            key=lambda v: (v["e"], v["c"], v["t"])):
                key = "text" if v["kind"] == "text" and v["e"] != "text_ris" \
                    else v["e"]
                groups.setdefault(key, []).append(v)
            for vecs in groups.values():
                # the unmutated messages first: whether they are accepted
                # must not depend on what odd input was accepted before
                vecs.sort(key=lambda v: (v["c"] not in ("valid", "xml_valid"),
                                         v["e"], v["c"], v["t"]))
                for i in range(0, len(vecs), CHUNK):
                    part = vecs[i:i + CHUNK]
                    nk = n[part[0]["kind"]]
                    for first in range(0, nk, RANGE):
                        count = min(RANGE, nk - first)
                        behs.append({
                            "ctx": c["ctx"], "chan": chan, "seed": seed,
                            "n": count,
                            "vectors": [dict(v, inst=first, n=count)
                                        for v in part],
                        })
    # heavy ones first, then dealt out round robin
    behs.sort(key=lambda b: -len(b["vectors"]) * b["n"]
              * (3 if b["chan"] == "http" else 1))
    for i, b in enumerate(behs):
        b["id"] = i
    return behs


# ---------------------------------------------------------------------------
# harness
# ---------------------------------------------------------------------------

def run_shards(chk, behs, tag, timeout):
    """Runs the harness over the behaviours, one process per core. A
    process that dies (abort, stack overflow: what catch_unwind cannot
    turn into data) is a finding; the input it died of is in the
    `.current` file, and the rest of its work is run again without it.

    Returns (events, stats, deaths)."""
    work = os.path.join(chk.out, "run_" + tag)
    os.makedirs(work, exist_ok=True)
    nshards = max(1, min(vlib.NCPU, len(behs)))
    shards = [behs[i::nshards] for i in range(nshards)]
    deadline = time.time() + timeout

    def one(args):
        idx, part = args
        events = []
        stats = collections.Counter()
        problems = []
        deaths = []
        attempt = 0
        while part:
            attempt += 1
            inp = os.path.join(work, f"beh_{idx}_{attempt}.ndjson")
            outp = os.path.join(work, f"trace_{idx}_{attempt}.ndjson")
            wdir = os.path.join(work, f"work_{idx}")
            logp = os.path.join(work, f"harness_{idx}_{attempt}.log")
            vlib.write_ndjson(inp, part)
            cmd = [os.environ.get("KV_FUZZ_BIN") or vlib.harness_bin(CRATE),
                   "run", "--in", inp, "--out",
                   outp, "--work", wdir]
            with open(logp, "w") as logf:
                try:
                    rc = subprocess.run(
                        cmd, stdout=logf, stderr=logf,
                        timeout=max(5, deadline - time.time())).returncode
                except subprocess.TimeoutExpired:
                    cur = outp + ".current"
                    where = open(cur).read()[:600] \
                        if os.path.exists(cur) else "?"
                    raise vlib.ToolError(
                        f"harness shard {idx} timed out; working on {where}")
            shutil.rmtree(wdir, ignore_errors=True)
            if os.path.exists(outp):
                with open(outp) as f:
                    for line in f:
                        try:
                            events.append(json.loads(line))
                        except ValueError:
                            # cut off by the death of the process; it is
                            # part of the unfinished behaviour (the trace
                            # is flushed after every behaviour)
                            if rc == 0:
                                raise
            if rc == 0:
                with open(outp + ".stats") as f:
                    st = json.load(f)
                stats.update(st["stats"])
                problems.extend(st["problems"])
                break
            cur = outp + ".current"
            if rc == 2 or not os.path.exists(cur) or attempt >= 60:
                with open(logp) as f:
                    print(f.read()[-3000:])
                raise vlib.ToolError(
                    f"harness shard {idx} exited with {rc}")
            # died while executing an input
            with open(cur) as f:
                died = json.load(f)
            with open(logp) as f:
                died["log"] = f.read()[-6000:]
            died["rc"] = rc
            # a machine that is out of memory is not a finding: only a
            # request for an absurd amount (a size the client chose) is
            m = re.search(r"memory allocation of (\d+) bytes failed",
                          died["log"])
            if rc == -9 or (m and int(m.group(1)) < (1 << 32)):
                raise vlib.ToolError(
                    f"harness shard {idx} was killed or ran out of memory "
                    f"(exit status {rc}): "
                    f"{m.group(0) if m else 'killed'}")
            deaths.append(died)
            # carry on behind the behaviour it died in, and with that
            # behaviour minus the vector
            pos = next(i for i, b in enumerate(part)
                       if b["id"] == died["behaviour"])
            dv = died["vector"]
            rest = dict(part[pos])
            rest["vectors"] = [
                v for v in rest["vectors"]
                if (v["e"], v["c"], v["t"]) != (dv["e"], dv["c"], dv["t"])]
            # events of the unfinished behaviour are recorded again
            events = [e for e in events if e["behaviour"] != rest["id"]]
            part = [rest] + part[pos + 1:]
        return events, stats, problems, deaths

    events, stats, problems, deaths = [], collections.Counter(), [], []
    with concurrent.futures.ThreadPoolExecutor(nshards) as ex:
        for ev, st, pr, de in ex.map(one, enumerate(shards)):
            events.extend(ev)
            stats.update(st)
            problems.extend(pr)
            deaths.extend(de)
    if problems:
        for p in problems[:10]:
            print("  " + p)
        raise vlib.ToolError(
            f"{len(problems)} inputs could not be generated "
            f"(harness machinery)")
    return events, stats, deaths


# ---------------------------------------------------------------------------
# validation by TLC
# ---------------------------------------------------------------------------

SLIM = ("ev", "e", "c", "t", "chan", "out", "cfgchg", "pubchg", "n")


def slim(ev):
    if ev["ev"] == "reset":
        return {"ev": "reset", "ctx": ev["ctx"]}
    return {k: ev[k] for k in SLIM}


def judge(chk, events, tag, jobs=8):
    """TLC judges all lines; returns (indices of non-conforming events,
    counters)."""
    work = os.path.join(chk.out, "val_" + tag)
    os.makedirs(work, exist_ok=True)
    if not events:
        return [], collections.Counter(), 0
    # pairs (reset, req) must stay together
    pairs = [(events[i], events[i + 1]) for i in range(0, len(events), 2)]
    for a, b in pairs:
        if a["ev"] != "reset" or b["ev"] != "req":
            raise vlib.ToolError("trace is not a sequence of reset/req pairs")
    jobs = max(1, min(jobs, len(pairs) // 200 or 1))
    chunks = [list(range(i, len(pairs), jobs)) for i in range(jobs)]

    def one(k):
        idxs = chunks[k]
        path = os.path.join(work, f"trace_{k}.ndjson")
        with open(path, "w") as f:
            for i in idxs:
                f.write(json.dumps(slim(pairs[i][0])) + "\n")
                f.write(json.dumps(slim(pairs[i][1])) + "\n")
        res = vlib.run_tlc("MalformedTrace", "MalformedTrace.cfg",
                           os.path.join(work, f"tlc_{k}"), workers=1,
                           timeout=1800,
                           env_extra={"TRACE": path,
                                      "JAVA_TOOL_OPTIONS": JOPTS})
        if res.violated or res.errors or res.postcondition_failed \
                or not res.finished:
            print(res.out[-3000:])
            raise vlib.ToolError(f"trace validation failed on {path}")
        m = SUMMARY_RE.search(res.out)
        if not m:
            print(res.out[-3000:])
            raise vlib.ToolError(f"trace validation printed no summary")
        if int(m.group(1)) != 2 * len(idxs):
            raise vlib.ToolError("TLC did not judge every line")
        bad_lines = [int(x.group(1)) for x in MISMATCH_RE.finditer(res.out)]
        if len(bad_lines) != int(m.group(2)):
            raise vlib.ToolError("mismatch lines and summary disagree")
        counters = json.loads(json.loads(m.group(3)))
        # line 2j (1-based) is the req line of the j-th pair of the chunk
        bad = [idxs[line // 2 - 1] for line in bad_lines]
        return bad, counters, res

    bad, counters = [], collections.Counter()
    with concurrent.futures.ThreadPoolExecutor(jobs) as ex:
        for b, c, res in ex.map(one, range(len(chunks))):
            bad.extend(b)
            counters.update(c)
            chk.cov["trace_states"] = chk.cov.get("trace_states", 0) \
                + res.distinct
    return [pairs[i][1] for i in sorted(bad)], counters, len(pairs)


def signature(ev):
    out = ev["out"]
    if out in ("panic", "exit"):
        return f"{out}:{ev['e']}:{ev['loc']}"
    if out == "garbled":
        return f"garbled:{ev['e']}:{ev['c']}"
    if out == "error" and (ev["cfgchg"] or ev["pubchg"]):
        what = "+".join(w for w, f in (("cfg", ev["cfgchg"]),
                                       ("pub", ev["pubchg"])) if f)
        return f"error-changed:{ev['e']}:{what}"
    if out == "ok" and ev.get("strict"):
        return f"accepted-malformed:{ev['e']}:{ev['c']}"
    return f"nonconforming:{ev['e']}:{ev['c']}:{out}"


def describe(ev):
    inp = ev.get("input") or {}
    body = base64.b64decode(inp.get("body", "")) if inp else b""
    shown = body[:120].decode("latin-1")
    where = f"{inp.get('method', '')} {inp.get('path', '')[:160]}" \
        if ev["chan"] == "http" else f"ca={inp.get('ca')} sub={inp.get('sub')}"
    return (f"endpoint {ev['e']} ({ev['chan']}), class {ev['c']}, "
            f"addressed {ev['t']}, context {ctx_tag(ev['ctx'])}: "
            f"outcome {ev['out']}"
            + (f" at {ev['loc']}" if ev.get("loc") else "")
            + (f", changed {ev['changed']}" if ev.get("changed") else "")
            + f"; {ev['detail']}; input: {where} body[{len(body)}]="
            f"{shown!r}; mutation: {ev.get('note', '')}")


def replay_of(ev):
    """What is needed to run the case again: the exact input, and the
    recipe (signed messages expire, so they are regenerated as well)."""
    vec = {k: ev[k] for k in ("e", "c", "t", "chan", "kind", "strict")}
    return {"ctx": ev["ctx"], "chan": ev["chan"], "seed": ev["seed"],
            "vector": vec, "inst": ev["inst"], "input": ev.get("input")}


def report_all(chk, bad_events, deaths):
    by_sig = collections.OrderedDict()
    for ev in bad_events:
        by_sig.setdefault(signature(ev), []).append(ev)
    for sig, evs in by_sig.items():
        ev = evs[0]
        n = sum(e["n"] for e in evs)
        chk.report(sig, describe(ev) + f" [{n} inputs in {len(evs)} "
                   f"vector outcomes]", replay_of(ev))
    seen = set()
    for d in deaths:
        v = d["vector"]
        sig = f"abort:{v['e']}:{v['c']}"
        if sig in seen:
            continue
        seen.add(sig)
        vec = {k: v[k] for k in ("e", "c", "t", "chan", "kind", "strict")}
        why = [l for l in d.get("log", "").splitlines()
               if re.search(r"memory allocation|stack overflow|fatal runtime"
                            r"|panicked|SIGSEGV|abort", l)]
        inp = d.get("input") or {}
        n = sum(1 for x in deaths if x["vector"]["e"] == v["e"]
                and x["vector"]["c"] == v["c"])
        chk.report(sig, f"the process died (exit status {d['rc']}, not a "
                   f"panic that could be caught) while endpoint {v['e']} "
                   f"({v['chan']}) handled an input of class {v['c']}: "
                   f"{inp.get('method', '')} {inp.get('path', '')[:200]} "
                   f"-- {' | '.join(why)[:300]} [{n} deaths]",
                   {"ctx": d["ctx"], "chan": d["chan"], "seed": d["seed"],
                    "vector": vec, "inst": d["inst"], "input": d["input"]})


# ---------------------------------------------------------------------------
# anti-vacuity
# ---------------------------------------------------------------------------

def coverage_checks(chk, ctxs, events, counters, n, deaths):
    """Tool error if something the property depends on was not exercised."""
    want = set()
    for c in ctxs:
        for v in c["vectors"]:
            want.add((ctx_tag(c["ctx"]), v["e"], v["c"], v["t"], v["chan"]))
    # a vector the process died of is reported, not repeated
    for d in deaths:
        v = d["vector"]
        want.discard((ctx_tag(d["ctx"]), v["e"], v["c"], v["t"], v["chan"]))
    got = collections.Counter()
    valid_ok = collections.Counter()
    for ev in events:
        if ev["ev"] != "req":
            continue
        key = (ctx_tag(ev["ctx"]), ev["e"], ev["c"], ev["t"], ev["chan"])
        got[key] += ev["n"]
        if ev["c"] in ("valid", "xml_valid") and ev["out"] == "ok":
            valid_ok[(ev["e"], ev["chan"])] += ev["n"]
    missing = [k for k in want if got[k] == 0]
    if missing:
        raise vlib.ToolError(f"{len(missing)} vectors were not executed, "
                             f"e.g. {sorted(missing)[:3]}")
    kind_of = {(ctx_tag(c["ctx"]), v["e"], v["c"], v["t"], v["chan"]):
               v["kind"] for c in ctxs for v in c["vectors"]}
    short = [k for k in want if got[k] < n[kind_of[k]]]
    # (instances lost to a dying process are the only legitimate reason)
    if len(short) > 8:
        raise vlib.ToolError(f"{len(short)} vectors ran fewer instances "
                             f"than asked for, e.g. {sorted(short)[:3]}")
    # the mutations start from messages the endpoint accepts
    pairs = {(v["e"], v["chan"]) for c in ctxs for v in c["vectors"]}
    never = sorted(p for p in pairs if valid_ok[p] == 0)
    if never:
        raise vlib.ToolError(f"the unmutated message was never accepted "
                             f"by {never}: the seeds are not valid")
    for k in ("refused", "accepted", "strict_refused", "accepted_changed"):
        if counters.get(k, 0) == 0:
            raise vlib.ToolError(f"no conforming line of kind {k}")
    return len(want)


def self_test(chk, events):
    """Corrupted observations must be rejected by TLC."""
    sample = None
    for i in range(0, len(events) - 1, 2):
        ev = events[i + 1]
        if ev["out"] == "error" and not ev["cfgchg"] and not ev["pubchg"] \
                and not ev["strict"]:
            sample = (events[i], ev)
            break
    strict = None
    for i in range(0, len(events) - 1, 2):
        ev = events[i + 1]
        if ev["strict"] and ev["out"] == "error":
            strict = (events[i], ev)
            break
    if not sample or not strict:
        raise vlib.ToolError("self-test: no refused line to corrupt")
    cases = [
        ("panic", sample, dict(sample[1], out="panic")),
        ("exit", sample, dict(sample[1], out="exit")),
        ("error+cfg", sample, dict(sample[1], cfgchg=True)),
        ("error+pub", sample, dict(sample[1], pubchg=True)),
        ("garbled", sample, dict(sample[1], out="garbled")),
        ("strict ok", strict, dict(strict[1], out="ok")),
        ("unknown class", sample, dict(sample[1], c="no_such_class")),
    ]
    trace = []
    for _, (reset, _), ev in cases:
        trace += [reset, ev]
    # and the untouched ones must pass
    trace += [sample[0], sample[1], strict[0], strict[1]]
    bad, _, _ = judge(chk, trace, "selftest", jobs=1)
    if len(bad) != len(cases):
        raise vlib.ToolError(
            f"self-test: TLC rejected {len(bad)} of {len(cases)} corrupted "
            f"observations (and must accept the 2 genuine ones)")
    for (name, _, ev), b in zip(cases, bad):
        if b is not ev and slim(b) != slim(ev):
            raise vlib.ToolError(f"self-test: wrong line rejected ({name})")
    chk.cov["self_test"] = [name for name, _, _ in cases]


# ---------------------------------------------------------------------------
# run / replay
# ---------------------------------------------------------------------------

def run(tier, seed):
    chk = vlib.Check(PID, LEVEL, tier, seed)
    n = INSTANCES[tier]
    model_check(chk)
    ctxs = generate(chk)
    behs = behaviours(ctxs, n, seed)
    t0 = time.time()
    events, stats, deaths = run_shards(
        chk, behs, "main", timeout=1500 if tier == "quick" else 3000)
    t1 = time.time()
    vlib.log(f"harness: {sum(e['n'] for e in events if e['ev'] == 'req')} "
             f"inputs in "
             f"{len(behs)} behaviours, {stats.get('worlds', 0)} server "
             f"instances, {t1 - t0:.0f}s")
    bad, counters, lines = judge(chk, events, "main")
    vlib.log(f"TLC judged {lines} vector outcomes in {time.time() - t1:.0f}s:"
             f" {len(bad)} do not conform; exercised {dict(counters)}")
    nvec = coverage_checks(chk, ctxs, events, counters, n, deaths)
    self_test(chk, events)
    report_all(chk, bad, deaths)

    reqs = [e for e in events if e["ev"] == "req"]
    per_out = collections.Counter()
    per_kind = collections.Counter()
    for e in reqs:
        per_out[e["out"]] += e["n"]
        per_kind[e["kind"] + ":" + e["chan"]] += e["n"]
        chk.count_case([ctx_tag(e["ctx"]), e["e"], e["c"], e["t"], e["chan"]])
    for e in reqs[:2]:
        chk.sample({k: e[k] for k in ("ctx", "e", "c", "t", "chan", "out",
                                      "cfgchg", "pubchg", "n", "detail",
                                      "note")})
    # inputs whose outcome was recorded and judged (what a process that
    # died had done in its unfinished behaviour is executed again)
    chk.cov["evaluations"] = sum(e["n"] for e in reqs)
    chk.cov["traces_validated_against_impl"] = lines
    chk.cov["vectors"] = nvec
    chk.cov["instances_per_vector"] = n
    chk.cov["endpoints"] = len({v["e"] for c in ctxs for v in c["vectors"]})
    chk.cov["classes"] = len({(v["kind"], v["c"])
                              for c in ctxs for v in c["vectors"]})
    chk.cov["contexts"] = len(ctxs)
    chk.cov["inputs_by_outcome"] = dict(per_out)
    chk.cov["inputs_by_kind_and_channel"] = dict(per_kind)
    chk.cov["conforming_lines_by_kind"] = dict(counters)
    chk.cov["server_instances"] = int(stats.get("worlds", 0))
    chk.cov["exhaustive"] = False
    chk.cov["rule"] = (
        "vectors = every (context, endpoint, class, addressed entity, "
        "channel) of Malformed.tla, enumerated completely by TLC "
        f"({nvec}); every vector is concretised by seeded instances "
        f"({n} per vector, by kind of endpoint) "
        "(structured mutation of a valid message of the endpoint, or raw "
        "random bytes): evaluations = inputs executed on the real code = "
        "vectors x instances - the byte space is sampled, not covered; "
        "per vector the distinct observed outcomes (reply kind, digest "
        "changes, panic location) are judged by TLC against "
        "MalformedTrace (traces_validated = judged outcome lines); "
        "distinct_nontrivial = distinct vectors exercised")
    chk.assumptions = [
        "harness profile: overflow-checks=false, debug-assertions=false "
        "(release arithmetic), panic=unwind so that a panic is data; a "
        "process death that is not a panic (abort, stack overflow) is "
        "detected by the exit status of the harness process",
        "std::process::exit in library code is observed through "
        "krill::verif::about_to_exit (panic with a marker)",
        "http channel: HttpServer::process_request with the real "
        "authoriser, dispatcher and thread pool on a Unix socket served by "
        "hyper as in daemon/start.rs, but without the scheduler thread "
        "(background tasks would change the digests); hyper's own request "
        "parsing sits in front, a connection closed by it without a panic "
        "counts as an error reply",
        "configuration digest = every CertAuth without its version counter "
        "(refused commands are recorded in the audit log), the TA proxy, "
        "the list of CAs, the publishers with identity and base URI; "
        "published content digest = files (URI, hash) per publisher, RRDP "
        "session and serial, names and sizes of the files in repo_dir; in "
        "the http channel the same notions are read through the API; "
        "child/parent/repository status records are not configuration",
        "error reply = Err of the manager call / HTTP status >= 400 / a "
        "signed RFC 6492 error_response or RFC 8181 report_error",
        "bulk import is exercised completely only through the http "
        "channel (cas_import is private); the direct channel covers "
        "decoding and validate_ca_hierarchy",
    ]
    # the inputs of every non-conforming outcome are in the replay files
    for sub in ("run_main", "val_main", "val_selftest"):
        shutil.rmtree(os.path.join(chk.out, sub), ignore_errors=True)
    return chk.finish()


def replay(path, seed):
    with open(path) as f:
        data = json.load(f)
    rp = data["replay"]
    chk = vlib.Check(PID, LEVEL, "replay", data.get("seed", seed))
    # the evidence file describes the last run of a tier, not a replay
    vlib.EVIDENCE = os.path.join(chk.out, "evidence")
    vec = dict(rp["vector"])
    vectors = []
    if rp.get("input"):
        vectors.append(dict(vec, input=rp["input"], inst=rp["inst"]))
    # the recipe: same seed, same instance number (fresh signatures);
    # hand-written replays have no recipe
    if rp.get("inst") is not None:
        vectors.append(dict(vec, inst=rp["inst"], n=1))
    else:
        vectors[0]["inst"] = 0
    behs = [{"id": i, "ctx": rp["ctx"], "chan": rp["chan"],
             "seed": rp["seed"], "n": 1, "vectors": [v]}
            for i, v in enumerate(vectors)]
    events, stats, deaths = run_shards(chk, behs, "replay", timeout=600)
    bad, counters, lines = judge(chk, events, "replay", jobs=1)
    for e in events:
        if e["ev"] == "req":
            vlib.log(f"replayed: {e['e']}/{e['c']}/{e['t']} ({e['chan']}) "
                     f"-> {e['out']} cfgchg={e['cfgchg']} "
                     f"pubchg={e['pubchg']} {e['loc']} {e['detail'][:200]}")
            chk.count_case([e["e"], e["c"], e["t"], e["chan"], e["inst"]])
    chk.cov["evaluations"] = int(stats.get("inputs", 0))
    chk.cov["traces_validated_against_impl"] = lines
    chk.cov["rule"] = "replay of one saved input"
    report_all(chk, bad, deaths)
    return chk.finish()
