"""C03 -- decided with spec/Krill.tla + KrillTrace.tla (see krill_common.py)."""
from checks import krill_common as kc

PID = "C03"
LEVEL = "model_checking"
THEMES = "life,roll,multi,mix,foreign,deep".split(",")
NEEDED = "Settled".split(",")

RULE = (
    "behaviours = TLC simulation of MC_Krill_gen (themes " + ", ".join(THEMES)
    + "): API operations interleaved with single named background tasks and "
    "Settle points; each is executed on a real in-process Krill (TA proxy "
    "and signer, CAs, publication server, task queue); after every event "
    "the state projected onto the variables of Krill.tla, the serial-number "
    "level facts per key and a relying-party walk are recorded, and TLC "
    "validates the whole trace against KrillTrace.tla; distinct = distinct "
    "event sequences; non-trivial = reaches a settled state after at least "
    "two kinds of API operations")


def _a(a, **kw):
    d = {"a": a}
    d.update(kw)
    return d


# objects revoked under a key before it is rolled out: they must stay on the
# CRL the old key publishes between the activation of the new key and its
# own revocation (a removed route origin object; a re-issued child
# certificate), observed by running the repository synchronisation before
# the parent synchronisation that completes the roll
DIRECTED = [
    # a child that knows its class under another name rolls its key: the
    # old key's certificate must be revoked and withdrawn by the parent
    {"actions": [
        _a("AddCa", c="B", p="A", res=["p1", "p2"]),
        _a("ChildMap", c="B", p="A", in_parent="0", for_child="mapped"),
        _a("Settle"), _a("RoaAdd", c="B", r=["p1", "a1"]), _a("Settle"),
        _a("RollInit", c="B"), _a("Settle"), _a("RollActivate", c="B"),
        _a("Settle"), _a("Settle")]},
    {"actions": [
        _a("AddCa", c="B", p="A", res=["p1", "p2"]), _a("Settle"),
        _a("RoaAdd", c="B", r=["p1", "a1"]), _a("RoaAdd", c="B", r=["p2", "a1"]),
        _a("Settle"), _a("RoaDel", c="B", r=["p1", "a1"]), _a("Settle"),
        _a("RollInit", c="B"), _a("Settle"), _a("RollActivate", c="B"),
        _a("Step", task="sync_repo_B"), _a("Step", task="sync_repo_A"),
        _a("Settle")]},
    {"actions": [
        _a("AddCa", c="B", p="A", res=["p1", "p2"]), _a("Settle"),
        _a("AddCa", c="C", p="B", res=["p1", "p2"]), _a("Settle"),
        _a("ChildRes", c="C", p="B", res=["p1"]), _a("Settle"),
        _a("RollInit", c="B"), _a("Settle"), _a("RollActivate", c="B"),
        _a("Step", task="sync_repo_B"), _a("Step", task="sync_repo_A"),
        _a("Settle")]},
]


def run(tier, seed):
    return kc.run_property(
        PID, LEVEL, tier, seed, THEMES,
        quick_num=12 if len(THEMES) > 1 else 24, thorough_num=250,
        assumptions=kc.COMMON_ASSUMPTIONS, rule=RULE, needed_events=NEEDED,
        mc_cfgs=(['MC_Krill_q_roll.cfg', 'MC_Krill_q_life.cfg']
                 if tier == "quick" else
                 ['MC_Krill_q_roll.cfg', 'MC_Krill_q_life.cfg',
                  'MC_Krill_roll.cfg', 'MC_Krill_life.cfg',
                  'MC_Krill_q_deep.cfg']),
        directed=(DIRECTED + kc.MULTI_DIRECTED
                  + kc.clause("child-removed-suspended-deleted",
                              "roa-replaced", "shrink-to-nothing",
                              "foreign-limit-shrink",
                              "parent-removed-with-children",
                              "parent-removed-deep-roll-suspended",
                              "auto-suspend-inactive-children")
                  + kc.TA_DIRECTED[:1]),
        theme_nums={"multi": (6, 80), "mix": (6, 60), "foreign": (4, 60),
                    "deep": (6, 80), "autosus": (4, 60)})


def replay(path, seed):
    return kc.replay(PID, LEVEL, path, seed)
