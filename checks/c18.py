"""C18  Concurrent requests and background tasks never deadlock or lose work.

Three parts (DESIGN.md section 6 "C18"):

1. spec/Locks.tla: the lock programs of every operation kind, recorded from
   the real code running alone on both storage back-ends (kv-conc
   record-locks), are interleaved by TLC for 2..4 threads under the three
   lock semantics; invariant DeadlockFree.
2. kv-conc run-conc: seeded scenarios (worker threads + scheduler thread,
   delay injection) on the real code with a watchdog; a call that does not
   return is a violation only if the hook lock table shows a wait-for cycle.
3. spec/KrillConcTrace.tla: TLC searches, for every recorded scenario, a
   total order of the calls that respects real-time precedence and under
   which a sequential reference model gives exactly the recorded results and
   the state observed after quiescence; the published repository must be
   relying-party clean and equal to the publication server's content.
"""
import copy
import json
import os
import re
import shutil
import subprocess
import time

import vlib

PID = "C18"
LEVEL = "model_checking"
CRATE = "harness-conc"

UUID_RE = re.compile(
    r"[0-9a-f]{8}-[0-9a-f]{4}-[0-9a-f]{4}-[0-9a-f]{4}-[0-9a-f]{12}")


# --------------------------------------------------------------------------
# part 1: lock programs
# --------------------------------------------------------------------------

def record_locks(chk, memory):
    tag = "memory" if memory else "disk"
    out = os.path.join(chk.out, f"locks_{tag}.ndjson")
    work = os.path.join(chk.out, f"locks_work_{tag}")
    cmd = [vlib.harness_bin(CRATE), "record-locks", "--out", out,
           "--work", work] + (["--memory"] if memory else [])
    p = subprocess.run(cmd, stdout=subprocess.PIPE, stderr=subprocess.STDOUT,
                       text=True, timeout=600)
    shutil.rmtree(work, ignore_errors=True)
    if p.returncode != 0:
        print(p.stdout[-3000:])
        raise vlib.ToolError(f"record-locks ({tag}) exited with "
                             f"{p.returncode}")
    return vlib.read_ndjson(out)


def norm_step(st):
    return (st["a"], UUID_RE.sub("S", st["l"]), st["m"])


def split_segments(steps):
    """Cuts a lock program where the thread holds nothing."""
    segs, cur, held = [], [], 0
    for st in steps:
        cur.append(st)
        held += 1 if st[0] == "acq" else -1
        if held < 0:
            raise vlib.ToolError("lock program releases more than it holds")
        if held == 0:
            segs.append(tuple(cur))
            cur = []
    if cur:
        raise vlib.ToolError("lock program ends holding a lock")
    return segs


def blocks_of(steps):
    """Splits a balanced step list into its top-level items: either one
    balanced block (acq ... matching rel) as a tuple, never a lone step."""
    items, depth, start = [], 0, 0
    for i, st in enumerate(steps):
        depth += 1 if st[0] == "acq" else -1
        if depth == 0:
            items.append(tuple(steps[start:i + 1]))
            start = i + 1
    return items


def collapse(steps):
    """Removes immediately repeated balanced blocks, innermost first.

    [X X] behaves like [X] for deadlocks (see Locks.tla): X gives back every
    lock it takes, so the second pass can run right after the first."""
    out = []
    for block in blocks_of(list(steps)):
        inner = collapse(block[1:-1]) if len(block) > 2 else ()
        block = (block[0],) + tuple(inner) + (block[-1],)
        # a repetition of the last k blocks?
        out.append(block)
        changed = True
        while changed:
            changed = False
            for k in range(1, len(out) // 2 + 1):
                if out[-k:] == out[-2 * k:-k]:
                    del out[-k:]
                    changed = True
                    break
    return tuple(st for block in out for st in block)


STATUS_CACHE = "mutex:status_cache"
UPDATE_LOCK = "mutex:pubd_update"
RSYNC_LOCK = "mutex:rsync"


def annotate(seg):
    """Locks without a hook, added from reading the source (see the
    assumptions in the evidence): every access to the `status` namespace
    after start-up happens under the write lock of CaStatusStore.cache
    (src/server/ca/status.rs:322,383,450,476,509), except remove_ca."""
    if (len(seg) == 4 and seg[0] == ("acq", "status/", "r")
            and seg[1][1].startswith("status/")):
        return ((("acq", STATUS_CACHE, "w"),) + seg
                + (("rel", STATUS_CACHE, "w"),))
    return seg


STATIC_SEGMENTS = [
    # RepositoryContentProxy::write_repository_content (content.rs:236-251)
    # holds update_lock around RepositoryContent::write_repository, which
    # takes RsyncdStore.lock (rsync.rs:70-80); no storage access inside.
    ((("acq", UPDATE_LOCK, "w"), ("acq", RSYNC_LOCK, "w"),
      ("rel", RSYNC_LOCK, "w"), ("rel", UPDATE_LOCK, "w")),
     "static: write_repository_content"),
]


def lock_segments(programs):
    """programs: records of record-locks. Returns the list of distinct
    segments [{id, steps, ops}] and statistics."""
    segs = {}
    stats = {"programs": 0, "steps": 0, "raw_segments": 0, "max_depth": 0}
    for rec in programs:
        steps = [norm_step(s) for s in rec["steps"]]
        stats["programs"] += 1
        stats["steps"] += len(steps)
        op = re.sub(r"\s+", " ", rec["op"])
        kind = op.split(" ")[0] if not op.startswith("task") else \
            "task " + re.sub(r"_(A|B|C|X|ta)\b", "_*", op.split(" ")[1])
        for seg in split_segments(steps):
            stats["raw_segments"] += 1
            seg = annotate(collapse(seg))
            depth = cur = 0
            for st in seg:
                cur += 1 if st[0] == "acq" else -1
                depth = max(depth, cur)
            stats["max_depth"] = max(stats["max_depth"], depth)
            segs.setdefault(seg, set()).add(kind)
    for seg, name in STATIC_SEGMENTS:
        segs.setdefault(seg, set()).add(name)
    res = []
    for i, (seg, ops) in enumerate(sorted(segs.items())):
        res.append({
            "id": i + 1,
            "steps": [{"a": a, "l": l, "m": m} for a, l, m in seg],
            "ops": sorted(ops),
        })
    stats["segments"] = len(res)
    stats["segment_steps"] = sum(len(s["steps"]) for s in res)
    return res, stats


def fmt_segment(seg):
    return " ".join(("+" if s["a"] == "acq" else "-") + s["l"] + ":" + s["m"]
                    for s in seg["steps"])


def check_locks(chk, tier):
    disk = record_locks(chk, False)
    mem = record_locks(chk, True)
    seg_d, _ = lock_segments(disk)
    seg_m, _ = lock_segments(mem)
    only_d = {fmt_segment(s) for s in seg_d} - {fmt_segment(s) for s in seg_m}
    only_m = {fmt_segment(s) for s in seg_m} - {fmt_segment(s) for s in seg_d}
    segs, stats = lock_segments(disk + mem)
    stats["only_disk"] = sorted(only_d)
    stats["only_memory"] = sorted(only_m)
    chk.cov["lock_programs"] = stats
    kinds = sorted({o for s in segs for o in s["ops"]})
    chk.cov["lock_program_kinds"] = kinds
    # anti-vacuity: the operation kinds the property names must be there
    for need in ("roa_add", "child_upd", "ud_list", "publish", "del_files",
                 "session_reset", "task sync_repo_*",
                 "task sync_B_with_parent_*", "task update_rrdp_if_needed",
                 "task all_cas_republish_if_needed",
                 "task all_cas_renew_objects_if_needed",
                 "task update_stored_snapshots", "task sync_ta_proxy_signer"):
        if need not in kinds:
            raise vlib.ToolError(f"no lock program recorded for '{need}'")
    if stats["max_depth"] < 3:
        raise vlib.ToolError("lock programs show no nesting: hooks off?")
    seg_path = os.path.join(chk.out, "segments.ndjson")
    vlib.write_ndjson(seg_path, segs)
    # (the caches of the aggregate stores are innermost locks of their own:
    # the first round takes those away, the rounds after it what used to be
    # rounds one and two before the caches were hooked)
    reduced0 = leaf_reduce(segs)
    reduced1 = leaf_reduce(reduced0)
    reduced = leaf_reduce(reduced1)
    red0_path = os.path.join(chk.out, "segments_reduced0.ndjson")
    vlib.write_ndjson(red0_path, reduced0)
    red_path = os.path.join(chk.out, "segments_reduced.ndjson")
    vlib.write_ndjson(red_path, reduced)
    red1_path = os.path.join(chk.out, "segments_reduced1.ndjson")
    vlib.write_ndjson(red1_path, reduced1)
    chk.cov["lock_programs"]["reduced_segments"] = [len(reduced1),
                                                    len(reduced)]
    vlib.log(f"lock programs: {stats['programs']} programs, "
             f"{stats['steps']} steps -> {len(segs)} distinct segments "
             f"({stats['segment_steps']} steps); {len(reduced1)} / "
             f"{len(reduced)} segments after two / three rounds of leaf-lock "
             f"elimination")
    if not reduced:
        raise vlib.ToolError("nothing left after leaf-lock elimination")
    if tier == "quick":
        runs = [("flock", 2, seg_path), ("rwlock_wp", 2, seg_path),
                ("rwlock_np", 2, seg_path),
                ("flock", 3, red1_path), ("rwlock_wp", 3, red1_path),
                ("flock", 4, red_path), ("rwlock_wp", 4, red_path)]
    else:
        runs = [("flock", 2, seg_path), ("rwlock_wp", 2, seg_path),
                ("rwlock_np", 2, seg_path),
                # (3 threads: complete but for the store caches)
                ("flock", 3, red0_path), ("rwlock_wp", 3, red0_path),
                ("rwlock_wp", 3, red1_path),
                ("flock", 4, red_path), ("rwlock_wp", 4, red_path)]
    for sem, n, path in runs:
        cfg = f"Locks_{sem}_{n}.cfg"
        res = vlib.run_tlc("Locks", cfg, chk.out, workers=8, timeout=1500,
                           env_extra={"SEGMENTS": path}, heap="12g")
        name = f"{cfg}:{os.path.basename(path)}"
        chk.add_tlc(name, res)
        if res.violated == "DeadlockFree":
            # A model-level counterexample is not a finding by itself: it
            # is handed to the real code as a directed scenario.
            return segs, model_deadlock(chk, res, sem, n,
                                        vlib.read_ndjson(path))
        if res.violated or res.errors:
            print(res.counterexample()[:3000])
            raise vlib.ToolError(f"Locks/{cfg}: {res.violated or res.errors}")
        vlib.log(f"TLC {name}: {res.distinct} distinct states, no deadlock")
    locks_self_test(chk, segs)
    return segs, None


def leaf_reduce(segs):
    """One round of leaf-lock elimination: a lock that no program ever holds
    while acquiring another one cannot be held or waited for in a deadlock
    (all its holder does before releasing it is releasing), so its
    acquisitions can be dropped without losing any deadlock; by induction
    the same holds for every further round on the reduced programs. Used for the
    runs whose full state space is out of reach (4 threads; 3 threads in
    the quick tier)."""
    inner = set()       # locks held while something else is acquired
    for s in segs:
        held = []
        for st in s["steps"]:
            if st["a"] == "acq":
                inner.update(l for l, _ in held)
                held.append((st["l"], st["m"]))
            else:
                held.remove((st["l"], st["m"]))
    out = {}
    for s in segs:
        steps = tuple((st["a"], st["l"], st["m"]) for st in s["steps"]
                      if st["l"] in inner)
        if not steps:
            continue
        for piece in split_segments(steps):
            piece = collapse(piece)
            out.setdefault(piece, set()).update(s["ops"])
    return [{"id": i + 1,
             "steps": [{"a": a, "l": l, "m": m} for a, l, m in seg],
             "ops": sorted(ops)}
            for i, (seg, ops) in enumerate(sorted(out.items()))]


TASK_TRIGGERS = {
    "task all_cas_republish_if_needed": {"k": "bg", "task": "republish"},
    "task all_cas_renew_objects_if_needed": {"k": "bg", "task": "renew"},
    "task update_stored_snapshots": {"k": "bg", "task": "snapshots"},
    "task update_rrdp_if_needed": {"k": "bg", "task": "rrdp"},
    "task sync_ta_proxy_signer": {"k": "bg", "task": "ta"},
    "task sync_repo_*": {"k": "sync_all"},
}


def ops_for_kind(kind, seg, rng):
    """Concrete operations that run the lock segment `seg` recorded for the
    operation kind `kind` (paired so that each of them takes effect)."""
    locks = [st["l"] for st in seg["steps"]]
    ca = next((l.split("/")[1] for l in locks
               if l.startswith("cas/")
               and l.split("/")[1] in ("A", "B", "C", "Z")),
              "A")
    if kind in TASK_TRIGGERS:
        return [dict(TASK_TRIGGERS[kind])]
    if kind.startswith("task sync_"):
        return [{"k": "refresh_all"}]
    if kind in ("roa_add", "roa_del"):
        r = rng.choice([1, 2, 3])
        return [{"k": "roa_add", "ca": ca, "r": r},
                {"k": "roa_del", "ca": ca, "r": r}]
    if kind in ("ca_show", "history", "status") and ca == "Z":
        # (the CA that comes and goes in the other thread: reads and
        # commands while it is there)
        return [{"k": "ca_show", "ca": "Z"}, {"k": "ca_id", "ca": "Z"}]
    if kind in ("ca_show", "history", "status"):
        return [{"k": kind, "ca": ca}]
    if kind in ("roll_init", "roll_activate"):
        return [{"k": "roll_init", "ca": ca}, {"k": "roll_activate", "ca": ca}]
    if kind in ("child_add", "child_rm", "ud_list"):
        return [{"k": "child_add", "ca": "A", "child": "X", "ent": "s"},
                {"k": "ud_list", "ca": "A", "child": "X"},
                {"k": "child_rm", "ca": "A", "child": "X"}]
    if kind == "child_upd":
        return [{"k": kind, "ca": "A", "child": "B", "ent": "l"},
                {"k": kind, "ca": "A", "child": "B", "ent": "s"}]
    if kind in ("ca_add", "ca_id", "ca_del"):
        return [{"k": "ca_add", "ca": "Z"}, {"k": "ca_id", "ca": "Z"},
                {"k": "ca_id", "ca": "Z"}, {"k": "ca_del", "ca": "Z"}]
    if kind in ("pub_add", "pub_rm"):
        return [{"k": "pub_add", "p": "y"}, {"k": "pub_rm", "p": "y"}]
    if kind in ("pub_show", "del_files"):
        return [{"k": kind, "p": "x"}]
    if kind == "publish":
        return [{"k": kind, "p": "x", "elems": [
                    {"k": "P", "u": 1, "c": "a", "h": ""}]},
                {"k": kind, "p": "x", "elems": [
                    {"k": "W", "u": 1, "c": "", "h": "a"}]}]
    if kind in ("ca_list", "repo_stats", "session_reset", "refresh_all",
                "sync_all", "republish"):
        return [{"k": kind}]
    if kind == "bg":
        return [{"k": "bg", "task": "rrdp"}]
    return []


def model_deadlock(chk, res, sem, n, segs):
    """A deadlock of the lock programs found by TLC is not a finding yet:
    the operations whose segments are in the deadlocked state are run
    against each other on the real code. Returns True if a real deadlock
    (wait-for cycle under the watchdog) was reported."""
    text = res.counterexample()
    last = text.split("State ")[-1]
    m = re.search(r"seg = \((.*?)\)", last, re.S)
    ids = [int(x) for x in re.findall(r"t\d+ :> (\d+)", m.group(1))] \
        if m else []
    involved = [segs[i - 1] for i in ids if 0 < i <= len(segs)]
    vlib.log(f"Locks.tla ({sem}, {n} threads) reaches a deadlock between: "
             + " | ".join(f"{s['ops']}: {fmt_segment(s)}" for s in involved))
    if not involved:
        raise vlib.ToolError("cannot read TLC's deadlock counterexample")
    scenarios = []
    for i in range(24):
        threads = []
        for s in involved:
            kinds = [k for k in s["ops"] if not k.startswith("static")]
            ops = []
            while len(ops) < 24 and kinds:
                group = ops_for_kind(chk.rng.choice(kinds), s, chk.rng)
                if not group:
                    break
                for op in group:
                    op = dict(op)
                    # a task trigger needs time to be picked up
                    op["d"] = chk.rng.choice([3000, 10000, 30000]) \
                        if op["k"] in ("bg", "sync_all", "refresh_all") \
                        else chk.rng.choice([0, 0, 300, 2000])
                    ops.append(op)
            if ops:
                threads.append(ops)
        scenarios.append({
            "id": i + 1, "family": "model_deadlock",
            "memory": i % 2 == 1,
            "seed": chk.rng.randrange(1, 2 ** 31),
            "yield_us": [1000, 3000, 10000, 200][i % 4],
            "real_sched": False,
            "pre": [{"k": "pub_add", "p": "x"}],
            "threads": threads,
        })
    runs = run_scenarios(chk, scenarios, "model_deadlock", shards=8,
                         watchdog_ms=10000, timeout=900)
    found = False
    for r in runs:
        if r.get("deadlock"):
            judge_run(chk, r)
            found = True
    if not found:
        raise vlib.ToolError(
            "Locks.tla reports a reachable deadlock of the recorded lock "
            "programs (" + " | ".join(fmt_segment(s) for s in involved)
            + f") under {sem} with {n} threads, but 24 directed runs on the "
            "real code did not deadlock: not reported as a violation")
    return True


def locks_self_test(chk, segs):
    """Anti-vacuity for part 1: (a) a program that takes two recorded locks
    in the opposite order must give a deadlock; (b) reader re-entrance on a
    namespace root lock plus a root writer must deadlock under writer
    preference and only there."""
    def seg(i, *steps):
        return {"id": i, "ops": ["selftest"],
                "steps": [{"a": a, "l": l, "m": m} for a, l, m in steps]}
    inverted = seg(
        len(segs) + 1,
        ("acq", "ca_objects/", "w"), ("acq", "cas/", "r"),
        ("acq", "cas/A", "w"), ("rel", "cas/A", "w"), ("rel", "cas/", "r"),
        ("rel", "ca_objects/", "w"))
    path = os.path.join(chk.out, "segments_selftest_a.ndjson")
    vlib.write_ndjson(path, segs + [inverted])
    res = vlib.run_tlc("Locks", "Locks_flock_2.cfg", chk.out, workers=4,
                       timeout=600, env_extra={"SEGMENTS": path})
    if res.violated != "DeadlockFree":
        raise vlib.ToolError("self-test: a lock-order inversion was not "
                             "reported by Locks.tla")
    nested = seg(
        1, ("acq", "cas/", "r"), ("acq", "cas/B", "w"), ("acq", "cas/", "r"),
        ("acq", "cas/A", "w"), ("rel", "cas/A", "w"), ("rel", "cas/", "r"),
        ("rel", "cas/B", "w"), ("rel", "cas/", "r"))
    writer = seg(2, ("acq", "cas/", "w"), ("rel", "cas/", "w"))
    path = os.path.join(chk.out, "segments_selftest_b.ndjson")
    vlib.write_ndjson(path, [nested, writer])
    got = {}
    for sem in ("rwlock_wp", "flock"):
        res = vlib.run_tlc("Locks", f"Locks_{sem}_2.cfg", chk.out, workers=2,
                           timeout=300, env_extra={"SEGMENTS": path})
        got[sem] = res.violated
    if got != {"rwlock_wp": "DeadlockFree", "flock": None}:
        raise vlib.ToolError(f"self-test: reader re-entrance behind a "
                             f"waiting writer judged wrongly: {got}")
    chk.cov["selftest_locks"] = ("inverted lock order rejected; reader "
                                 "re-entrance deadlocks only under writer "
                                 "preference")


# --------------------------------------------------------------------------
# part 2: scenarios on the real code
# --------------------------------------------------------------------------

FAMILIES = ["same_ca", "diff_ca", "parent_child", "pubserver", "mixed",
            "rrdp_race", "sync_race"]


def gen_elems(rng):
    uris = rng.sample([1, 2], rng.choice([1, 1, 2]))
    elems = []
    for u in uris:
        k = rng.choice(["P", "P", "U", "W"])
        e = {"k": k, "u": u, "c": "", "h": ""}
        if k in ("P", "U"):
            e["c"] = rng.choice(["a", "b"])
        if k in ("U", "W"):
            e["h"] = rng.choice(["a", "b"])
        elems.append(e)
    return elems


def gen_op(rng, family, t):
    def roa(ca):
        return {"k": rng.choice(["roa_add", "roa_add", "roa_del"]), "ca": ca,
                "r": rng.choice([1, 2, 3])}

    def query(ca):
        return rng.choice([{"k": "ca_show", "ca": ca},
                           {"k": "history", "ca": ca},
                           {"k": "status", "ca": ca}, {"k": "ca_list"}])

    def child():
        c = rng.choice(["X", "X", "B"])
        if c == "B":
            return {"k": "child_upd", "ca": "A", "child": "B",
                    "ent": rng.choice(["s", "l"])}
        k = rng.choice(["child_add", "child_rm", "child_upd", "ud_list"])
        op = {"k": k, "ca": "A", "child": "X"}
        if k in ("child_add", "child_upd"):
            op["ent"] = rng.choice(["s", "l"])
        return op

    def pub():
        p = rng.choice(["x", "x", "y"])
        k = rng.choice(["pub_add", "pub_rm", "publish", "publish", "publish",
                        "del_files", "session_reset", "repo_stats",
                        "pub_show", "bg"])
        if k == "publish":
            return {"k": k, "p": p, "elems": gen_elems(rng)}
        if k == "bg":
            return {"k": k, "task": "rrdp"}
        if k in ("session_reset", "repo_stats"):
            return {"k": k}
        return {"k": k, "p": p}

    def background():
        return rng.choice([
            {"k": "bg", "task": rng.choice(["republish", "renew",
                                            "snapshots", "rrdp", "ta"])},
            {"k": "refresh_all"}, {"k": "sync_all"}, {"k": "republish"}])

    def roll(ca):
        return {"k": rng.choice(["roll_init", "roll_activate"]), "ca": ca}

    x = rng.random()
    if family == "same_ca":
        return roa("A") if x < 0.7 else (query("A") if x < 0.9 else roll("A"))
    if family == "diff_ca":
        ca = "ABC"[t % 3]
        return roa(ca) if x < 0.7 else (query(ca) if x < 0.9 else roll(ca))
    if family == "parent_child":
        if t % 2 == 0:
            return child() if x < 0.8 else roa("A")
        return roa("B") if x < 0.5 else (
            roll("B") if x < 0.7 else (
                {"k": "refresh_all"} if x < 0.85 else query("B")))
    if family == "pubserver":
        return pub() if x < 0.85 else roa("ABC"[t % 3])
    if family == "rrdp_race":
        # aimed at the two critical sections of the RRDP update (S8):
        # content changes, session resets and purges from several threads
        # while the scheduler thread runs update_rrdp_if_needed
        role = t % 3
        if role == 0:
            return {"k": "publish", "p": "x", "elems": gen_elems(rng)} \
                if x < 0.8 else {"k": "bg", "task": "rrdp"}
        if role == 1:
            return {"k": "session_reset"} if x < 0.7 else \
                {"k": "del_files", "p": "y"}
        return {"k": "del_files", "p": "y"} if x < 0.5 else (
            {"k": "session_reset"} if x < 0.8 else
            {"k": "bg", "task": "rrdp"})
    if family == "sync_race":
        # aimed at the task queue: the API thread finishes-or-replaces the
        # SyncParent task of B while the scheduler thread is running it
        if t % 2 == 0:
            return {"k": "child_upd", "ca": "A", "child": "B",
                    "ent": rng.choice(["s", "l"])} if x < 0.85 else \
                {"k": "refresh_all"}
        return roa("B") if x < 0.5 else (
            {"k": "refresh_all"} if x < 0.8 else roll("B"))
    # mixed
    if x < 0.25:
        return roa(rng.choice("ABC"))
    if x < 0.45:
        return child()
    if x < 0.7:
        return pub()
    if x < 0.9:
        return background()
    return roll(rng.choice("AB"))


def gen_scenario(rng, sid, family, memory):
    nthreads = rng.choice([2, 3, 3, 4])
    pre = []
    if family in ("pubserver", "mixed") and rng.random() < 0.8:
        pre.append({"k": "pub_add", "p": "x"})
        if rng.random() < 0.7:
            pre.append({"k": "publish", "p": "x", "elems": [
                {"k": "P", "u": 1, "c": "a", "h": ""}]})
    if family in ("parent_child", "mixed") and rng.random() < 0.5:
        pre.append({"k": "child_add", "ca": "A", "child": "X", "ent": "s"})
    if rng.random() < 0.4:
        pre.append({"k": "roa_add", "ca": rng.choice("ABC"), "r": 1})
    if family == "rrdp_race":
        nthreads = rng.choice([3, 4])
        pre = [{"k": "pub_add", "p": "x"}, {"k": "pub_add", "p": "y"}]
    threads = []
    for t in range(nthreads):
        ops = []
        # rrdp_race: few calls per thread, no pauses: what matters is which
        # of several simultaneous writers of the RRDP files comes last
        count = rng.randint(1, 3) if family == "rrdp_race" \
            else rng.randint(3, 6)
        for _ in range(count):
            op = gen_op(rng, family, t)
            op["d"] = rng.choice([0, 0, 0, 300]) if family == "rrdp_race" \
                else rng.choice([0, 0, 0, 300, 2000, 10000])
            ops.append(op)
        threads.append(ops)
    if family == "sync_race" and rng.random() < 0.5:
        # the operator removes the child while its sync may be running
        threads[0].append({"k": "child_rm", "ca": "A", "child": "B",
                           "d": rng.choice([0, 300, 2000, 20000])})
    return {
        "id": sid, "family": family, "memory": memory,
        "seed": rng.randrange(1, 2 ** 31),
        "yield_us": rng.choice([0, 200, 1000, 3000]),
        "real_sched": rng.random() < 0.2,
        "pre": pre, "threads": threads,
    }


def run_scenarios(chk, scenarios, tag, shards=8, watchdog_ms=30000,
                  timeout=2400):
    """Runs kv-conc run-conc over the scenarios (sharded); returns the
    recorded runs. Exit code 3 of a shard = it stopped at a deadlock."""
    workdir = os.path.join(chk.out, tag)
    os.makedirs(workdir, exist_ok=True)
    shards = max(1, min(shards, len(scenarios)))
    procs = []
    for i in range(shards):
        part = scenarios[i::shards]
        inp = os.path.join(workdir, f"scen_{i}.ndjson")
        outp = os.path.join(workdir, f"runs_{i}.ndjson")
        work = os.path.join(workdir, f"work_{i}")
        vlib.write_ndjson(inp, part)
        logf = open(os.path.join(workdir, f"harness_{i}.log"), "w")
        cmd = [vlib.harness_bin(CRATE), "run-conc", "--in", inp, "--out",
               outp, "--work", work, "--watchdog-ms", str(watchdog_ms)]
        procs.append((subprocess.Popen(cmd, stdout=logf, stderr=logf),
                      outp, work, logf))
    deadline = time.time() + timeout
    runs = []
    failed = None
    for p, outp, work, logf in procs:
        try:
            rc = p.wait(timeout=max(1, deadline - time.time()))
        except subprocess.TimeoutExpired:
            for q, _, _, _ in procs:
                q.kill()
            raise vlib.ToolError("kv-conc run-conc timed out")
        logf.close()
        if rc not in (0, 3):
            failed = (rc, logf.name)
        if os.path.exists(outp):
            runs.extend(vlib.read_ndjson(outp))
        shutil.rmtree(work, ignore_errors=True)
    if failed:
        with open(failed[1]) as f:
            print(f.read()[-3000:])
        raise vlib.ToolError(f"kv-conc run-conc exited with {failed[0]}")
    runs.sort(key=lambda r: r["id"])
    return runs


REFUSALS = {
    "roa_add": {"ca-roa-delta-error"},
    "roa_del": {"ca-roa-delta-error"},
    "child_add": {"ca-child-duplicate"},
    "child_upd": {"ca-child-unknown"},
    "child_rm": {"ca-child-unknown"},
    "ud_list": {"ca-child-unknown", "refused",
                r"general-error: CA A has issue with request by child X: "
                r"CA 'A' does not have.*"},
    "pub_add": {"pub-duplicate"},
    "pub_rm": {"pub-unknown"},
    "publish": {"pub-unknown", "refused",
                r"general-error: Issue with publication request by "
                r"publisher '[xy]': Unknown pub.*"},
    "pub_show": {"pub-unknown"},
    # depends on the stage of the roll, which the model does not track
    "roll_init": {r"(ca-)?key-roll-[a-z-]+", r"ca-key-[a-z-]+"},
    "roll_activate": {r"(ca-)?key-roll-[a-z-]+", r"ca-key-[a-z-]+"},
}


def call_record(call, calls):
    op = call["op"]
    elems = [[e["k"], e["u"], e.get("c", ""), e.get("h", "")]
             for e in op.get("elems", [])]
    return {
        "k": op["k"], "ca": op.get("ca", ""), "r": op.get("r", 0),
        "child": op.get("child", ""), "ent": op.get("ent", ""),
        "p": op.get("p", ""), "elems": elems,
        "res": "ok" if call["res"] == "ok" else "err",
        "pred": [j + 1 for j, other in enumerate(calls)
                 if other["e"] < call["s"]],
    }


def final_record(final):
    pubs = {}
    for p in ("x", "y"):
        rec = final["pubs"].get(p, {"exists": False, "objs": {}})
        pubs[p] = {"exists": bool(rec["exists"]),
                   "objs": sorted([int(u), c] for u, c in
                                  rec["objs"].items())}
    ch = final["children"].get("A", {})
    return {
        "roas": {ca: sorted(int(r[1:]) for r in final["roas"].get(ca, []))
                 for ca in ("A", "B", "C")},
        "ent": {c: ch.get(c, "none") for c in ("B", "X")},
        "pubs": pubs,
        "certB": final.get("certB", "none"),
    }


def scenario_kinds(run):
    return sorted({c["op"]["k"] for c in run.get("calls", [])})


def judge_run(chk, run):
    """Everything that can be judged without the reference model. Returns
    True if the run goes on to the linearisability search."""
    replay = {"driver": "run-conc", "scenario": run["scenario"],
              "observed": {k: run.get(k) for k in
                           ("calls", "final", "fatal", "deadlock", "tasks",
                            "tasks_after")}}
    if run.get("deadlock"):
        cyc = run["deadlock"]["cycle"]
        locks = sorted({re.sub(r"mem0x[0-9a-f]+", "mem", e["wants"])
                        for e in cyc})
        chk.report(
            "Deadlock:" + "+".join(locks),
            f"call {run['deadlock']['call']} of {run['deadlock']['stuck']} "
            f"did not return; wait-for cycle in the lock table: {cyc}",
            replay)
        return False
    for c in run["calls"]:
        res = c["res"]
        k = c["op"]["k"]
        if res.startswith("harness:"):
            raise vlib.ToolError(f"harness failure in {c['op']}: {res}")
        if res.startswith("panic"):
            chk.report(f"Panic:{k}", f"call {c['op']} panicked: {res}",
                       replay)
            return False
        if res != "ok" and not any(re.fullmatch(pat, res)
                                   for pat in REFUSALS.get(k, set())):
            chk.report(
                f"UnexpectedError:{k}:{res.split(':')[0]}",
                f"call {c['op']} was answered with '{res}', which no "
                f"one-at-a-time execution gives", replay)
            return False
    if run.get("fatal"):
        fatal = run["fatal"]
        m = re.search(r"(scheduler_\w+)(?: (\w+))?(?: ([a-z_]+?)_[A-Za-z]+)?",
                      fatal)
        kind = ":".join(x for x in (m.groups() if m else ()) if x) or "other"
        if run.get("real_sched") and m:
            # the daemon's own loop only tells which exit it took
            kind = m.group(1)
        chk.report(
            f"SchedulerStopped:{kind}",
            f"the scheduler thread hit the condition on which the daemon "
            f"exits (scheduler.rs:73-117): {fatal}", replay)
        return False
    problems = run["final"].get("problems", [])
    if problems:
        cls = sorted({p.split(":")[0] for p in problems})
        if "RrdpFilesStale" in cls:
            # the files are those of an older revision of the content:
            # whatever else differs follows from that
            cls = ["RrdpFilesStale"]
        chk.report(
            "RepoAfterQuiescence:" + "+".join(cls),
            f"after all background work had caught up: {problems[:3]}",
            replay)
        return False
    return True


def linearise(chk, runs, tag, chunk=150, max_rejections=60):
    """TLC searches a serial order for every run. Returns the runs it found
    none for, as (run, linearised_calls, total_calls, record)."""
    rejected = []
    workdir = os.path.join(chk.out, tag)
    os.makedirs(workdir, exist_ok=True)
    validated = 0
    for start in range(0, len(runs), chunk):
        todo = list(runs[start:start + chunk])
        while todo:
            recs = []
            cum = 0
            for r in todo:
                calls = [call_record(c, r["calls"]) for c in r["calls"]]
                cum += len(calls) + 1
                recs.append({"id": r["id"], "calls": calls, "cum": cum,
                             "final": final_record(r["final"])})
            path = os.path.join(workdir, "runs.ndjson")
            vlib.write_ndjson(path, recs)
            res = vlib.run_tlc("KrillConcTrace", "KrillConcTrace.cfg",
                               workdir, workers=1, timeout=1500,
                               env_extra={"TRACE": path}, heap="8g")
            chk.cov["trace_states"] = chk.cov.get("trace_states", 0) \
                + res.distinct
            m = re.search(
                r'<<"TRACE_REJECTED", "depth", (\d+), "of", (\d+)>>',
                res.out)
            if not m:
                if res.errors or res.postcondition_failed \
                        or not res.finished:
                    print(res.out[-3000:])
                    raise vlib.ToolError(
                        "KrillConcTrace failed unexpectedly")
                validated += len(todo)
                break
            depth = int(m.group(1)) - 1         # steps taken
            idx = 0
            while idx < len(recs) and depth >= len(recs[idx]["calls"]) + 1:
                depth -= len(recs[idx]["calls"]) + 1
                idx += 1
            if idx >= len(recs):
                raise vlib.ToolError("cannot locate the rejected scenario")
            validated += idx
            out = res.out.replace('\\"', '"')
            # which parts of the final state no complete serial order
            # explains
            diffs = [set(json.loads(d)) for i, d in re.findall(
                r'<<"FINAL_MISMATCH", (\d+), "(.*)">>', out)
                if int(i) == recs[idx]["id"]]
            recs[idx]["mismatch"] = sorted(min(
                diffs, key=lambda d: (len(d), sorted(d)))) if diffs else []
            # the deepest dead ends of the search: which answers block it
            ends = [(int(n), set(json.loads(d))) for i, n, d in re.findall(
                r'<<"DEAD_END", (\d+), (\d+), "(.*)">>', out)
                if int(i) == recs[idx]["id"]]
            deepest = max((n for n, _ in ends), default=0)
            stuck = [d for n, d in ends if n == deepest]
            recs[idx]["stuck"] = sorted(min(
                stuck, key=lambda d: (len(d), sorted(d)))) if stuck else []
            rejected.append((todo[idx], depth, len(recs[idx]["calls"]),
                             recs[idx]))
            todo = todo[idx + 1:]
            if len(rejected) >= max_rejections:
                chk.cov["traces_validated_against_impl"] += validated
                vlib.log(f"{max_rejections} runs rejected: the remaining "
                         f"runs are not searched")
                return rejected
    chk.cov["traces_validated_against_impl"] += validated
    return rejected


def obj_key(op):
    k = op["k"]
    if k.startswith("roa_"):
        return ("roas", op.get("ca"))
    if k.startswith("child_") or k == "ud_list":
        return ("child", op.get("child"))
    if k.startswith("pub") or k == "del_files":
        return ("pub", op.get("p"))
    return None


def concurrent_mutators(run, stuck):
    """Kinds of the accepted state-changing calls on the same object that
    overlapped in time with a call whose answer blocks the search."""
    res = set()
    calls = run["calls"]
    for c in calls:
        r = "ok" if c["res"] == "ok" else "err"
        if f"{c['op']['k']}={r}" not in stuck:
            continue
        for d in calls:
            if d is c or d["res"] != "ok" or obj_key(d["op"]) is None \
                    or obj_key(d["op"]) != obj_key(c["op"]):
                continue
            if d["op"]["k"] in ("pub_show", "ud_list"):
                continue
            if d["s"] < c["e"] and c["s"] < d["e"]:
                res.add(d["op"]["k"])
    return sorted(res)


def report_rejected(chk, rejected):
    for run, depth, total, rec in rejected:
        what = "final" if depth == total else "results"
        if what == "final":
            detail = "+".join(rec.get("mismatch", [])) or "?"
            if detail == "pub-objects" and "pub_rm" in concurrent_mutators(
                    run, ["publish=ok"]):
                # objects orphaned by a delta that raced with the removal
                # of the publisher, adopted by the publisher added again
                # under the same handle afterwards: the same defect
                detail = "orphans"
        else:
            detail = "+".join(rec.get("stuck", [])) or "?"
            conc = concurrent_mutators(run, rec.get("stuck", []))
            if conc:
                detail += "~" + "+".join(conc)
        chk.report(
            f"NotSerialisable:{what}:{detail}",
            (f"no one-at-a-time order of the {total} calls gives the "
             f"recorded results (answers no serial execution gives at the "
             f"deepest dead end of the search: {rec.get('stuck')})"
             if what == "results" else
             f"every serial order that explains the results ends in a state "
             f"different from the one observed after quiescence "
             f"({json.dumps(rec['final'])})")
            + f"; at most {depth} calls could be ordered",
            {"driver": "run-conc", "scenario": run["scenario"],
             "observed": {"calls": run["calls"], "final": run["final"]}})


def lin_self_test(chk, runs):
    """Anti-vacuity for part 3: flip one order-dependent result / drop one
    accepted change from the final state: TLC must reject both."""
    for run in runs:
        for i, c in enumerate(run["calls"]):
            if c["op"]["k"] in ("roa_add", "roa_del") and c["res"] == "ok":
                bad = copy.deepcopy(run)
                bad["calls"][i]["res"] = "ca-roa-delta-error"
                rej = linearise_quiet(chk, [bad], "selftest_a")
                if not rej:
                    raise vlib.ToolError("self-test: a flipped result was "
                                         "accepted by KrillConcTrace")
                bad = copy.deepcopy(run)
                ca = c["op"]["ca"]
                rid = f"{ca}{c['op']['r']}"
                roas = bad["final"]["roas"][ca]
                if c["op"]["k"] == "roa_add" and rid in roas:
                    roas.remove(rid)
                elif c["op"]["k"] == "roa_del" and rid not in roas:
                    roas.append(rid)
                else:
                    continue
                rej = linearise_quiet(chk, [bad], "selftest_b")
                if not rej:
                    raise vlib.ToolError("self-test: a lost update in the "
                                         "final state was accepted")
                chk.cov["selftest_lin"] = ("flipped result rejected; lost "
                                           "update in final state rejected")
                return
    raise vlib.ToolError("self-test found no ROA call to corrupt")


def linearise_quiet(chk, runs, tag):
    before = (chk.cov["traces_validated_against_impl"],
              chk.cov.get("trace_states", 0))
    rej = linearise(chk, runs, tag)
    chk.cov["traces_validated_against_impl"] = before[0]
    chk.cov["trace_states"] = before[1]
    return rej


def watchdog_self_test(chk):
    """Anti-vacuity for part 2: the wait-for analysis must find the cycle in
    a lock table with an inversion and none in a table without."""
    # exercised inside the harness binary (kv-conc selftest-cycle)
    p = subprocess.run([vlib.harness_bin(CRATE), "selftest-cycle"],
                       stdout=subprocess.PIPE, stderr=subprocess.STDOUT,
                       text=True, timeout=60)
    if p.returncode != 0:
        print(p.stdout[-2000:])
        raise vlib.ToolError("self-test of the wait-for analysis failed")
    chk.cov["selftest_watchdog"] = p.stdout.strip().splitlines()[-1]


def run(tier, seed):
    chk = vlib.Check(PID, LEVEL, tier, seed)
    chk.assumptions = [
        "lock programs are those of the operation kinds and states the "
        "recorder visits (run alone, both back-ends); a code path with a "
        "different lock order that none of them takes is not in the model",
        "locks without a hook are added from reading the source, not from "
        "observation: CaStatusStore.cache (write-locked around every access "
        "to the status namespace), RepositoryContentProxy.update_lock and "
        "RsyncdStore.lock (nested, no storage access inside); the caches of "
        "AggregateStore/WalStore are observed through a drop-in lock type "
        "(any new code that locks them is recorded as well); the signer "
        "maps are never held while another lock is acquired and are left "
        "out",
        "2 threads are checked on the complete lock segments, 3 threads "
        "(thorough) on the segments without the store caches (one round of "
        "leaf-lock elimination); 3 threads in the quick tier after two "
        "rounds and 4 threads after three rounds of leaf-lock elimination "
        "(sound for deadlocks, see leaf_reduce in checks/c18.py); the "
        "model's flock and non-preferring RwLock semantics coincide",
        "real schedules are sampled: seeded scenarios with delay injection "
        "at the storage lock hooks; linearisability and the final state are "
        "decided by TLC for each sampled run, not for all schedules",
        "refusals are compared as ok / refused (plus a white list of error "
        "labels per operation), not by message text",
        "interleavings inside OpenSSL, tokio and the file system are not "
        "controlled",
    ]
    segs, model_dl = check_locks(chk, tier)
    if model_dl:
        # confirmed on the real code and reported; the sampled part would
        # only hang in the same place
        return chk.finish()
    watchdog_self_test(chk)
    n = 315 if tier == "quick" else 2700
    # the RRDP writer race needs many short runs: three slots of nine
    plan = FAMILIES + ["rrdp_race", "rrdp_race"]
    scenarios = []
    for i in range(n):
        family = plan[i % len(plan)]
        memory = (i // len(plan)) % 2 == 1
        scenarios.append(gen_scenario(chk.rng, i + 1, family, memory))
    t0 = time.time()
    runs = run_scenarios(chk, scenarios, "runs",
                         timeout=600 if tier == "quick" else 2400)
    vlib.log(f"{len(runs)} scenarios executed in {time.time() - t0:.0f}s")
    if len(runs) < len(scenarios) and not any(r.get("deadlock")
                                              for r in runs):
        raise vlib.ToolError("scenarios missing from the harness output")
    good = []
    seen_families = set()
    seen_kinds = set()
    for run_ in runs:
        seen_families.add((run_["scenario"]["family"], run_["memory"]))
        seen_kinds.update(scenario_kinds(run_))
        chk.count_case([[c["op"], c["res"]] for c in run_["calls"]],
                       nontrivial=len(run_["scenario"]["threads"]) > 1)
        if judge_run(chk, run_):
            good.append(run_)
    for r in good[:2]:
        chk.sample({"scenario": r["scenario"],
                    "results": [c["res"] for c in r["calls"]],
                    "final": r["final"]})
    rejected = linearise(chk, good, "lin")
    report_rejected(chk, rejected)
    rejected_ids = {r[0]["id"] for r in rejected}
    accepted = [r for r in good if r["id"] not in rejected_ids]
    if accepted and len(rejected) < 60:
        lin_self_test(chk, accepted)
    # anti-vacuity: every family on both back-ends, the order-dependent
    # operations and the tasks must have been exercised
    if not chk.violations:
        for fam in FAMILIES:
            for mem in (False, True):
                if (fam, mem) not in seen_families:
                    raise vlib.ToolError(f"family {fam} memory={mem} never "
                                         f"ran")
        for k in ("roa_add", "roa_del", "child_add", "child_upd", "child_rm",
                  "ud_list", "pub_add", "pub_rm", "publish", "del_files",
                  "session_reset", "bg"):
            if k not in seen_kinds:
                raise vlib.ToolError(f"operation {k} never exercised")
        tasks = {re.sub(r"_(A|B|C|X|ta)\b", "", t) for r in runs
                 for t in r.get("tasks", []) + r.get("tasks_after", [])}
        chk.cov["task_kinds_run_concurrently"] = sorted(tasks)
        if not any(t.startswith("sync_repo") for t in tasks) or \
                "update_rrdp_if_needed" not in tasks:
            raise vlib.ToolError(f"background tasks not exercised: {tasks}")
        overlaps = sum(1 for r in runs for i, c in enumerate(r["calls"])
                       for d in r["calls"][:i]
                       if d["e"] > c["s"] and d["thr"] != c["thr"])
        chk.cov["overlapping_call_pairs"] = overlaps
        if overlaps < len(runs):
            raise vlib.ToolError("calls hardly ever overlapped: the runs "
                                 "were not concurrent")
    chk.cov["rule"] = (
        "part 1: every distinct lock segment recorded from the real code x "
        "2..4 threads x {flock, RwLock writer-preferring, RwLock "
        "non-preferring}, exhaustive; part 2/3: seeded scenarios (7 families "
        "x 2 back-ends, 2-4 worker threads + scheduler thread, delay "
        "injection) executed on the real code under a watchdog, each "
        "validated by TLC (KrillConcTrace: serial order consistent with "
        "real-time order, results and final state); distinct = distinct "
        "(call, result) sequences; non-trivial = more than one thread")
    chk.cov["exhaustive"] = False
    return chk.finish()


def replay(path, seed):
    with open(path) as f:
        data = json.load(f)
    rp = data["replay"]
    chk = vlib.Check(PID, LEVEL, "quick", seed)
    sc = rp["scenario"]
    # the schedule is not reproducible bit for bit: the scenario is run
    # repeatedly with the saved seed and with derived seeds
    scenarios = []
    for i in range(24):
        s = copy.deepcopy(sc)
        s["id"] = i + 1
        if i:
            s["seed"] = (sc.get("seed", 1) * 7919 + i * 104729) % (2 ** 31)
            s["yield_us"] = [0, 200, 1000, 3000][i % 4]
        scenarios.append(s)
    runs = run_scenarios(chk, scenarios, "replay")
    good = [r for r in runs if judge_run(chk, r)]
    report_rejected(chk, linearise(chk, good, "lin"))
    return chk.finish()
