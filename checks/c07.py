"""C07  Commands are atomic, serialised per entity and completely audited.

Spec: spec/AggStore.tla (aggregate store + WAL store protocol on the locking
key-value back-ends; exhaustive TLC for several bounded configurations, plus
a weakened-lock configuration that must violate the properties),
MC_AggStore_gen (generator of thread programs), AggStoreTrace (trace
validation of what the real store did under concurrency).

Binding: harness-store `run-conc` runs the generated thread programs on OS
threads against (a) the harness' own counter aggregate on the real
AggregateStore / KeyValueStore and (b) real CertAuth aggregates through
CaManager, on the disk and the memory back-end, with seeded schedule
perturbation at the hook yield points. The hook events recorded under the
storage locks are validated by TLC against AggStoreTrace.
"""
import concurrent.futures
import copy
import json
import os
import random

import vlib

PID = "C07"
LEVEL = "model_checking"
CRATE = "harness-store"

QUICK_MODELS = [
    # (cfg, workers, timeout)
    ("MC_AggStore_one.cfg", 12, 400),      # 3 threads x 2 entities x 1 op
    ("MC_AggStore_add.cfg", 12, 400),      # racing add_with_context
    ("MC_AggStore_walmix.cfg", 12, 400),   # WAL + aggregate, 2 threads
    ("MC_AggStore_two.cfg", 12, 400),      # 2 threads x 2 entities x 2 ops
]
THOROUGH_MODELS = QUICK_MODELS + [
    ("MC_AggStore_same.cfg", 12, 900),     # 3 threads, one entity, 2 ops
    ("MC_AggStore_wal.cfg", 12, 1200),     # 3 threads, one WAL entity
    ("MC_AggStore_2x1x3.cfg", 12, 900),    # 2 threads, one entity, 3 ops
    ("MC_AggStore_3x2x2_a.cfg", 12, 1500),  # 3 x 2 x 2, accept / reject
    ("MC_AggStore_3x2x2_b.cfg", 12, 1800),  # 3 x 2 x 2, noop / pre-save
]
NEEDED_ACTIONS = [
    "Begin", "AcquireRoot", "AcquireScope", "Load", "ApplyStored",
    "CheckKeyFree", "ProcessAgg", "ProcessWal", "StoreCmd", "CacheStep",
    "Snapshot", "ReleaseScope", "ReleaseRoot", "History", "AddCheck",
    "AddStore", "AddCache", "AcquireRootW", "ReleaseRootW",
]


# --------------------------------------------------------------------------
# model
# --------------------------------------------------------------------------

def model_runs(chk, tier):
    runs = QUICK_MODELS if tier == "quick" else THOROUGH_MODELS
    for cfg, workers, timeout in runs:
        res = vlib.run_tlc("MC_AggStore", cfg, chk.out, workers=workers,
                           timeout=timeout,
                           coverage=(cfg in ("MC_AggStore_one.cfg",
                                             "MC_AggStore_add.cfg",
                                             "MC_AggStore_walmix.cfg")))
        chk.add_tlc(cfg, res)
        for a, (_, d) in vlib.action_coverage(res.out).items():
            if a not in res.actions:
                chk.cov["actions_covered"][a] = \
                    chk.cov["actions_covered"].get(a, 0) + d
        if res.violated or res.errors:
            print(res.counterexample()[:3000])
            raise vlib.ToolError(
                f"model {cfg} violates {res.violated}: the specification "
                f"was changed inconsistently (not a finding on the code)")
        vlib.log(f"TLC {cfg}: {res.distinct} distinct states, "
                 f"{res.generated} generated, depth {res.depth}, "
                 f"no violation")
    missing = [a for a in NEEDED_ACTIONS
               if chk.cov["actions_covered"].get(a, 0) == 0]
    if missing:
        raise vlib.ToolError(f"actions never taken in the model: {missing}")
    # The model must have teeth: with the scope lock weakened to a shared
    # lock TLC has to find a violation (documentation of the model, not a
    # statement about the code).
    res = vlib.run_tlc("MC_AggStore", "MC_AggStore_weak.cfg", chk.out,
                       workers=4, timeout=300)
    if not res.violated:
        raise vlib.ToolError(
            "the weakened-lock model does not violate any property: the "
            "specification has lost its teeth")
    chk.cov["weak_lock_model"] = (
        f"LockMode=read violates {res.violated} after {res.distinct} states")
    vlib.log(f"TLC MC_AggStore_weak.cfg: violation of {res.violated} found "
             f"(expected)")


# --------------------------------------------------------------------------
# behaviours
# --------------------------------------------------------------------------

def gen_programs(chk, num, seed, depth=260):
    res = vlib.run_tlc("MC_AggStore_gen", "MC_AggStore_gen.cfg", chk.out,
                       workers=1, timeout=600, simulate=num, depth=depth,
                       seed=seed)
    if res.violated or res.errors:
        print(res.out[-3000:])
        raise vlib.ToolError("generator MC_AggStore_gen reported an error")
    return dedupe(vlib.parse_replays(res.out))


def gen_programs_bfs(chk):
    res = vlib.run_tlc("MC_AggStore_gen", "MC_AggStore_gen_bfs.cfg", chk.out,
                       workers=4, timeout=600)
    if res.violated or res.errors:
        print(res.out[-3000:])
        raise vlib.ToolError("generator MC_AggStore_gen (bfs) failed")
    return dedupe(vlib.parse_replays(res.out))


def dedupe(items):
    seen = set()
    out = []
    for it in items:
        key = json.dumps(it, sort_keys=True)
        if key not in seen:
            seen.add(key)
            out.append(it)
    return out


YIELDS = [0, 20, 100, 400, 1500]


def concretise(prog, rng, bid, mode="ctr"):
    """Turns a TLC-generated program into a harness behaviour: initial
    condition of the entities, back-end, schedule seed, concrete commands
    for the state-dependent ('cond') operations."""
    threads = copy.deepcopy(prog["threads"])
    names = sorted({op["e"] for t in threads for op in t} | {"e1"})
    if mode == "ca":
        # real CAs: two entities, at most 3 threads x 3 operations, only
        # operations the CA manager offers
        remap = {"lsnap": "snap", "add": "read", "presave_fail": "cond"}
        threads = [[{"e": "e2" if op["e"] == "e2" else "e1",
                     "op": remap.get(op["op"], op["op"])}
                    for op in t[:3]] for t in threads[:3]]
        names = ["e1", "e2"]
    if mode == "wal":
        # the harness' own WalSupport type on the real WalStore
        remap = {"add": "read", "hist": "fread", "presave_fail": "cond"}
        ent = {"e1": "w1", "e2": "w2", "e3": "w1"}
        threads = [[{"e": ent[op["e"]], "op": remap.get(op["op"], op["op"])}
                    for op in t] for t in threads]
        names = sorted({op["e"] for t in threads for op in t} | {"w1"})
    for t in threads:
        for op in t:
            if op["op"] == "cond":
                op["op"] = rng.choice(["kadd", "kdel", "kset"]) + ":" + \
                    str(rng.choice([1, 2]))
    ents = []
    for name in names:
        setup = rng.choice([0, 1, 2, 3, 5])
        ents.append({
            "e": name,
            "setup": setup,
            "snap": rng.choice([0] * 2 + list(range(0, setup + 1))),
            "cached": rng.random() < 0.6,
            "new": (name == "e3" and mode == "ctr"),
        })
    beh = {
        "id": bid, "mode": mode, "memory": rng.random() < 0.5,
        "seed": rng.randrange(1, 2 ** 31), "yield": rng.choice(YIELDS),
        "hist_cache": rng.random() < 0.7,
        "ents": ents, "threads": threads,
    }
    if mode == "ca" and rng.random() < 0.4:
        # one storage failure in the CA objects store of this CA: whichever
        # accepted command comes first meets a failing pre-save listener,
        # so the outcome of accepted commands on it is left open
        beh["fault"] = rng.choice(names)
        for t in threads:
            for op in t:
                if op["e"] == beh["fault"] and op["op"] == "ok":
                    op["op"] = "okc"
    return beh


def stress_programs(rng, count):
    """Hand-shaped contention: every thread hammers one entity."""
    out = []
    kinds = ["ok", "reject", "noop", "presave_fail", "cond", "read", "snap",
             "hist", "fread"]
    for _ in range(count):
        nthr = rng.choice([2, 3, 4])
        nops = rng.choice([3, 5, 8])
        weights = [rng.choice([1, 3]) for _ in kinds]
        out.append({"threads": [
            [{"e": "e1" if rng.random() < 0.85 else "e2",
              "op": rng.choices(kinds, weights)[0]} for _ in range(nops)]
            for _ in range(nthr)]})
    return out


# --------------------------------------------------------------------------
# running and validating
# --------------------------------------------------------------------------

def signature(rej):
    ev = rej["event"] or {}
    first = rej["segment"][0] if rej["segment"] else {}
    what = ev.get("ev")
    extra = ""
    if what == "final":
        extra = ":" + ("state" if not (ev.get("eq_replay")
                                       and ev.get("eq_fresh")) else "keys")
    return (f"{rej['violated'] or 'no-action-matches'}:{what}{extra}:"
            f"{first.get('mode')}")


def validate_parallel(trace, workdir, jobs=8):
    segs = vlib.split_behaviours(trace)
    if not segs:
        return 0, [], 0
    jobs = max(1, min(jobs, len(segs) // 8 or 1))
    chunks = [segs[i::jobs] for i in range(jobs)]

    def work(i):
        flat = [ev for s in chunks[i] for ev in s]
        return vlib.validate_all("AggStoreTrace", "AggStoreTrace.cfg", flat,
                                 os.path.join(workdir, f"val_{i}"),
                                 timeout=2400)
    validated = 0
    rejections = []
    states = 0
    with concurrent.futures.ThreadPoolExecutor(max_workers=jobs) as pool:
        for v, r, s in pool.map(work, range(jobs)):
            validated += v
            rejections.extend(r)
            states += s
    return validated, rejections, states


def contention(seg):
    """Number of times a thread had to wait for a scope lock that another
    thread held (its begin lies before the holder's release)."""
    holder = {}
    waiting = {}
    hits = 0
    for ev in seg:
        e = ev.get("ev")
        t = ev.get("thr")
        if e == "begin":
            waiting[t] = ev.get("e")
            if holder.get(ev.get("e")) not in (None, t):
                hits += 1
        elif e == "acq":
            holder[ev.get("e")] = t
            waiting.pop(t, None)
        elif e == "rel":
            if holder.get(ev.get("e")) == t:
                holder.pop(ev.get("e"))
    return hits


def run_and_validate(chk, behaviours, tag, shards=None):
    trace = vlib.run_harness("run-conc", behaviours, f"{chk.out}/{tag}",
                             shards=shards, crate=CRATE, timeout=3000)
    validated, rejections, states = validate_parallel(
        trace, f"{chk.out}/{tag}")
    chk.cov["traces_validated_against_impl"] += validated
    chk.cov["trace_states"] = chk.cov.get("trace_states", 0) + states
    by_id = {b["id"]: b for b in behaviours}
    stats = chk.cov.setdefault("observed", {})
    for seg in vlib.split_behaviours(trace):
        beh = by_id.get(seg[0].get("behaviour"))
        hits = contention(seg)
        for ev in seg:
            e = ev.get("ev")
            key = None
            if e == "process":
                key = "process_" + ev.get("kind", "?")
            elif e == "cache":
                key = "cache_" + ("updated" if ev.get("upd") else "skipped")
            elif e in ("snapshot", "addstore", "hist", "acq_rootw", "nested",
                       "panic", "exit"):
                key = e
            elif e == "load":
                key = "load_" + ("unknown" if ev.get("unknown") else
                                 "cached" if ev.get("cached") else "stored")
            if key:
                stats[key] = stats.get(key, 0) + 1
        stats["lock_contention"] = stats.get("lock_contention", 0) + hits
        mode = seg[0].get("mode")
        back = "memory" if seg[0].get("memory") else "disk"
        stats[f"runs_{mode}_{back}"] = stats.get(f"runs_{mode}_{back}", 0) + 1
        if beh is not None:
            chk.count_case(
                {"threads": beh["threads"], "ents": beh["ents"],
                 "mode": beh["mode"], "memory": beh["memory"]},
                nontrivial=hits > 0)
    for rej in rejections:
        first = rej["segment"][0]
        beh = by_id.get(first.get("behaviour"))
        ev = rej["event"] or {}
        chk.report(
            signature(rej),
            f"the recorded interleaving of the real store leaves the locked "
            f"protocol at line {rej['line']} ({ev.get('ev')} by thread "
            f"{ev.get('thr')}): violated={rej['violated']} "
            f"{ev.get('detail', '')}"[:600],
            {"driver": "run-conc", "behaviour": beh,
             "trace": rej["segment"], "line": rej["line"]})
    return trace, rejections


def self_test(chk, trace):
    """Anti-vacuity: an accepted trace in which one thread takes the scope
    lock while another still holds it must be rejected; so must a trace
    whose final key listing lacks a key."""
    segs = vlib.split_behaviours(trace)
    done = 0
    for seg in segs:
        idx = [i for i, e in enumerate(seg) if e["ev"] == "acq"]
        cand = None
        for i in idx[1:]:
            rels = [k for k in range(i) if seg[k]["ev"] == "rel"
                    and seg[k]["e"] == seg[i]["e"]
                    and seg[k]["thr"] != seg[i]["thr"]]
            if rels:
                cand = (i, max(rels))
                break
        if cand is None:
            continue
        bad = copy.deepcopy(seg)
        bad.insert(cand[1], bad.pop(cand[0]))
        v = vlib.validate_trace("AggStoreTrace", "AggStoreTrace.cfg", bad,
                                f"{chk.out}/selftest", tag="overlap")
        if v.accepted:
            raise vlib.ToolError(
                "self-test failed: overlapping critical sections accepted")
        bad = copy.deepcopy(seg)
        for ev in bad:
            if ev["ev"] == "final" and len(ev["keys"]) > 1:
                ev["keys"] = ev["keys"][:-1]
                ev["hist"] = ev["hist"][:-1]
                break
        v2 = vlib.validate_trace("AggStoreTrace", "AggStoreTrace.cfg", bad,
                                 f"{chk.out}/selftest", tag="lostkey")
        if v2.accepted:
            raise vlib.ToolError(
                "self-test failed: a lost command key was accepted")
        chk.cov["selftest"] = (
            f"overlapping lock rejected at line {v.matched}; lost key "
            f"rejected at line {v2.matched}")
        done = 1
        break
    if not done:
        raise vlib.ToolError("self-test found no contended trace to corrupt")


def require_exercised(chk):
    stats = chk.cov.get("observed", {})
    needed = ["process_ok", "process_reject", "process_noop",
              "process_presave_fail", "cache_updated", "cache_skipped",
              "snapshot", "addstore", "hist", "load_cached", "load_stored",
              "lock_contention", "runs_ctr_disk", "runs_ctr_memory",
              "runs_ca_disk", "runs_ca_memory", "runs_wal_disk",
              "runs_wal_memory"]
    missing = [k for k in needed if stats.get(k, 0) == 0]
    if missing:
        raise vlib.ToolError(f"never exercised on the real code: {missing}")


def run(tier, seed):
    chk = vlib.Check(PID, LEVEL, tier, seed)
    chk.assumptions = [
        "an aggregate state is abstracted to its version and the sequence "
        "of identifiers of the applied commands; what events do to the data "
        "is bound by C06",
        "the hook events are emitted under the scope lock they describe "
        "(src/verif.rs assigns the sequence number under the sink mutex)",
        "thread-local steps the hooks do not log (apply stored commands, "
        "process, cache skipped, snapshot written) are inserted at the "
        "program point where the code performs them (harness-store/src/"
        "norm.rs)",
        "schedules are sampled (seeded delays at the yield points), not "
        "enumerated, on the real code; all interleavings are enumerated on "
        "the model only",
        "crashes and I/O errors are not part of this property (C08)",
    ]
    model_runs(chk, tier)
    rng = chk.rng
    nsim = 250 if tier == "quick" else 1500
    progs = gen_programs(chk, nsim, seed)
    bfs = gen_programs_bfs(chk)
    rng.shuffle(bfs)
    bfs = bfs[: (150 if tier == "quick" else 1296)]
    stress = stress_programs(rng, 100 if tier == "quick" else 600)
    behaviours = []
    for p in progs + bfs + stress:
        behaviours.append(concretise(p, rng, len(behaviours)))
    # the contended ones again with other seeds / back-ends
    for p in (stress + bfs)[: (100 if tier == "quick" else 1000)]:
        behaviours.append(concretise(p, rng, len(behaviours)))
    nca = 48 if tier == "quick" else 320
    ca_progs = (stress + progs)
    rng.shuffle(ca_progs)
    ca_behaviours = []
    for p in ca_progs[:nca]:
        b = concretise(p, rng, len(behaviours) + len(ca_behaviours),
                       mode="ca")
        ca_behaviours.append(b)
    # make sure both back-ends see CAs
    for i, b in enumerate(ca_behaviours):
        b["memory"] = (i % 2 == 0)
    nwal = 160 if tier == "quick" else 1200
    wal_progs = stress + progs + bfs
    rng.shuffle(wal_progs)
    first = len(behaviours) + len(ca_behaviours)
    wal_behaviours = [concretise(p, rng, first + i, mode="wal")
                      for i, p in enumerate(wal_progs[:nwal])]
    vlib.log(f"{len(behaviours)} counter behaviours ({len(progs)} simulated, "
             f"{len(bfs)} exhaustive-short, {len(stress)} contention) + "
             f"{len(wal_behaviours)} WAL-store behaviours + "
             f"{len(ca_behaviours)} CertAuth behaviours")
    for b in behaviours[:2] + ca_behaviours[:1]:
        chk.sample(b)
    trace, rej = run_and_validate(chk, behaviours + wal_behaviours, "ctr")
    run_and_validate(chk, ca_behaviours, "ca", shards=min(16, nca))
    if not chk.violations:
        self_test(chk, trace)
        require_exercised(chk)
    chk.cov["rule"] = (
        "thread programs = TLC simulation of MC_AggStore_gen (3-4 threads x "
        "3 entities x 4 operations, all operation kinds) + all pairs of "
        "two-operation programs on one entity (BFS) + seeded contention "
        "programs; each run on OS threads against the real AggregateStore "
        "(counter aggregate; CertAuth through CaManager) and the real "
        "WalStore (counter log), disk and memory "
        "back-end, seeded yield delays; the recorded hook events validated "
        "by TLC against AggStoreTrace; distinct = distinct (programs, "
        "initial condition, back-end); non-trivial = at least one thread "
        "had to wait for a scope lock held by another")
    return chk.finish()


def replay(path, seed):
    with open(path) as f:
        data = json.load(f)
    rp = data["replay"]
    chk = vlib.Check(PID, LEVEL, "quick", seed)
    beh = rp["behaviour"]
    # the schedule of OS threads cannot be replayed exactly: the saved
    # programs are re-run under 40 different schedule seeds, and the saved
    # trace is re-validated as recorded
    rng = random.Random(seed)
    behs = []
    for i in range(40):
        b = copy.deepcopy(beh)
        b["id"] = i
        if i:
            b["seed"] = rng.randrange(1, 2 ** 31)
            b["yield"] = rng.choice(YIELDS)
        behs.append(b)
    run_and_validate(chk, behs, "replay", shards=8)
    v = vlib.validate_trace("AggStoreTrace", "AggStoreTrace.cfg",
                            rp["trace"], f"{chk.out}/saved", tag="saved")
    vlib.log(f"saved trace: accepted={v.accepted} matched={v.matched}")
    return chk.finish()
