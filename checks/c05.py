"""C05  Configuration changes are validated against held resources, all or
nothing.

Spec: spec/ConfigValidation.tla (accept/refuse and resulting configuration of
ROA deltas, ASPA updates, ASPA provider updates, router key updates, child
add/update; AllOrNothing; sanity theorems), MC_ConfigValidation_gen (TLC
enumerates CA states x requests and checks the theorems on each),
ConfigValidationTrace (TLC judges what the real CA did with each request).
Harness: `kv-vec cfgval` (harness-vec/src/cfgval.rs): a real CA below an
embedded TA, requests submitted through the CaManager entry points.
"""
import concurrent.futures
import copy
import json
import os
import re
import subprocess
import time

import vlib

PID = "C05"
LEVEL = "model_checking"
CRATE = "harness-vec"

# generator config -> one case in n for the quick tier
GROUPS = {"child": 1, "rtr": 3, "aspa": 6, "roa": 25}
JOPTS = ("-Xss256m -Xmx3g -XX:ParallelGCThreads=2 -XX:CICompilerCount=2 "
         "-Dtlc2.tool.queue.IStateQueue=StateDeque")
CHUNK = 8000
# every reason for a refusal the property names must have been exercised
NEEDED = {
    ("roa", "ok"), ("roa", "prefix-not-held"), ("roa", "invalid-max-length"),
    ("roa", "already-present"), ("roa", "remove-not-present"),
    ("aspa", "ok"), ("aspa", "customer-not-held"), ("aspa", "providers-empty"),
    ("aspa", "providers-duplicate"), ("aspa", "customer-as-provider"),
    ("aspa", "remove-unknown-customer"),
    ("aspap", "ok"), ("aspap", "customer-not-held"),
    ("aspap", "customer-as-provider"),
    ("rtr", "ok"), ("rtr", "as-not-held"), ("rtr", "csr-not-self-signed"),
    ("rtr", "remove-unknown-key"),
    ("chadd", "ok"), ("chadd", "no-resources"),
    ("chadd", "resources-not-held"), ("chadd", "duplicate-child"),
    ("chupd", "ok"), ("chupd", "no-resources"),
    ("chupd", "resources-not-held"),
    # states with entries for resources the CA has lost since
    ("roa", "ok-with-lost-resources"),
    ("roa", "refused-with-lost-resources"),
    ("aspa", "ok-with-lost-resources"),
    ("aspa", "refused-with-lost-resources"),
    ("aspap", "ok-with-lost-resources"),
    ("rtr", "ok-with-lost-resources"),
    ("rtr", "refused-with-lost-resources"),
    ("chupd", "ok-with-lost-resources"),
    ("chupd", "refused-with-lost-resources"),
}


def gen_cfg(chk, name, mod, seed):
    with open(os.path.join(vlib.SPEC,
                           f"MC_ConfigValidation_gen_{name}.cfg")) as f:
        text = f.read()
    text = re.sub(r"SampleMod = \d+", f"SampleMod = {mod}", text)
    text = re.sub(r"SampleSeed = \d+", f"SampleSeed = {seed}", text)
    path = os.path.join(chk.out, f"MC_ConfigValidation_gen_{name}.cfg")
    with open(path, "w") as f:
        f.write(text)
    return path


def generate(chk, name, mod, seed):
    cfg = gen_cfg(chk, name, mod, seed)
    res = vlib.run_tlc("MC_ConfigValidation_gen", cfg,
                       os.path.join(chk.out, "gen_" + name), workers=12,
                       timeout=1800)
    chk.add_tlc(f"MC_ConfigValidation_gen_{name}"
                + ("" if mod == 1 else f" 1/{mod}"), res)
    if res.violated or res.errors or not res.ok():
        print(res.counterexample()[:3000])
        raise vlib.ToolError(
            f"generator {name}: a sanity theorem of ConfigValidation.tla "
            f"fails or TLC reported an error ({res.violated}) - the "
            f"specification is inconsistent (not a finding on the code)")
    cases = vlib.parse_replays(res.out)
    for i, c in enumerate(cases):
        c["id"] = f"{name}-{i}"
    vlib.log(f"TLC generated {len(cases)} cases of group {name} "
             f"({res.distinct} states)")
    return cases


def run_shards(chk, name, cases):
    """Runs the harness over the cases; returns the trace files."""
    work = os.path.join(chk.out, "run_" + name)
    os.makedirs(work, exist_ok=True)
    # consecutive cases share the CA state: fewer set-up commands
    cases = sorted(cases, key=lambda c: (c["kind"], json.dumps(
        c["state"], sort_keys=True)))
    # every shard sets up its own CA and costs a TLC start-up later
    nshards = max(1, (len(cases) + CHUNK - 1) // CHUNK,
                  min(vlib.NCPU, 16, len(cases) // 500))
    size = (len(cases) + nshards - 1) // nshards
    jobs = []
    for i in range(nshards):
        part = cases[i * size:(i + 1) * size]
        if not part:
            continue
        inp = os.path.join(work, f"cases_{i}.ndjson")
        outp = os.path.join(work, f"trace_{i}.ndjson")
        vlib.write_ndjson(inp, part)
        cmd = [vlib.harness_bin(CRATE), "cfgval", "--in", inp, "--out", outp,
               "--work", os.path.join(work, f"work_{i}")]
        jobs.append((cmd, outp, os.path.join(work, f"harness_{i}.log")))

    def one(job):
        cmd, outp, logp = job
        with open(logp, "w") as logf:
            rc = subprocess.run(cmd, stdout=logf, stderr=logf,
                                timeout=3600).returncode
        return rc, outp, logp

    traces = []
    with concurrent.futures.ThreadPoolExecutor(vlib.NCPU) as ex:
        for rc, outp, logp in ex.map(one, jobs):
            if rc != 0:
                with open(logp) as f:
                    print(f.read()[-3000:])
                raise vlib.ToolError(f"harness cfgval exited with {rc}")
            traces.append(outp)
    return traces


MISMATCH_RE = re.compile(r'^<<"MISMATCH", (\d+), (".*")>>\s*$', re.M)
SUMMARY_RE = re.compile(r'^<<"SUMMARY", (\d+), (\d+), (".*")>>\s*$', re.M)


def validate_shard(path):
    res = vlib.run_tlc("ConfigValidationTrace", "ConfigValidationTrace.cfg",
                       path + ".tlc", workers=1, timeout=3000,
                       env_extra={"TRACE": path, "JAVA_TOOL_OPTIONS": JOPTS})
    if res.violated or res.errors or res.postcondition_failed \
            or not res.finished:
        print(res.out[-3000:])
        raise vlib.ToolError(f"trace validation failed on {path}")
    m = SUMMARY_RE.search(res.out)
    if not m:
        print(res.out[-3000:])
        raise vlib.ToolError(f"trace validation printed no summary: {path}")
    seen = {tuple(x) for x in json.loads(json.loads(m.group(3)))}
    mism = [(int(x.group(1)), json.loads(json.loads(x.group(2))))
            for x in MISMATCH_RE.finditer(res.out)]
    if len(mism) != int(m.group(2)):
        raise vlib.ToolError("mismatch lines and summary disagree")
    return int(m.group(1)), mism, seen, res


def signature(failure):
    parts = []
    for x in failure:
        if isinstance(x, list):
            parts.append("+".join(sorted(x)) or "-")
        else:
            parts.append(str(x))
    return ":".join(parts)


def validate(chk, name, traces, found, seen):
    total = 0
    with concurrent.futures.ThreadPoolExecutor(12) as ex:
        results = list(ex.map(validate_shard, traces))
    for path, (lines, mism, sn, res) in zip(traces, results):
        total += lines
        seen |= sn
        chk.cov["trace_states"] = chk.cov.get("trace_states", 0) \
            + res.distinct
        if not mism:
            continue
        wanted = {l for l, _ in mism}
        got = {}
        with open(path) as f:
            for n, text in enumerate(f, 1):
                if n in wanted:
                    got[n] = json.loads(text)
        for l, failures in mism:
            ln = got[l]
            for fl in failures:
                sig = signature(fl)
                ent = found.setdefault(sig, {"count": 0, "examples": []})
                ent["count"] += 1
                size = len(json.dumps(ln["state"])) + len(json.dumps(
                    ln["req"]))
                ent["examples"].append((size, fl, ln))
                ent["examples"].sort(key=lambda e: e[0])
                del ent["examples"][3:]
    chk.cov["traces_validated_against_impl"] += total
    return total


def report_all(chk, found):
    for sig in sorted(found):
        ent = found[sig]
        if sig.startswith("harness-state-not-reached"):
            raise vlib.ToolError(
                f"the harness could not bring the CA into a case's state: "
                f"{json.dumps(ent['examples'][0][2])[:1500]}")
    for sig in sorted(found):
        ent = found[sig]
        size, fl, ln = ent["examples"][0]
        o = ln["obs"]
        chk.report(
            sig,
            f"real CA disagrees with ConfigValidation.tla: {sig}: kind "
            f"{ln['kind']} state {json.dumps(ln['state'])} request "
            f"{json.dumps(ln['req'])} -> {o['res']} "
            f"{o['err'][:300]!r}; configuration after: "
            f"{json.dumps(o['after'][o['field']])}; history +{o['hist']}; "
            f"objects unchanged: {o['objs_same']} [{ent['count']} cases]",
            {"driver": "cfgval",
             "case": {"id": ln["id"], "kind": ln["kind"],
                      "state": ln["state"], "req": ln["req"]},
             "failure": fl, "observed": o,
             "more": [{"kind": e[2]["kind"], "state": e[2]["state"],
                       "req": e[2]["req"]} for e in ent["examples"][1:]]})
    chk.cov["mismatch_signatures"] = {s: found[s]["count"] for s in found}


def self_test(chk, trace_paths):
    """Anti-vacuity: corrupted observations must be rejected by TLC."""
    lines = []
    for path in trace_paths:
        lines.extend(vlib.read_ndjson(path)[:2000])
    bad = []
    kinds = set()
    for ln in lines:
        o = ln["obs"]
        if o["res"] == "ok" and "flip-ok" not in kinds:
            m = copy.deepcopy(ln)
            m["obs"]["res"] = "err"
            m["obs"]["after"] = m["obs"]["before"]
            bad.append(m)
            kinds.add("flip-ok")
        if o["res"] == "err" and "flip-err" not in kinds:
            m = copy.deepcopy(ln)
            m["obs"]["res"] = "ok"
            bad.append(m)
            kinds.add("flip-err")
        if o["res"] == "err" and o["before"][o["field"]] \
                and "refused-changed" not in kinds:
            m = copy.deepcopy(ln)
            m["obs"]["after"][o["field"]] = o["before"][o["field"]][1:]
            bad.append(m)
            kinds.add("refused-changed")
        if o["res"] == "err" and "refused-objects" not in kinds:
            m = copy.deepcopy(ln)
            m["obs"]["objs_same"] = False
            bad.append(m)
            kinds.add("refused-objects")
        if o["res"] == "ok" and o["after"][o["field"]] \
                and o["after"] != o["before"] and "accepted-partial" not in kinds:
            m = copy.deepcopy(ln)
            m["obs"]["after"] = m["obs"]["before"]
            bad.append(m)
            kinds.add("accepted-partial")
        if o["res"] == "ok" and ln["kind"] in ("roa", "aspa", "rtr") \
                and "objects-differ" not in kinds:
            field = {"roa": "roas", "aspa": "aspas", "rtr": "rtr"}[ln["kind"]]
            if o["pub"][field]:
                m = copy.deepcopy(ln)
                m["obs"]["pub"][field] = o["pub"][field][1:]
                bad.append(m)
                kinds.add("objects-differ")
    if len(kinds) < 6:
        raise vlib.ToolError(f"self-test: could not build every corruption "
                             f"(have {sorted(kinds)})")
    path = os.path.join(chk.out, "selftest.ndjson")
    vlib.write_ndjson(path, bad)
    n, mism, _, _ = validate_shard(path)
    rejected = {l for l, _ in mism}
    if rejected != set(range(1, len(bad) + 1)):
        raise vlib.ToolError(
            f"self-test failed: corrupted observations were accepted "
            f"(rejected lines {sorted(rejected)} of {len(bad)})")
    chk.cov["selftest"] = (f"{len(bad)} corrupted observations (accepted "
                           f"turned refused and back, refused with changed "
                           f"configuration / objects, accepted but not "
                           f"applied, published payload missing) all "
                           f"rejected")


def run(tier, seed):
    chk = vlib.Check(PID, LEVEL, tier, seed)
    chk.assumptions = [
        "only accept/refuse decides; the error text is recorded, not judged",
        "'already present (same comment)' is judged as the code does: "
        "against the comment an authorisation had before the delta, or the "
        "comment of the entry of this delta that introduced it",
        "an ASPA providers update is lenient by design (adding a listed / "
        "removing an unlisted provider is a no-op, not an error)",
        "updating a child that does not exist is expected to be refused",
        "'repository untouched' is observed on the CA's stored object set "
        "(ca_objects: everything the CA publishes, including manifest and "
        "CRL numbers); after an accepted request the ROA / ASPA / router "
        "certificate payloads decoded from that object set must equal the "
        "configuration; the transfer to the publication server is C01's "
        "business; one audit record for a refused command is allowed",
        "the CA holds AS64001-AS64002, 10.0.0.0/16, 2001:db8::/32 whenever a "
        "request is submitted; states with entries for resources lost since "
        "(11.0.0.0/24, AS64003) are set up by growing the CA's certificate "
        "through its parent CA, configuring, and shrinking it again",
    ]
    found = {}
    seen = set()
    ncases = 0
    first_trace = None
    for name in ["child", "rtr", "aspa", "roa"]:
        mod = 1 if tier == "thorough" else GROUPS[name]
        t0 = time.time()
        cases = generate(chk, name, mod, seed)
        if not cases:
            raise vlib.ToolError(f"group {name}: no cases generated")
        chk.sample(cases[len(cases) // 2])
        for c in cases:
            chk.count_case([c["kind"], c["state"], c["req"]],
                           c["req"] not in ({"add": [], "rem": []},))
        ncases += len(cases)
        t1 = time.time()
        traces = run_shards(chk, name, cases)
        t2 = time.time()
        lines = validate(chk, name, traces, found, seen)
        if lines != len(cases):
            raise vlib.ToolError(f"{len(cases)} cases but {lines} judged")
        vlib.log(f"group {name}: {lines} cases executed on the real CA and "
                 f"judged by TLC (gen {t1 - t0:.0f}s, harness {t2 - t1:.0f}s,"
                 f" validation {time.time() - t2:.0f}s)")
        if name == "aspa":
            first_trace = traces
    chk.cov["evaluations"] = ncases
    chk.cov["exercised"] = sorted(f"{k}:{r}" for k, r in seen)
    missing = NEEDED - seen
    if missing:
        raise vlib.ToolError(f"never exercised: {sorted(missing)}")
    self_test(chk, first_trace)
    report_all(chk, found)
    chk.cov["exhaustive"] = tier == "thorough"
    chk.cov["rule"] = (
        "cases = CA state (<=2 configured entries from a pool, including "
        "entries for resources the CA has lost since) x request: "
        "ROA deltas (<=2 added + <=2 removed, <=3 entries, from pools with "
        "held/unheld/overlapping prefixes, v4/v6, max length implicit, =len, "
        "len+1, family max, family max+1, len-1, AS0, comments), ASPA "
        "definition updates (<=2 add-or-replace + <=2 remove) and provider "
        "updates, router key updates (<=2 add + <=2 remove, valid/broken "
        "CSR signature, held/unheld AS), child add/update (10 resource "
        "sets x 2 handles), enumerated by TLC "
        + ("completely" if tier == "thorough" else
           "and sampled by a seeded content hash (one in "
           + ", ".join(f"{n}:{GROUPS[n]}" for n in GROUPS) + ")")
        + "; each case is executed on a real CA below an embedded TA and "
          "judged by TLC against ConfigValidation.tla; distinct = distinct "
          "cases; non-trivial = non-empty request")
    return chk.finish()


def replay(path, seed):
    with open(path) as f:
        data = json.load(f)
    rp = data["replay"]
    chk = vlib.Check(PID, LEVEL, "quick", seed)
    found = {}
    traces = run_shards(chk, "replay", [rp["case"]])
    validate(chk, "replay", traces, found, set())
    chk.count_case(rp["case"])
    report_all(chk, found)
    return chk.finish()
