"""Shared pipeline of the checks bound to spec/Krill.tla (C01-C04, ...).

  1. TLC decides the invariants / step properties on Krill.tla for bounded
     configurations (MC_Krill_*.cfg);
  2. TLC generates behaviours (MC_Krill_gen, themed configs);
  3. the harness (run-ca) executes them on a real in-process Krill and
     records the projected state after every API call and every single
     background task;
  4. TLC validates the recorded traces against KrillTrace.tla.
"""
import copy
import json
import os
import random
import vlib

QUICK_MC = ["MC_Krill_q_chain.cfg", "MC_Krill_q_roll.cfg",
            "MC_Krill_q_life.cfg"]
THOROUGH_MC = ["MC_Krill_chain.cfg", "MC_Krill_roll.cfg",
               "MC_Krill_life.cfg", "MC_Krill_q_aspa.cfg"]

# which invariant / step property belongs to which property id
OWNER = {
    "C01": ["C01_", "C0109_", "RpMatches", "SettledAgreed"],
    "C09": ["C09_", "C0109_"],
    "C02": ["C02_"],
    "C03": ["C03_"],
    "C04": ["C04_"],
    "C14": ["C14_"],
}


def owners_of(violated):
    """The property ids whose checks report a violation of the named
    invariant (none: a step no action of the specification allows --
    reported by whichever check sees it)."""
    if violated is None:
        return []
    res = [pid for pid, prefixes in OWNER.items()
           if any(violated.startswith(p) for p in prefixes)]
    if violated == "TraceStepProps":
        res.append("C02")
    return res


def owner_of(violated):
    res = owners_of(violated)
    return res[0] if res else None


def signature(rej):
    ev = rej["event"] or {}
    tk = ev.get("tk", ["", ""])
    return (f"{rej['violated'] or 'no-action-matches'}:{ev.get('ev')}:"
            f"{tk[0] if tk else ''}:{ev.get('status')}")


def behaviour_of(segment):
    """A deterministic replay script for a recorded trace segment."""
    acts = []
    top = None
    for ev in segment[1:]:
        e = ev.get("ev")
        if e == "Setup":
            top = ev.get("abs", {}).get("rcv", {}).get("A", {}).get("cur")
            continue
        if e in ("Settled", "NotSettled", "abort", "DueTouch"):
            continue
        if e == "reset":
            continue
        a = {"a": e}
        for k in ("c", "p", "r", "res", "add", "del", "cust", "prov",
                  "margin", "timing", "in_parent", "for_child", "x", "lim",
                  "again",
                  "nolim", "fam"):
            if k in ev:
                a[k] = ev[k]
        if e == "Step":
            a["task"] = ev.get("task")
            if ev.get("held"):
                a["a"] = "StepHold"
        acts.append(a)
    beh = {"top": top or ["p1", "p2", "a1"], "actions": acts,
           "slots": segment[0].get("slots", []),
           "id": segment[0].get("behaviour", 0),
           "agg": segment[0].get("agg", 100),
           "deagg": segment[0].get("deagg", 90),
           "mftdue": segment[0].get("mftdue", False),
           "objdue": segment[0].get("objdue", False)}
    if segment[0].get("timing"):
        beh["timing"] = segment[0]["timing"]
    add_timing(beh)
    return beh


# (the lifetimes stay the normal ones, so that what is issued during a due
# phase is not due any more once the normal values are back)
DUE_TIMING = {"timing_publish_next_hours": 24,
              "timing_publish_next_jitter_hours": 0,
              "timing_publish_hours_before_next": 100,
              "timing_roa_valid_weeks": 52,
              "timing_roa_reissue_weeks_before": 100,
              "timing_aspa_valid_weeks": 52,
              "timing_aspa_reissue_weeks_before": 100,
              "timing_bgpsec_valid_weeks": 52,
              "timing_bgpsec_reissue_weeks_before": 100}
NORMAL_TIMING = {"timing_publish_next_hours": 24,
                 "timing_publish_next_jitter_hours": 0,
                 "timing_publish_hours_before_next": 8,
                 "timing_roa_valid_weeks": 52,
                 "timing_roa_reissue_weeks_before": 4,
                 "timing_aspa_valid_weeks": 52,
                 "timing_aspa_reissue_weeks_before": 4,
                 "timing_bgpsec_valid_weeks": 52,
                 "timing_bgpsec_reissue_weeks_before": 4}


SHORT_TIMING = dict(NORMAL_TIMING, timing_publish_next_hours=12)
MARGIN_HOURS = 18
MARGIN_TIMING = dict(NORMAL_TIMING, timing_publish_hours_before_next=MARGIN_HOURS)


def add_timing(beh):
    """RestartDue / RestartNormal carry the timing values to restart with:
    margins larger than the lifetimes make everything due."""
    for a in beh["actions"]:
        if a.get("a") == "RestartDue":
            a["timing"] = DUE_TIMING
        elif a.get("a") == "RestartNormal":
            a["timing"] = NORMAL_TIMING
        elif a.get("a") == "RestartMargin":
            a["timing"] = MARGIN_TIMING
            


def model_runs(chk, tier, cfgs=None, needed=None):
    cfgs = cfgs or (QUICK_MC if tier == "quick" else QUICK_MC + THOROUGH_MC)
    if os.environ.get("VERIF_SKIP_MC"):
        # (lib/run_mutations.py: the model does not depend on the code)
        chk.cov["model_runs"] = "skipped (VERIF_SKIP_MC)"
        return
    for cfg in cfgs:
        # (MC_Krill_live_*: temporal properties under fairness of the
        # background tasks, module MC_Krill_live)
        live = cfg.startswith("MC_Krill_live")
        res = vlib.run_tlc("MC_Krill_live" if live else "MC_Krill", cfg,
                           chk.out, workers=6 if live else 12,
                           # (the large configurations take 10-25 min on
                           # an idle machine with 12 workers; a machine
                           # shared with other builds needs much longer --
                           # a time-out is a tool error, not a verdict)
                           timeout=900 if "_q_" in cfg else 7200,
                           coverage=not live)
        if cfg == "MC_Krill_live_sanity.cfg":
            # anti-vacuity: this temporal property is false (a roll rests
            # while it waits for the operator); TLC must find the lasso
            if "Sanity_RollNewNeverRests was violated" not in res.out:
                raise vlib.ToolError(
                    "liveness checking is vacuous: the false property "
                    "Sanity_RollNewNeverRests was not refuted")
            chk.cov["liveness_sanity"] = (
                "false temporal property refuted by TLC (lasso found)")
            continue
        chk.add_tlc(cfg, res)
        if live:
            chk.cov.setdefault("temporal_properties_checked", []).append(cfg)
            chk.cov["actions_covered"].setdefault("MCNext", 1)
        if res.violated or res.errors:
            print(res.counterexample()[:3000])
            raise vlib.ToolError(
                f"model {cfg} violates {res.violated}: specification and "
                f"properties disagree (not a finding on the code)")
        vlib.log(f"TLC {cfg}: {res.distinct} distinct states, "
                 f"{res.generated} generated, no violation")
    # (the wrapped specification reports coverage for MCNext only; that the
    # individual actions are exercised is checked on the recorded traces)
    needed = needed or ["MCNext"]
    missing = [a for a in needed
               if chk.cov["actions_covered"].get(a, 0) == 0]
    if missing and not chk.violations:
        # (with a violation in hand the verdict is the violation)
        raise vlib.ToolError(f"actions never taken in the model: {missing}")


def _a(a, **kw):
    d = {"a": a}
    d.update(kw)
    return d


# Directed behaviours for a CA with two parents (theme "multi": slot C2 is
# the resource class of CA C under its second parent A, besides the one
# under B).  Both parents hold p1: the route authorisation has an object in
# both classes; removing one parent withdraws that class only, removing both
# withdraws everything, a removed parent can be added again; entitlement
# changes reach the CA per parent; a roll covers every class, also when a
# parent is removed in the middle of it.
MULTI_SLOTS = [["C2", "C"]]
MULTI_DIRECTED = [
    {"slots": MULTI_SLOTS, "theme": "multi-directed", "actions": [
        _a("AddCa", c="B", p="A", res=["p1", "p2", "a1"]), _a("Settle"),
        _a("AddCa", c="C", p="B", res=["p1"]), _a("Settle"),
        _a("AddParent", c="C2", p="A", res=["p1", "p2"]), _a("Settle"),
        # (one update at a time: each must reach both classes)
        _a("RoaAdd", c="C", r=["p1", "a1"]), _a("Settle"),
        _a("RoaAdd", c="C", r=["p2", "a1"]), _a("Settle"),
        _a("RoaDel", c="C", r=["p1", "a1"]), _a("Settle"),
        _a("RoaAdd", c="C", r=["p1", "a2"]), _a("Settle"),
        _a("ChildRes", c="C2", p="A", res=["p2"]), _a("Settle"),
        _a("ChildRes", c="C2", p="A", res=["p1", "p2"]), _a("Settle"),
        _a("RemoveParent", c="C", p="B"), _a("Settle"),
        _a("RemoveParent", c="C2", p="A"), _a("Settle"),
        _a("AddParent", c="C", p="B", res=["p1"]), _a("Settle"),
        _a("RoaDel", c="C", r=["p2", "a1"]),
        _a("AddParent", c="C2", p="A", res=["p1", "p2"]), _a("Settle")]},
    {"slots": MULTI_SLOTS, "theme": "multi-directed", "actions": [
        _a("AddCa", c="B", p="A", res=["p1", "p2", "a1"]), _a("Settle"),
        _a("AddCa", c="C", p="B", res=["p1", "a1"]), _a("Settle"),
        _a("AddParent", c="C2", p="A", res=["p2"]), _a("Settle"),
        _a("RoaAdd", c="C", r=["p1", "a1"]),
        _a("RoaAdd", c="C", r=["p2", "a2"]), _a("Settle"),
        _a("RollInit", c="C"), _a("Settle"),
        _a("RollActivate", c="C"),
        _a("Step", task="sync_repo_C"), _a("Step", task="sync_repo_B"),
        _a("Step", task="sync_repo_A"), _a("Settle"),
        _a("RollInit", c="C"), _a("Settle"),
        _a("RemoveParent", c="C2", p="A"),
        _a("RollActivate", c="C"), _a("Settle"),
        _a("AddParent", c="C2", p="A", res=["p2"]), _a("Settle"),
        _a("RoaDel", c="C", r=["p1", "a1"]), _a("Settle")]},
]


# One directed behaviour per clause of the property statements that the
# random themes reach only now and then (every behaviour is validated
# against KrillTrace.tla like a generated one; object-level facts -- CRLs,
# manifests, the relying-party walk -- are compared at every step).
CLAUSES = {
    # C01: provider authorisations and router keys follow the certificate
    # (AS lost and regained), at two levels
    "aspa-rtr-shrink-regain": {"actions": [
        _a("AddCa", c="B", p="A", res=["p1", "a1"]), _a("Settle"),
        _a("AspaSet", c="B", cust="a1", prov=["a2"]),
        _a("RtrAdd", c="B", r=["a1", "rtr:k1"]),
        _a("RoaAdd", c="B", r=["p1", "a1"]), _a("Settle"),
        _a("ChildRes", c="B", p="A", res=["p1"]), _a("Settle"),
        _a("AspaSet", c="B", cust="a1", prov=["a2", "a3"]),
        _a("ChildRes", c="B", p="A", res=["p1", "a1"]), _a("Settle"),
        _a("RtrDel", c="B", r=["a1", "rtr:k1"]),
        _a("AspaSet", c="B", cust="a1", prov=[]), _a("Settle")]},
    # C02: the top of a chain shrinks: every level below is cut in the
    # publication of its parent; a child that was suspended and unsuspended
    # before is treated like any other
    "chain-shrink-after-suspension": {"actions": [
        _a("AddCa", c="B", p="A", res=["p1", "p2", "a1"]), _a("Settle"),
        _a("AddCa", c="C", p="B", res=["p1", "p2"]), _a("Settle"),
        _a("ChildSuspend", c="C", p="B"), _a("Settle"),
        _a("ChildUnsuspend", c="C", p="B"), _a("Settle"),
        _a("ChildRes", c="B", p="A", res=["p1", "a1"]),
        _a("Step", task="sync_B_with_parent_A"),
        _a("Step", task="sync_B_with_parent_A"),
        _a("Step", task="sync_repo_B"), _a("Settle"),
        _a("ChildRes", c="B", p="A", res=["p1", "p2", "a1"]), _a("Settle")]},
    # C02: nothing left in common: the certificate is revoked, not shrunk
    "shrink-to-nothing": {"actions": [
        _a("AddCa", c="B", p="A", res=["p1", "p2"]), _a("Settle"),
        _a("AddCa", c="C", p="B", res=["p2"]), _a("Settle"),
        _a("RoaAdd", c="C", r=["p2", "a1"]), _a("Settle"),
        _a("ChildRes", c="B", p="A", res=["p1"]), _a("Settle"),
        _a("ChildRes", c="B", p="A", res=["p1", "p2"]), _a("Settle")]},
    # C03: child removed / suspended / CA with products deleted: withdrawn
    # and on the CRL
    "child-removed-suspended-deleted": {"actions": [
        _a("AddCa", c="B", p="A", res=["p1", "p2"]), _a("Settle"),
        _a("AddCa", c="C", p="A", res=["p2", "a1"]), _a("Settle"),
        _a("RoaAdd", c="B", r=["p1", "a1"]),
        _a("RoaAdd", c="C", r=["p2", "a2"]), _a("Settle"),
        _a("ChildSuspend", c="B", p="A"), _a("Settle"),
        _a("ChildUnsuspend", c="B", p="A"), _a("Settle"),
        _a("ChildRemove", c="B", p="A"), _a("Settle"),
        _a("DeleteCa", c="C"), _a("Settle")]},
    # C03 / C01: a route authorisation replaced several times
    "roa-replaced": {"actions": [
        _a("AddCa", c="B", p="A", res=["p1", "p2"]), _a("Settle"),
        _a("RoaAdd", c="B", r=["p1", "a1"]), _a("Settle"),
        _a("RoaDelta", c="B", add=["p1|a2"], **{"del": ["p1|a1"]}),
        _a("Settle"),
        _a("RoaDelta", c="B", add=["p1|a1"], **{"del": ["p1|a2"]}),
        _a("Settle"), _a("RoaDel", c="B", r=["p1", "a1"]), _a("Settle")]},
    # C04: entitlement changes, configuration changes, a suspension and a
    # second roll request while a roll is under way
    "roll-interleaved": {"actions": [
        _a("AddCa", c="B", p="A", res=["p1", "p2"]), _a("Settle"),
        _a("AddCa", c="C", p="B", res=["p1"]), _a("Settle"),
        _a("RoaAdd", c="B", r=["p1", "a1"]), _a("Settle"),
        _a("RollInit", c="B"), _a("Settle"),
        _a("ChildRes", c="B", p="A", res=["p1", "p2", "a1"]), _a("Settle"),
        _a("RoaAdd", c="B", r=["p2", "a1"]), _a("RollInit", c="B"),
        _a("ChildSuspend", c="C", p="B"), _a("Settle"),
        _a("RollActivate", c="B"),
        _a("ChildRes", c="B", p="A", res=["p1", "p2"]),
        _a("RoaDel", c="B", r=["p1", "a1"]), _a("Settle"),
        _a("RollInit", c="B"), _a("Settle"), _a("RollActivate", c="B"),
        _a("RollActivate", c="B"), _a("Settle")]},
    # C02 "every request limit": a child that is not hosted here (the
    # harness plays its part of RFC 6492) asks for certificates with a
    # resource limit; the issuer's certificate shrinks (the certificates are
    # replaced by the part both still hold -- the limit must not stand in
    # the way), its key rolls (every child certificate is re-issued under
    # the new key), the child is suspended while the issuer shrinks again
    # and calls in later
    "foreign-limit-shrink": {"actions": [
        _a("AddCa", c="B", p="A", res=["p1", "p2", "a1"]), _a("Settle"),
        _a("AddForeign", c="F", p="B", res=["p1", "p2"]),
        # (the child knows the class under another name: C03 "under
        # whichever class name the child was told")
        _a("ChildMap", c="F", p="B", in_parent="0", for_child="mF"),
        _a("FIssue", c="F", x="cur", lim=["p1", "p2"], nolim=False),
        _a("FIssue", c="F", x="new", lim=[], nolim=True), _a("Settle"),
        _a("ChildRes", c="B", p="A", res=["p1", "a1"]), _a("Settle"),
        _a("RollInit", c="B"), _a("Settle"),
        _a("RollActivate", c="B"), _a("Settle"),
        _a("ChildRes", c="B", p="A", res=["p1", "p2", "a1"]), _a("Settle"),
        _a("FIssue", c="F", x="cur", lim=["p2"], nolim=False), _a("Settle"),
        _a("ChildSuspend", c="F", p="B"),
        _a("ChildRes", c="B", p="A", res=["p2", "a1"]), _a("Settle"),
        _a("FList", c="F"), _a("Settle"),
        _a("FRevoke", c="F", x="cur"), _a("FRevoke", c="F", x="new"),
        _a("Settle"),
        _a("ChildRemove", c="F", p="B"), _a("Settle")]},
    # C03 / C02 / C16: the parent of such a child loses its resource class
    # and gets a new one (under a new name): the child's certificates went
    # with the class; a revocation request for a key certified under the
    # vanished class, naming the class the child is told now, is confirmed
    # without effect; the same key is certified again under the new class
    "foreign-parent-class-renumbered": {"actions": [
        _a("AddCa", c="B", p="A", res=["p1", "p2", "a1"]), _a("Settle"),
        _a("AddCa", c="C", p="B", res=["p1"]), _a("Settle"),
        _a("AddForeign", c="F", p="C", res=["p1"]),
        _a("FIssue", c="F", x="cur", lim=[], nolim=True),
        _a("FIssue", c="F", x="new", lim=["p1"], nolim=False), _a("Settle"),
        _a("ChildRes", c="B", p="A", res=["p2", "a1"]), _a("Settle"),
        _a("ChildRes", c="B", p="A", res=["p1", "p2", "a1"]), _a("Settle"),
        _a("FRevoke", c="F", x="cur"),
        _a("FIssue", c="F", x="new", lim=[], nolim=True), _a("Settle"),
        _a("FRevoke", c="F", x="new"), _a("FList", c="F"), _a("Settle")]},
    # C02 / C19: a limit that is not within the offer is refused (the parent
    # reports the failure), also for a suspended child that calls in with
    # it -- which is unsuspended all the same
    "foreign-limit-refused": {"actions": [
        _a("AddCa", c="B", p="A", res=["p1", "a1"]), _a("Settle"),
        _a("AddForeign", c="F", p="B", res=["p1"]),
        _a("FIssue", c="F", x="cur", lim=["p1", "a1"], nolim=False),
        _a("FIssue", c="F", x="cur", lim=[], nolim=True), _a("Settle"),
        _a("ChildSuspend", c="F", p="B"), _a("Settle"),
        _a("FIssue", c="F", x="new", lim=["a1"], nolim=False), _a("Settle"),
        _a("ChildRes", c="F", p="B", res=["p1", "a1"]),
        _a("FIssue", c="F", x="new", lim=["a1"], nolim=False), _a("Settle"),
        _a("FRevoke", c="F", x="cur"), _a("Settle"),
        # a limit on the IPv4 family only: the AS comes as offered
        _a("FIssue", c="F", x="cur", lim=["p1"], nolim=False, fam="v4"),
        _a("Settle"),
        _a("FIssue", c="F", x="cur", lim=["p1", "p2"], nolim=False, fam="v4"),
        _a("FIssue", c="F", x="cur", lim=[], nolim=False, fam="v4"),
        _a("Settle")]},
    # C01 / C04: the new key's certificate holds more than the old key's
    # (the entitlement grew after the roll began): at activation every
    # configured authorisation the new certificate covers gets its object,
    # also those the old key had none for
    "roll-new-key-covers-more": {"actions": [
        _a("AddCa", c="B", p="A", res=["p1", "a1"]), _a("Settle"),
        _a("RoaAdd", c="B", r=["p1", "a1"]),
        _a("AspaSet", c="B", cust="a1", prov=["a2"]),
        _a("RtrAdd", c="B", r=["a1", "rtr:k1"]), _a("Settle"),
        _a("ChildRes", c="B", p="A", res=["p2"]), _a("Settle"),
        _a("RollInit", c="B"),
        _a("ChildRes", c="B", p="A", res=["p1", "p2", "a1"]),
        _a("Step", task="sync_B_with_parent_A"),
        _a("RollActivate", c="B"), _a("Settle")]},
    # C01 / C04: the new key's certificate holds less than the old key's
    # (the entitlement shrank, the roll began before the CA learnt of it: the
    # open request for the new key is sent instead of the list query): at
    # activation only what the new certificate covers is re-issued
    "roll-new-key-covers-less": {"actions": [
        _a("AddCa", c="B", p="A", res=["p1", "p2", "a1"]), _a("Settle"),
        _a("RoaAdd", c="B", r=["p1", "a1"]),
        _a("RoaAdd", c="B", r=["p2", "a1"]),
        _a("AspaSet", c="B", cust="a1", prov=["a2"]),
        _a("RtrAdd", c="B", r=["a1", "rtr:k1"]), _a("Settle"),
        _a("ChildRes", c="B", p="A", res=["p1"]),
        _a("RollInit", c="B"),
        _a("Step", task="sync_B_with_parent_A"),
        _a("RollActivate", c="B"), _a("Settle")]},
    # C03 "parent removed" for a CA that has children itself (and those have
    # children): the class goes with everything issued under it, the
    # children find nothing on offer at their next synchronisation and drop
    # their own class (theirs in turn), everything is withdrawn; the parent
    # is added again, the classes come back under new names level by level
    "parent-removed-with-children": {"actions": [
        _a("AddCa", c="B", p="A", res=["p1", "p2", "a1"]), _a("Settle"),
        _a("AddCa", c="C", p="B", res=["p1", "p2"]), _a("Settle"),
        _a("RoaAdd", c="C", r=["p1", "a1"]),
        _a("RoaAdd", c="B", r=["p2", "a1"]), _a("Settle"),
        _a("RemoveParent", c="B", p="A"), _a("Settle"),
        _a("AddParent", c="B", p="A", res=["p1", "p2", "a1"]), _a("Settle"),
        _a("Settle")]},
    # ... in the middle of the child's key roll, with a suspended grandchild;
    # and once more right after the CA's own key activation
    "parent-removed-deep-roll-suspended": {"actions": [
        _a("AddCa", c="B", p="A", res=["p1", "p2", "a1"]), _a("Settle"),
        _a("AddCa", c="C", p="B", res=["p1", "p2"]), _a("Settle"),
        _a("AddCa", c="D", p="C", res=["p1"]), _a("Settle"),
        _a("RoaAdd", c="D", r=["p1", "a1"]),
        _a("RoaAdd", c="C", r=["p2", "a1"]),
        _a("RoaAdd", c="B", r=["p2", "a2"]), _a("Settle"),
        _a("ChildSuspend", c="D", p="C"),
        _a("RollInit", c="C"), _a("Settle"),
        _a("RemoveParent", c="B", p="A"),
        _a("Step", task="sync_repo_B"),
        _a("Step", task="sync_C_with_parent_B"),
        _a("Settle"),
        _a("AddParent", c="B", p="A", res=["p1", "p2", "a1"]), _a("Settle"),
        _a("Settle"),
        _a("RollInit", c="B"), _a("Settle"), _a("RollActivate", c="B"),
        _a("RemoveParent", c="B", p="A"), _a("Settle")]},
    # C02 (known finding cert-shrunk-by-parent-not-re-requested): the parent
    # shrinks and regains before the child's next synchronisation
    "shrink-regrow-before-child-sync": {"actions": [
        _a("AddCa", c="B", p="A", res=["p1", "p2", "a1"]), _a("Settle"),
        _a("AddCa", c="C", p="B", res=["p1", "p2"]), _a("Settle"),
        _a("RoaAdd", c="C", r=["p1", "a1"]), _a("Settle"),
        _a("ChildRes", c="B", p="A", res=["p2", "a1"]),
        _a("Step", task="sync_B_with_parent_A"),
        _a("Step", task="sync_B_with_parent_A"),
        _a("ChildRes", c="B", p="A", res=["p1", "p2", "a1"]),
        _a("Step", task="sync_B_with_parent_A"),
        _a("Step", task="sync_B_with_parent_A"),
        _a("Settle"), _a("Settle")]},
    # C04: an activation while requests for the parent are open (the
    # entitlement changed after the new key got its certificate; the CA has
    # listed and not yet sent) is refused and changes nothing; once the
    # requests are answered it goes through
    "roll-activate-with-open-requests": {"actions": [
        _a("AddCa", c="B", p="A", res=["p1", "a1"]), _a("Settle"),
        _a("AddCa", c="C", p="B", res=["p1"]), _a("Settle"),
        _a("RoaAdd", c="B", r=["p1", "a1"]), _a("Settle"),
        _a("RollInit", c="B"), _a("Settle"),
        _a("ChildRes", c="B", p="A", res=["p1", "p2", "a1"]),
        _a("Step", task="sync_B_with_parent_A"),
        _a("RollActivate", c="B"),
        _a("Step", task="sync_B_with_parent_A"),
        _a("RollActivate", c="B"), _a("Settle"),
        _a("RollInit", c="B"),
        _a("RollActivate", c="B"), _a("Settle"),
        _a("RollActivate", c="B"), _a("Settle")]},
    # C02 / C03: the check for inactive children suspends every child with
    # certificates at once (two levels); the children call in again; once
    # more while an entitlement change and a roll are under way
    "auto-suspend-inactive-children": {
        "timing": {"suspend_child_after_inactive_seconds": 1}, "actions": [
        _a("AddCa", c="B", p="A", res=["p1", "p2", "a1"]), _a("Settle"),
        _a("AddCa", c="C", p="B", res=["p1"]), _a("Settle"),
        _a("RoaAdd", c="C", r=["p1", "a1"]),
        _a("RoaAdd", c="B", r=["p2", "a1"]), _a("Settle"),
        _a("AutoSuspend"),
        _a("Step", task="sync_repo_A"), _a("Step", task="sync_repo_B"),
        _a("Settle"),
        _a("RollInit", c="C"), _a("Settle"),
        _a("AutoSuspend"),
        _a("ChildRes", c="B", p="A", res=["p1", "a1"]), _a("Settle"),
        _a("RollActivate", c="C"), _a("AutoSuspend"), _a("Settle"),
        _a("Settle")]},
    # C02 / C01: a CA with two parents loses the class under its first
    # parent (that parent's own certificate shrinks to nothing in common)
    # and regains it: the class that comes back is a new one beside the
    # class under the other parent, which must be untouched throughout
    "multi-class-lost-and-regained": {"slots": MULTI_SLOTS, "actions": [
        _a("AddCa", c="B", p="A", res=["p1", "p2", "a1"]), _a("Settle"),
        _a("AddCa", c="C", p="B", res=["p1"]), _a("Settle"),
        _a("AddParent", c="C2", p="A", res=["p2"]), _a("Settle"),
        _a("RoaAdd", c="C", r=["p1", "a1"]),
        _a("RoaAdd", c="C", r=["p2", "a1"]), _a("Settle"),
        _a("ChildRes", c="B", p="A", res=["p2", "a1"]), _a("Settle"),
        _a("ChildRes", c="B", p="A", res=["p1", "p2", "a1"]), _a("Settle"),
        _a("Settle"),
        _a("RoaDel", c="C", r=["p2", "a1"]), _a("Settle")]},
    # C04: the child rolls while its parent rolls
    "roll-parent-and-child": {"actions": [
        _a("AddCa", c="B", p="A", res=["p1", "p2"]), _a("Settle"),
        _a("AddCa", c="C", p="B", res=["p1"]), _a("Settle"),
        _a("RoaAdd", c="C", r=["p1", "a1"]), _a("Settle"),
        _a("RollInit", c="B"), _a("RollInit", c="C"), _a("Settle"),
        _a("RollActivate", c="B"), _a("Settle"),
        _a("RollActivate", c="C"), _a("Settle")]},
}


# C09: a change that commits while the scheduler thread is still running the
# very task the change has to leave in the queue (claimed and processed, not
# yet finished): the follow-up must be queued again and run -- for the RRDP
# update after a publication, the repository synchronisation after an object
# change and the parent synchronisation after an entitlement change.
HOLD_DIRECTED = [
    {"theme": "hold", "actions": [
        _a("AddCa", c="B", p="A", res=["p1", "p2"]), _a("Settle"),
        _a("RoaAdd", c="B", r=["p1", "a1"]),
        _a("Step", task="sync_repo_B"),
        _a("StepHold", task="update_rrdp_if_needed"),
        _a("RoaAdd", c="B", r=["p2", "a1"]),
        _a("Step", task="sync_repo_B"),
        _a("Release"), _a("Settle")]},
    {"theme": "hold", "actions": [
        _a("AddCa", c="B", p="A", res=["p1", "p2"]), _a("Settle"),
        _a("RoaAdd", c="B", r=["p1", "a1"]),
        _a("StepHold", task="sync_repo_B"),
        _a("RoaAdd", c="B", r=["p2", "a1"]),
        _a("Release"), _a("Settle")]},
    {"theme": "hold", "actions": [
        _a("AddCa", c="B", p="A", res=["p1", "p2"]), _a("Settle"),
        _a("ChildRes", c="B", p="A", res=["p1"]),
        _a("StepHold", task="sync_B_with_parent_A"),
        _a("ChildRes", c="B", p="A", res=["p1", "p2"]),
        _a("Release"), _a("Settle")]},
    {"theme": "hold", "actions": [
        _a("AddCa", c="B", p="A", res=["p1", "p2"]), _a("Settle"),
        _a("AddCa", c="C", p="B", res=["p1"]), _a("Settle"),
        _a("RoaAdd", c="C", r=["p1", "a1"]), _a("Settle"),
        _a("RollInit", c="C"), _a("Settle"),
        _a("RollActivate", c="C"),
        _a("StepHold", task="sync_repo_C"),
        _a("RoaDel", c="C", r=["p1", "a1"]),
        _a("Release"), _a("Settle")]},
]


# The CA under the trust anchor rolls its key: its requests are queued at
# the TA proxy, answered by the signer in one cycle and fetched one
# synchronisation later; activation before the TA has published the new
# key's certificate; products and children follow.
TA_DIRECTED = [
    {"theme": "taroll", "actions": [
        _a("RoaAdd", c="A", r=["p1", "a1"]),
        _a("AddCa", c="B", p="A", res=["p1"]), _a("Settle"),
        _a("RollInit", c="A"), _a("Settle"),
        _a("RollActivate", c="A"), _a("Settle"), _a("Settle")]},
    {"theme": "taroll", "actions": [
        _a("AddCa", c="B", p="A", res=["p1", "p2"]), _a("Settle"),
        _a("RoaAdd", c="B", r=["p1", "a1"]), _a("Settle"),
        _a("RollInit", c="A"),
        _a("Step", task="sync_A_with_parent_ta"),
        _a("RoaAdd", c="A", r=["p2", "a1"]),
        _a("Step", task="sync_ta_proxy_signer"),
        _a("RollInit", c="B"),
        _a("Step", task="sync_A_with_parent_ta"),
        _a("RollActivate", c="A"),
        _a("Step", task="sync_repo_A"),
        _a("Step", task="sync_B_with_parent_A"),
        _a("Settle"),
        _a("RollActivate", c="B"), _a("Settle"),
        _a("RollInit", c="A"), _a("RollInit", c="A"), _a("Settle"),
        _a("ChildRes", c="B", p="A", res=["p1"]),
        _a("RollActivate", c="A"), _a("RollActivate", c="A"),
        _a("Settle")]},
]


def clause(*names):
    out = []
    for n in names:
        b = copy.deepcopy(CLAUSES[n])
        b["theme"] = "clause:" + n
        out.append(b)
    return out


def generate(chk, themes, num, depth, seed, theme_nums=None):
    behaviours = []
    for i, theme in enumerate(themes):
        num_here = (theme_nums or {}).get(theme, num)
        # "tduring": operations while everything is due (a restart with due
        # timing values at a random point of a "life" behaviour, tasks pumped
        # and normal values restored at a later point; restarts are no-ops
        # of the model, so they can be put anywhere)
        # "tstag": key sets with different next-update times (a restart
        # with a shorter manifest lifetime early in a "roll" behaviour),
        # then a maintenance run under a margin between the two lifetimes:
        # exactly the CAs with a key set (current, staging or old) inside
        # the margin re-issue, all their sets together
        # "held": API operations arriving while the scheduler thread is in
        # the middle of a task (the preceding task step is processed but not
        # finished until after them: StepHold ... Release); sequentially
        # equivalent, so the same specification judges it
        src = {"tduring": "life", "tstag": "roll", "held": "mix"}.get(
            theme, theme)
        got = vlib.generate_behaviours(
            "MC_Krill_gen", f"MC_Krill_gen_{src}.cfg", chk.out, num=num_here,
            depth=150, seed=seed * 31 + i, drop_last=False, timeout=900)
        for b in got:
            # the generator prints at a fixed history length; every
            # behaviour ends with a Settle so that the final state is judged
            # (the printing invariant fires for every successor that reaches
            # the target length: keep one behaviour per simulated trace by
            # cutting all of them at the same point)
            # (deeper hierarchies need longer behaviours)
            cut = {"foreign2": 46, "deep": 46, "autosus": 40}.get(theme, depth)
            acts = b["actions"][:cut - 6] + [{"a": "Settle"}]
            if theme == "tduring":
                rnd = random.Random(seed * 7919 + len(acts) + i)
                first = next((k for k, a in enumerate(acts)
                              if a.get("a") == "Settle"), 0) + 1
                first = min(first, max(0, len(acts) - 4))
                lo = rnd.randrange(first, max(first + 1, len(acts) - 4))
                lo = min(lo, max(0, len(acts) - 3))
                hi = rnd.randrange(min(lo + 2, len(acts)), len(acts) + 1)
                acts = (acts[:lo] + [{"a": "RestartDue"}] + acts[lo:hi]
                        + [{"a": "Pump"}, {"a": "RestartNormal"}] + acts[hi:])
            if theme == "tstag":
                first = next((k for k, a in enumerate(acts)
                              if a.get("a") == "Settle"), 0) + 1
                acts = (acts[:first]
                        + [{"a": "Restart", "timing": SHORT_TIMING}]
                        + acts[first:]
                        + [{"a": "Mark"}, {"a": "RestartMargin"},
                           {"a": "RepublishByMargin",
                            "margin": MARGIN_HOURS * 3600},
                           {"a": "Pump"}, {"a": "RestartNormal"},
                           {"a": "ExpectByMargin",
                            "margin": MARGIN_HOURS * 3600},
                           {"a": "Settle"}])
                # ... and once in the middle of a roll: right after the first
                # activation, when the old key still has its publication
                # point (observed on the CAs' own object stores, nothing is
                # published in between)
                k = next((j for j, a in enumerate(acts)
                          if a.get("a") == "RollActivate" and j > first), None)
                if k is not None:
                    acts = (acts[:k + 1]
                            + [{"a": "Mark"}, {"a": "RestartMargin"},
                               {"a": "RepublishByStoreMargin",
                                "margin": MARGIN_HOURS * 3600},
                               {"a": "ExpectStoreByMargin",
                                "margin": MARGIN_HOURS * 3600},
                               {"a": "RestartNormal"}]
                            + acts[k + 1:])
            if theme == "held":
                rnd = random.Random(seed * 104729 + len(acts) + i)
                out, k = [], 0
                while k < len(acts):
                    a = acts[k]
                    nxt = acts[k + 1] if k + 1 < len(acts) else {}
                    if (a.get("a") == "Step" and a.get("task")
                            and nxt.get("a") not in (None, "Step", "Settle",
                                                     "Restart")
                            and rnd.random() < 0.6):
                        out.append(dict(a, a="StepHold"))
                        k += 1
                        n = 0
                        while (k < len(acts) and n < 2 and acts[k].get("a")
                               not in ("Step", "Settle", "Restart")):
                            out.append(acts[k])
                            k += 1
                            n += 1
                        out.append({"a": "Release"})
                    else:
                        out.append(a)
                        k += 1
                acts = out
            if theme == "autosus":
                # the instance suspends children it has not heard of for a
                # second when the check for inactive children runs
                b["timing"] = {"suspend_child_after_inactive_seconds": 1}
            if theme == "agg":
                # route origins are aggregated per origin AS as soon as a CA
                # has more than one authorisation (so that one update can
                # remove an authorisation and cross the threshold)
                b["agg"] = 1
                b["deagg"] = 1
            b["actions"] = acts
            b["theme"] = theme
            add_timing(b)
        # one behaviour per simulated trace: dedupe on the action list
        seen = set()
        for b in got:
            key = json.dumps(b["actions"], sort_keys=True)
            if key not in seen:
                seen.add(key)
                behaviours.append(b)
    for i, b in enumerate(behaviours):
        b["id"] = i
    return behaviours


KNOWN_DANGLING = "C03-deleted-ca-cert-not-revoked"


def scan_known(chk, trace):
    """States the specification tolerates only because of a recorded
    finding are reported as that finding."""
    for seg in vlib.split_behaviours(trace):
        # (slots of CAs with several parents belong to their CA)
        ca_of = {s: c for s, c in (seg[0].get("slots") or [])}
        for ev in seg:
            if ev.get("ev") != "Settled":
                continue
            a = ev.get("abs", {})
            if ca_of:
                a = dict(a)
                a["exists"] = {c: a["exists"].get(ca_of.get(c, c), False)
                               for c in a.get("exists", {})}
            # a CA with an open certificate request whose parent has nothing
            # to offer: the request stays for ever
            for c, reqs in a.get("req", {}).items():
                if not a.get("exists", {}).get(c):
                    continue
                p = a.get("parent", {}).get(c)
                if p not in a.get("rcv", {}) or not a["exists"].get(p):
                    continue
                offer = set(a.get("ent", {}).get(c, [])) & \
                    set(a["rcv"][p].get("cur", []))
                if [r for r in reqs if r != "rev"] and not offer \
                        and a.get("cstate", {}).get(c) != "none":
                    chk.report(
                        "stuck-request-nothing-offered:Settled",
                        f"CA {c} keeps open requests {reqs} although its "
                        f"parent {p} has nothing to offer",
                        {"driver": "run-ca",
                         "behaviour": behaviour_of(seg)})
            # a certificate the parent withdrew on its own and the child
            # never asks for again
            for c, certs in a.get("rcv", {}).items():
                p = a.get("parent", {}).get(c)
                if not a.get("exists", {}).get(c) or \
                        p not in a.get("rcv", {}) or \
                        not a["exists"].get(p) or \
                        a.get("cstate", {}).get(c) != "active":
                    continue
                offer = set(a.get("ent", {}).get(c, [])) & \
                    set(a["rcv"][p].get("cur", []))
                for x in ("cur", "new"):
                    if certs.get(x) and not a["iss"][c].get(x) \
                            and set(certs[x]) == offer:
                        chk.report(
                            "cert-dropped-by-parent-not-re-requested:Settled",
                            f"CA {c} believes its {x} key holds {certs[x]} "
                            f"but parent {p} issues no certificate for it",
                            {"driver": "run-ca",
                             "behaviour": behaviour_of(seg)})
                    elif certs.get(x) and a["iss"][c].get(x) \
                            and set(certs[x]) == offer \
                            and set(a["iss"][c][x]) != set(certs[x]):
                        chk.report(
                            "cert-shrunk-by-parent-not-re-requested:Settled",
                            f"CA {c} believes its {x} key holds {certs[x]} "
                            f"but parent {p} issues {a['iss'][c][x]} for it "
                            f"and offers {sorted(offer)}; relying party: "
                            f"{ev.get('rp', {}).get('problems')}",
                            {"driver": "run-ca",
                             "behaviour": behaviour_of(seg)})
            for c, ex in a.get("exists", {}).items():
                if ex:
                    continue
                certs = a.get("iss", {}).get(c, {})
                if any(certs.get(x) for x in ("cur", "new", "old")):
                    chk.report(
                        "dangling-cert-of-deleted-ca:Settled",
                        f"parent still publishes a certificate for deleted "
                        f"CA {c}; relying party: "
                        f"{ev.get('rp', {}).get('problems')}",
                        {"driver": "run-ca",
                         "behaviour": behaviour_of(seg)})


def run_and_validate(chk, pid, behaviours, tag):
    trace = vlib.run_harness("run-ca", behaviours, f"{chk.out}/{tag}",
                             timeout=3600)
    validated, rejections, states = vlib.validate_all(
        "KrillTrace", "KrillTrace.cfg", trace, f"{chk.out}/{tag}",
        timeout=3000)
    chk.cov["traces_validated_against_impl"] += validated
    chk.cov["trace_states"] = chk.cov.get("trace_states", 0) + states
    chk.cov["trace_events"] = chk.cov.get("trace_events", 0) + len(trace)
    for seg in vlib.split_behaviours(trace):
        kinds = [e.get("ev") for e in seg]
        nontrivial = ("Settled" in kinds and
                      len({k for k in kinds if k not in
                           ("reset", "Setup", "Step", "Refresh",
                            "Settled")}) >= 2)
        chk.count_case([[e.get("ev"), e.get("task"), e.get("c"),
                         e.get("res"), e.get("r")] for e in seg],
                       nontrivial)
    scan_known(chk, trace)
    for rej in rejections:
        owners = owners_of(rej["violated"])
        owner = owners[0] if owners else None
        if pid in owners:
            owner = pid
        ev = rej["event"] or {}
        beh = behaviour_of(rej["segment"])
        desc = (f"real krill leaves the specification at step {rej['line']} "
                f"({ev.get('ev')} {ev.get('task', '')}): violated="
                f"{rej['violated']} status={ev.get('status')} "
                f"{str(ev.get('msg', ''))[:200]}")
        sig = signature(rej)
        if owner is not None and owner != pid:
            # another property's invariant: it is that property's check
            # that reports it; here it is only noted
            vlib.log(f"(belongs to {owner}) {sig}: {desc}")
            chk.cov.setdefault("other_property_violations", []).append(sig)
            n = len(chk.cov["other_property_violations"])
            with open(f"{vlib.OUT}/replay/other-{pid}-{n}.json", "w") as fh:
                json.dump({"property": owner, "signature": sig,
                           "description": desc,
                           "replay": {"driver": "run-ca", "behaviour": beh,
                                      "line": rej["line"]}}, fh)
            continue
        chk.report(sig, desc, {"driver": "run-ca", "behaviour": beh,
                               "line": rej["line"]})
    return trace, rejections


def self_test(chk, trace):
    """Anti-vacuity: corrupting one recorded fact must lead to rejection."""
    for seg in vlib.split_behaviours(trace):
        for i, ev in enumerate(seg):
            a = ev.get("abs", {})
            pubs = a.get("pub", {})
            target = [c for c, p in pubs.items() if p.get("vrps")]
            if ev.get("ev") == "Step" and target:
                bad = copy.deepcopy(seg[: i + 1])
                # pretend a route origin had vanished from the repository
                bad[i]["abs"]["pub"][target[0]]["vrps"] = []
                v = vlib.validate_trace("KrillTrace", "KrillTrace.cfg", bad,
                                        f"{chk.out}/selftest", tag="mutated")
                if v.accepted:
                    raise vlib.ToolError(
                        "self-test failed: a corrupted trace was accepted")
                chk.cov["selftest"] = (
                    f"trace with a removed route origin rejected at line "
                    f"{v.matched}")
                return
    raise vlib.ToolError("self-test found nothing to corrupt")


def run_property(pid, level, tier, seed, themes, quick_num, thorough_num,
                 assumptions, rule, mc_cfgs=None, needed_events=None,
                 directed=None, theme_nums=None):
    """theme_nums: {theme: (quick, thorough)} for themes whose number of
    behaviours differs from quick_num / thorough_num."""
    chk = vlib.Check(pid, level, tier, seed)
    chk.assumptions = assumptions
    model_runs(chk, tier, cfgs=mc_cfgs)
    num = quick_num if tier == "quick" else thorough_num
    nums = {t: (q if tier == "quick" else th)
            for t, (q, th) in (theme_nums or {}).items()}
    behaviours = generate(chk, themes, num, 30, seed, theme_nums=nums)
    # hand-written behaviours aimed at particular situations
    for d in directed or []:
        b = copy.deepcopy(d)
        b.setdefault("top", ["p1", "p2", "a1"])
        b.setdefault("theme", "directed")
        b["id"] = len(behaviours)
        add_timing(b)
        behaviours.append(b)
    vlib.log(f"{len(behaviours)} generated behaviours ({themes})")
    for b in behaviours[:2]:
        chk.sample({"theme": b.get("theme"), "actions": b["actions"][:25]})
    trace, rej = run_and_validate(chk, pid, behaviours, "gen")
    seen = {e.get("ev") for e in trace}
    missing = [e for e in (needed_events or []) if e not in seen]
    if missing and not chk.violations:
        # (with a violation in hand the verdict is the violation)
        raise vlib.ToolError(f"events never exercised on the code: {missing}")
    if not rej:
        self_test(chk, trace)
    chk.cov["rule"] = rule
    return chk.finish()


def replay(pid, level, path, seed):
    with open(path) as f:
        data = json.load(f)
    chk = vlib.Check(pid, level, "quick", seed)
    run_and_validate(chk, pid, [data["replay"]["behaviour"]], "replay")
    return chk.finish()


COMMON_ASSUMPTIONS = [
    "children that are not hosted by the instance (theme foreign): one "
    "child F under B, two keys, requests list / issue (no limit, or a limit "
    "naming all three resource families) / revoke as signed messages "
    "through CaManager::rfc6492",
    "hierarchy TA <- A <- {B, C, D}, A's holdings fixed; one parent per CA "
    "except in theme multi, where C is a child of B and of A (one resource "
    "class per parent; a CA with two classes has no children); resources are "
    "unions of a few atoms",
    "object identity is abstracted to payloads in Krill.tla; serial-number "
    "level facts (revocation, numbers) are checked on the recorded traces",
    "the relying-party walk uses the rpki crate's validation routines "
    "(trusted base)",
    "background tasks are executed one at a time through the scheduler's "
    "process_task; any due task may be the next",
    "no object expires within a run",
]
