"""C15  Trust-anchor proxy and signer only accept each other's fresh
messages.

Spec: spec/TaExchange.tla (acceptance rules, the four parts of the
property), MC_TaExchange (exhaustive model check incl. model mutants),
MC_TaExchange_gen (behaviour generator: exchanges with an adversary that
replays, cross-wires, modifies and re-signs every message ever sent),
TaExchangeTrace (validation of what the real proxy / signer / children did).
"""
import concurrent.futures
import copy
import json
import os
import re
import time

import vlib

PID = "C15"
LEVEL = "model_checking"
CRATE = "harness-auth"

MUTANTS = {
    # model mutant -> properties one of which must catch it
    "nononce": ("RefusedUnchanged",),
    "noopen": ("RefusedUnchanged",),
    "nosig": ("RefusedUnchanged",),
    "nocontent": ("RefusedUnchanged",),
    "signernosig": ("RefusedUnchanged",),
    "signernocontent": ("RefusedUnchanged",),
    "twoopen": ("RefusedUnchanged", "OneResponsePerRequest"),
    "noclose": ("OneResponsePerRequest",),
    "keepresp": ("DeliveredExactlyOnce",),
    "numreset": ("TaNumbersIncrease",),
    # (with the child whose requests arrive one at a time: a response
    # replaces what still waits for the child)
    "dropresp": ("OneResponsePerRequest",),
}
# mutants that need the configuration with the one-request-at-a-time child
REMOTE_MUTANTS = {"dropresp"}

COVERAGE_RE = re.compile(
    r"^<(\w+) line \d+, col \d+ to line \d+, col \d+ of module \w+"
    r"(?: \([\d ]+\))?>: (\d+):(\d+)", re.M)


def action_coverage(out):
    res = {}
    for m in COVERAGE_RE.finditer(out):
        res[m.group(1)] = int(m.group(3))
    return res


def model_runs(chk, tier):
    jobs = [("main", "MC_TaExchange.cfg", 3, 900, True),
            ("remote", "MC_TaExchange_remote.cfg", 3, 900, True)]
    if tier == "thorough":
        jobs.append(("big", "MC_TaExchange_big.cfg", 6, 2400, False))
    for mutant in MUTANTS:
        cfg = f"MC_TaExchange_mut_{mutant}.cfg"
        base = ("MC_TaExchange_remote.cfg" if mutant in REMOTE_MUTANTS
                else "MC_TaExchange.cfg")
        with open(os.path.join(vlib.SPEC, base)) as f:
            text = f.read().replace('Mutant = "none"',
                                    f'Mutant = "{mutant}"')
        path = os.path.join(chk.out, cfg)
        with open(path, "w") as f:
            f.write(text)
        jobs.append((mutant, os.path.relpath(path, vlib.SPEC), 1, 900,
                     False))

    def run_job(job):
        name, cfg, workers, timeout, coverage = job
        return job, vlib.run_tlc(
            "MC_TaExchange", cfg, os.path.join(chk.out, "tlc_" + name),
            workers=workers, timeout=timeout, coverage=coverage)

    caught = {}
    # at most 12 TLC workers at a time
    with concurrent.futures.ThreadPoolExecutor(
            max_workers=6 if tier == "thorough" else 9) as pool:
        results = list(pool.map(run_job, jobs))
    for (name, cfg, _, _, _), res in results:
        if name in MUTANTS:
            if res.violated not in MUTANTS[name]:
                print(res.out[-3000:])
                raise vlib.ToolError(
                    f"model mutant {name} was expected to violate "
                    f"{MUTANTS[name]}, TLC reported {res.violated}")
            caught[name] = res.violated
            continue
        chk.add_tlc(cfg, res)
        for action, taken in action_coverage(res.out).items():
            chk.cov["actions_covered"][action] = max(
                chk.cov["actions_covered"].get(action, 0), taken)
        if res.violated or res.errors:
            print(res.counterexample()[:3000])
            raise vlib.ToolError(
                f"model {cfg} violates {res.violated}: specification and "
                f"properties disagree (not a finding on the code)")
        vlib.log(f"TLC {cfg}: {res.distinct} distinct states, "
                 f"{res.generated} transitions checked, no violation")
    needed = ["MCSign", "MCResp", "MCMakeReq", "MCGetReq", "MCOther",
              "MCReassoc", "MCSync", "MCWants", "MCRemote"]
    missing = [a for a in needed
               if chk.cov["actions_covered"].get(a, 0) == 0]
    if missing:
        raise vlib.ToolError(f"actions never taken in the model: {missing}")
    chk.cov["model_mutants_caught"] = caught


# --------------------------------------------------------------------------

def signature(rej):
    ev = rej["event"] or {}
    what = ev.get("ev")
    if what in ("Sign", "Resp"):
        what += f":{ev.get('v')}"
        eff = ev.get("eff") or {}
        what += f":by={eff.get('by')}"
        if ev.get("ev") == "Resp":
            pre = None
            seg, line = rej["segment"], rej["line"]
            if 0 < line < len(seg):
                pre = seg[line - 1].get("st")
            if pre is not None:
                if pre.get("open") == 0:
                    what += ":none-open"
                elif eff.get("nonce") == pre.get("open"):
                    what += ":open-nonce"
                else:
                    what += ":other-nonce"
    return (f"{rej['violated'] or 'no-action-matches'}:{what}:"
            f"{ev.get('res')}")


def behaviour_of(segment):
    acts = []
    for ev in segment[1:]:
        a = {k: v for k, v in ev.items()
             if k in ("c", "s", "i", "v", "k")}
        a["a"] = ev["ev"]
        acts.append(a)
    return {"id": segment[0].get("behaviour", 0), "actions": acts}


def run_and_validate(chk, behaviours, tag):
    t0 = time.time()
    trace = vlib.run_harness(
        "run-ta", behaviours, f"{chk.out}/{tag}", crate=CRATE,
        timeout=3000, shards=min(14, max(1, len(behaviours) // 2)))
    vlib.log(f"harness executed {len(behaviours)} behaviours in "
             f"{time.time() - t0:.0f}s, {len(trace)} trace lines")
    segs = vlib.split_behaviours(trace)
    chunks, chunk, size = [], [], 0
    for seg in segs:
        chunk.append(seg)
        size += len(seg)
        if size > 15000:
            chunks.append(chunk)
            chunk, size = [], 0
    if chunk:
        chunks.append(chunk)

    def validate(item):
        ci, chunk = item
        flat = [ev for seg in chunk for ev in seg]
        return vlib.validate_all(
            "TaExchangeTrace", "TaExchangeTrace.cfg", flat,
            f"{chk.out}/{tag}/val{ci}")

    rejections = []
    with concurrent.futures.ThreadPoolExecutor(max_workers=4) as pool:
        for v, rej, states in pool.map(validate, enumerate(chunks)):
            chk.cov["traces_validated_against_impl"] += v
            chk.cov["trace_states"] = chk.cov.get("trace_states", 0) + states
            rejections.extend(rej)
    for rej in rejections:
        ev = rej["event"] or {}
        chk.report(
            signature(rej),
            f"real TA exchange leaves the specification at step "
            f"{rej['line']} of behaviour "
            f"{rej['segment'][0].get('behaviour')} ({ev.get('ev')} "
            f"v={ev.get('v')} eff={ev.get('eff')}): violated="
            f"{rej['violated']} res={ev.get('res')} chg={ev.get('chg')} "
            f"refused={ev.get('refused')}",
            {"driver": "run-ta", "behaviour": behaviour_of(rej["segment"]),
             "trace": rej["segment"], "line": rej["line"]})
    return trace, segs, rejections


def account(chk, segs):
    st = chk.cov.setdefault("c15", {
        "proxy_accepted": 0, "proxy_refused": {}, "signer_accepted": 0,
        "signer_refused": {}, "signer_declined_authentic": 0,
        "signer_replays_processed": 0, "make_request_refused_open": 0,
        "deliveries": 0, "reassociations": 0, "other_signer_responses": 0,
        "skipped_actions": 0, "max_ta_number": 0})
    for seg in segs:
        beh = behaviour_of(seg)
        kinds = {a["a"] for a in beh["actions"]}
        adversarial = any(a.get("v", "orig") != "orig" or a.get("s") == "S2"
                          for a in beh["actions"])
        chk.count_case(beh["actions"],
                       {"Sign", "Resp"} <= kinds and adversarial)
        prev = seg[0]["st"]
        seen_nonces = set()
        for ev in seg[1:]:
            cur = ev["st"]
            e = ev["ev"]
            if ev.get("res") == "skip":
                st["skipped_actions"] += 1
                continue
            eff = ev.get("eff") or {}
            cls = f"{ev.get('v')}:by={eff.get('by')}"
            if e == "Resp":
                if ev["res"] == "ok":
                    st["proxy_accepted"] += 1
                else:
                    if prev["open"] == 0:
                        cls += ":none-open"
                    elif eff.get("nonce") != prev["open"]:
                        cls += ":other-nonce"
                    st["proxy_refused"][cls] = \
                        st["proxy_refused"].get(cls, 0) + 1
                if eff.get("by") == "g2":
                    st["other_signer_responses"] += 1
            elif e == "Sign":
                if ev["res"] == "ok":
                    st["signer_accepted"] += 1
                    key = (ev["s"], eff.get("nonce"))
                    if key in seen_nonces:
                        st["signer_replays_processed"] += 1
                    seen_nonces.add(key)
                elif ev.get("v") == "orig" and eff.get("by") == "pA":
                    st["signer_declined_authentic"] += 1
                else:
                    st["signer_refused"][cls] = \
                        st["signer_refused"].get(cls, 0) + 1
            elif e == "MakeReq" and ev["res"] != "ok":
                st["make_request_refused_open"] += 1
            elif e == "SyncOne":
                st["remote_requests"] = st.get("remote_requests", 0) + 1
                if prev is not None and len(
                        prev.get("resp", {}).get("rc", [])) >= 2:
                    st["remote_two_responses_waiting"] = st.get(
                        "remote_two_responses_waiting", 0) + 1
            elif e == "Sync":
                for c in ("ca1", "ca2"):
                    st["deliveries"] += len(
                        set(prev["resp"][c]) - set(cur["resp"][c]))
            elif e == "Reassoc" and ev["res"] == "ok":
                st["reassociations"] += 1
            st["max_ta_number"] = max(st["max_ta_number"], cur["rnum"][0])
            prev = cur
    return st


def require_exercised(st):
    problems = []
    if st["proxy_accepted"] < 20:
        problems.append("fewer than 20 responses accepted by the proxy")
    if st["signer_accepted"] < 20:
        problems.append("fewer than 20 requests processed by a signer")
    if st["deliveries"] < 10:
        problems.append("fewer than 10 responses handed to a child")
    if st["reassociations"] < 1:
        problems.append("no signer re-initialisation")
    if st["other_signer_responses"] < 1:
        problems.append("no response of the other signer instance")
    if st.get("remote_two_responses_waiting", 0) < 1:
        problems.append("never two responses waiting for the child whose "
                        "requests arrive one at a time")
    if st["make_request_refused_open"] < 1:
        problems.append("no second request while one is open")
    need_proxy = ["orig:by=g1:none-open", "orig:by=g1:other-nonce",
                  "tnonce:by=g1", "tcontent:by=g1", "rsrand:by=kr",
                  "rsproxy:by=pA", "orig:by=g2"]
    for n in need_proxy:
        if not any(k.startswith(n) for k in st["proxy_refused"]):
            problems.append(f"proxy never refused a response of class {n}")
    need_signer = ["orig:by=pB", "tcontent:by=pA", "tnonce:by=pA",
                   "rsrand:by=kr"]
    for n in need_signer:
        if not any(k.startswith(n) for k in st["signer_refused"]):
            problems.append(f"signer never refused a request of class {n}")
    if problems:
        raise vlib.ToolError("property not exercised: " + "; ".join(problems))


def self_test(chk, segs):
    """Anti-vacuity: corrupted accepted traces must be rejected."""
    done = {}
    for seg in segs:
        for i, ev in enumerate(seg):
            if i == 0 or ev.get("res") == "skip":
                continue
            if "stale-accepted" not in done and ev["ev"] == "Resp" \
                    and ev["res"] == "err" and ev.get("v") == "orig" \
                    and (ev.get("eff") or {}).get("by") == "g1" \
                    and seg[i - 1]["st"]["open"] not in (
                        0, (ev.get("eff") or {}).get("nonce")):
                # a stale response claimed to have been accepted
                bad = copy.deepcopy(seg[:i + 1])
                bad[i]["res"] = "ok"
                bad[i].pop("refused", None)
                done["stale-accepted"] = (bad, ("RefusedUnchanged",))
            if "refused-but-changed" not in done and ev["ev"] == "Resp" \
                    and ev["res"] == "err":
                bad = copy.deepcopy(seg[:i + 1])
                bad[i]["st"]["pnum"] = [bad[i]["st"]["pnum"][0] + 1,
                                        bad[i]["st"]["pnum"][1] + 1]
                done["refused-but-changed"] = (
                    bad, ("RefusedUnchanged", "OneResponsePerRequest",
                          "TaNumbersIncrease"))
            if "number-back" not in done and ev["ev"] == "Resp" \
                    and ev["res"] == "ok":
                bad = copy.deepcopy(seg[:i + 1])
                bad[i]["st"]["pnum"] = [1, 1]
                bad[i]["st"]["rnum"] = [1, 1]
                done["number-back"] = (
                    bad, ("TaNumbersIncrease", "OneResponsePerRequest"))
            if "kept-response" not in done and ev["ev"] == "Sync" and any(
                    set(seg[i - 1]["st"]["resp"][c]) - set(ev["st"]["resp"][c])
                    for c in ("ca1", "ca2")):
                # the response stays with the proxy although it was given
                bad = copy.deepcopy(seg[:i + 1])
                bad[i]["st"]["resp"] = copy.deepcopy(seg[i - 1]["st"]["resp"])
                done["kept-response"] = (bad, ("DeliveredExactlyOnce",))
            if "foreign-signer" not in done and ev["ev"] == "Sign" \
                    and ev["res"] == "ok":
                # a request of another proxy claimed to have been processed
                bad = copy.deepcopy(seg[:i + 1])
                bad[i]["eff"]["by"] = "pB"
                done["foreign-signer"] = (
                    bad, ("RefusedUnchanged", "OneResponsePerRequest"))
        if len(done) == 5:
            break
    if len(done) < 5:
        raise vlib.ToolError(
            f"self-test could not find events to corrupt: {sorted(done)}")
    result = {}
    for name, (bad, props) in done.items():
        v = vlib.validate_trace("TaExchangeTrace", "TaExchangeTrace.cfg",
                                bad, f"{chk.out}/selftest", tag=name)
        if v.accepted or v.violated not in props:
            raise vlib.ToolError(
                f"self-test {name}: corrupted trace accepted or wrong "
                f"property ({v.violated} instead of {props})")
        result[name] = f"rejected by {v.violated}"
    chk.cov["selftest"] = result


ASSUMPTIONS = [
    "RSA/CMS signature strength is assumed; the adversary replays, "
    "re-orders, cross-wires, modifies clear text and signs with keys it "
    "holds (a fresh key, the proxy's own key), it does not forge signatures",
    "the signer is the offline signer of krillta "
    "(krill::cli::ta::signer::TrustAnchorSignerManager); the embedded "
    "signer runs the same TrustAnchorSigner aggregate",
    "TA children are local krill CAs (krill refuses remote RFC 6492 to the "
    "TA); their requests come from real first certification, key roll "
    "initiation and activation",
    "a request that the signer has processed before may be processed again "
    "(the statement only demands a valid signature of the associated "
    "proxy); counted as signer_replays_processed",
    "signer re-initialisation = new signer with the same TA key and a new "
    "identity, initial manifest number set by the operator to continue "
    "the numbering, followed by `proxy signer update`; the manifest-number "
    "override of the signer CLI is not exercised otherwise; krill records "
    "refused commands in its audit trail (version counter), which is not "
    "counted as a change",
]


def _a(n, **kw):
    d = {"a": n}
    d.update(kw)
    return d


REMOTE_DIRECTED = [
    _a("RWants", c="rc", r="i:ka"), _a("SyncOne", c="rc", r="i:ka"),
    _a("MakeReq"), _a("Sign", s="S1", i=1, v="orig", k=1),
    _a("Resp", i=2, v="orig", k=1),
    _a("RWants", c="rc", r="i:kb"), _a("SyncOne", c="rc", r="i:kb"),
    _a("MakeReq"), _a("Sign", s="S1", i=3, v="orig", k=1),
    _a("Resp", i=4, v="orig", k=1),
    _a("SyncOne", c="rc", r="i:kb"), _a("SyncOne", c="rc", r="i:ka"),
    _a("RWants", c="rc", r="r:ka"), _a("SyncOne", c="rc", r="r:ka"),
    _a("SyncOne", c="rc", r="r:ka"),
    _a("MakeReq"), _a("Sign", s="S1", i=5, v="orig", k=1),
    _a("Resp", i=6, v="orig", k=1), _a("SyncOne", c="rc", r="r:ka"),
]


def run(tier, seed):
    chk = vlib.Check(PID, LEVEL, tier, seed)
    chk.assumptions = ASSUMPTIONS
    model_runs(chk, tier)
    vlib.log(f"model phase done at {time.time() - chk.t0:.0f}s")
    num = 250 if tier == "quick" else 2500
    behaviours = vlib.generate_behaviours(
        "MC_TaExchange_gen", "MC_TaExchange_gen.cfg", chk.out, num=num,
        depth=40, seed=seed, timeout=900)
    short = vlib.exhaustive_behaviours(
        "MC_TaExchange_gen", "MC_TaExchange_gen_bfs.cfg", chk.out,
        timeout=900)
    chk.cov["exhaustive_short_generated"] = len(short)
    chk.rng.shuffle(short)
    short = short[:300] if tier == "quick" else short[:7000]
    # the child whose requests reach the proxy one at a time (a response
    # can still wait for it while another of its requests is answered):
    # generated behaviours and one directed one
    remote = vlib.generate_behaviours(
        "MC_TaExchange_gen", "MC_TaExchange_gen_remote.cfg", chk.out,
        num=60 if tier == "quick" else 600, depth=36, seed=seed + 17,
        timeout=900)
    remote.append({"actions": REMOTE_DIRECTED})
    chk.cov["remote_child_behaviours"] = len(remote)
    behaviours = behaviours + remote
    for i, b in enumerate(behaviours + short):
        b["id"] = i
        b["keyoff"] = (seed * 211) % 1400
    vlib.log(f"{len(behaviours)} simulated + {len(short)} exhaustive-short "
             f"behaviours")
    for b in behaviours[:2]:
        chk.sample(b)
    trace, segs, rej = run_and_validate(chk, behaviours + short, "exchange")
    st = account(chk, segs)
    vlib.log(f"C15 stats: {json.dumps(st)[:900]}")
    try:
        require_exercised(st)
        self_test(chk, segs)
    except vlib.ToolError as e:
        # with violations on the table they are the result of the run
        if not chk.violations:
            raise
        vlib.log(f"anti-vacuity step not completed after violations: {e}")
    # exhaustive: the TLC model check; the behaviours executed on the real
    # code are a seeded sample (simulation) plus all/sampled short ones
    chk.cov["exhaustive"] = True
    chk.cov["conformance"] = "sampled behaviours (see rule)"
    chk.cov["rule"] = (
        "behaviours = TLC simulation of MC_TaExchange_gen (depth 40: child "
        "requests of two children incl. key rolls, proxy requests, two "
        "signer instances, another proxy, signer re-initialisation, and an "
        "adversary presenting every message ever sent as it is, with a "
        "changed nonce, changed content, the clear text of another "
        "message, or signed by other keys) plus all behaviours of depth 6 "
        "of a small configuration; each is executed on the real proxy, "
        "signer and child CAs and validated by TLC against "
        "TaExchangeTrace; distinct = distinct action sequences; "
        "non-trivial = contains a signer run, a response and at least one "
        "adversarial message")
    return chk.finish()


def replay(path, seed):
    with open(path) as f:
        data = json.load(f)
    chk = vlib.Check(PID, LEVEL, "replay", seed)
    run_and_validate(chk, [data["replay"]["behaviour"]], "replay")
    return chk.finish()
