"""C17  ROA analysis agrees with RFC 6811 origin validation.

Spec: spec/Rov.tla (RFC 6811 validity over an abstract prefix tree, per-ROA
authorises/disallows sets, suggestion safety, sanity theorems),
MC_Rov_gen (TLC enumerates the universe of cases and checks the theorems on
each), RovTrace (TLC judges what the real BgpAnalyser reported for each case).
Harness: `kv-vec rov` (harness-vec/src/rov.rs).
"""
import concurrent.futures
import json
import os
import re
import subprocess
import time

import vlib

PID = "C17"
LEVEL = "model_checking"
CRATE = "harness-vec"

# universe name -> (depth, one case in n for the quick tier, description)
UNIVERSES = {
    "v0": (2, 5, "prefixes of length <= 1: <=3 ROAs x <=3 announcements"),
    "v2": (2, 12, "depth 2: <=2 ROAs x <=2 announcements"),
    "v1": (2, 60, "depth 2: <=3 ROAs x <=1 announcement"),
    "v3": (3, 45, "depth 3: <=2 ROAs x <=1 announcement"),
    "t": (4, 30, "depth 4: <=4 announcements of one origin x {no ROA, "
                 "root ROA with max length 3} (prefix tree shapes)"),
    "t2": (3, 4, "depth 3: <=3 announcements of two origins x {no ROA, "
                 "root ROA with max length 2}"),
}
# many single-worker TLC processes run side by side: keep each JVM small
JOPTS = ("-Xss256m -Xmx3g -XX:ParallelGCThreads=2 -XX:CICompilerCount=2 "
         "-Dtlc2.tool.queue.IStateQueue=StateDeque")
CHUNK = 12000           # cases per harness/TLC shard
KINDS = ["valid", "invalid_length", "invalid_asn", "disallowed", "not_found",
         "roa_authorizes", "roa_disallows", "sugg_removes"]


def gen_cfg(chk, name, mod, seed):
    """Derives the generator config of a universe (sampling constants)."""
    with open(os.path.join(vlib.SPEC, f"MC_Rov_gen_{name}.cfg")) as f:
        text = f.read()
    text = re.sub(r"SampleMod = \d+", f"SampleMod = {mod}", text)
    text = re.sub(r"SampleSeed = \d+", f"SampleSeed = {seed}", text)
    path = os.path.join(chk.out, f"MC_Rov_gen_{name}.cfg")
    with open(path, "w") as f:
        f.write(text)
    return path


def generate(chk, name, mod, seed):
    """TLC enumerates the cases of one universe; returns (cases, restr)."""
    cfg = gen_cfg(chk, name, mod, seed)
    res = vlib.run_tlc("MC_Rov_gen", cfg, os.path.join(chk.out, "gen_" + name),
                       workers=12, timeout=2400)
    chk.add_tlc(f"MC_Rov_gen_{name}" + ("" if mod == 1 else f" 1/{mod}"), res)
    if res.violated or res.errors or not res.ok():
        print(res.counterexample()[:3000])
        raise vlib.ToolError(
            f"generator {name}: a sanity theorem of Rov.tla fails or TLC "
            f"reported an error ({res.violated}) - the specification is "
            f"inconsistent (not a finding on the code)")
    cases = vlib.parse_replays(res.out)
    m = re.search(r'^<<"RESTRICTIONS", (".*")>>\s*$', res.out, re.M)
    if not m:
        raise vlib.ToolError("generator did not print the restriction table")
    restr = json.loads(json.loads(m.group(1)))
    for i, c in enumerate(cases):
        c["id"] = f"{name}-{i}"
    vlib.log(f"TLC generated {len(cases)} cases of universe {name} "
             f"({res.distinct} states)")
    return cases, restr


def run_shards(chk, name, depth, cases, restr, emb=None):
    """Runs the harness over the cases in shards; returns the trace files."""
    work = os.path.join(chk.out, "run_" + name)
    os.makedirs(work, exist_ok=True)
    restr_path = os.path.join(work, "restrictions.json")
    with open(restr_path, "w") as f:
        json.dump(restr, f)
    # every shard costs a TLC start-up later: at least 2500 cases each,
    # at most CHUNK
    nshards = max(1, (len(cases) + CHUNK - 1) // CHUNK,
                  min(vlib.NCPU, 16, len(cases) // 2500))
    jobs = []
    for i in range(nshards):
        part = cases[i::nshards]
        if not part:
            continue
        inp = os.path.join(work, f"cases_{i}.ndjson")
        outp = os.path.join(work, f"trace_{i}.ndjson")
        vlib.write_ndjson(inp, part)
        cmd = [vlib.harness_bin(CRATE), "rov", "--in", inp, "--out", outp,
               "--work", os.path.join(work, f"work_{i}"),
               "--restr", restr_path, "--depth", str(depth)]
        if emb:
            cmd += ["--emb", emb]
        jobs.append((cmd, outp, os.path.join(work, f"harness_{i}.log")))

    def one(job):
        cmd, outp, logp = job
        with open(logp, "w") as logf:
            rc = subprocess.run(cmd, stdout=logf, stderr=logf,
                                timeout=3600).returncode
        return rc, outp, logp

    traces = []
    with concurrent.futures.ThreadPoolExecutor(vlib.NCPU) as ex:
        for rc, outp, logp in ex.map(one, jobs):
            if rc != 0:
                with open(logp) as f:
                    print(f.read()[-3000:])
                raise vlib.ToolError(f"harness rov exited with {rc}")
            traces.append(outp)
    return traces


MISMATCH_RE = re.compile(r'^<<"MISMATCH", (\d+), (".*")>>\s*$', re.M)
SUMMARY_RE = re.compile(r'^<<"SUMMARY", (\d+), (\d+), (".*")>>\s*$', re.M)


def validate_shard(args):
    """TLC judges one trace file; returns (lines, mismatches, counters)."""
    depth, path = args
    workdir = path + ".tlc"
    res = vlib.run_tlc("RovTrace", f"RovTrace_d{depth}.cfg", workdir,
                       workers=1, timeout=3000,
                       env_extra={"TRACE": path, "JAVA_TOOL_OPTIONS": JOPTS})
    if res.violated or res.errors or res.postcondition_failed \
            or not res.finished:
        print(res.out[-3000:])
        raise vlib.ToolError(f"trace validation failed on {path}")
    m = SUMMARY_RE.search(res.out)
    if not m:
        if os.path.getsize(path) == 0:
            return 0, [], {}, res
        print(res.out[-3000:])
        raise vlib.ToolError(f"trace validation printed no summary: {path}")
    lines = int(m.group(1))
    counters = json.loads(json.loads(m.group(3)))
    mism = [(int(x.group(1)), json.loads(json.loads(x.group(2))))
            for x in MISMATCH_RE.finditer(res.out)]
    if len(mism) != int(m.group(2)):
        raise vlib.ToolError("mismatch lines and summary disagree")
    return lines, mism, counters, res


def signature(failure):
    """failure = [restriction, clause, details...] -> stable signature."""
    return ":".join(str(x).lower() if isinstance(x, bool) else str(x)
                    for x in failure[1:])


def validate(chk, name, depth, traces, found, counters):
    """Validates all trace files of a universe (parallel TLC runs)."""
    total = 0
    with concurrent.futures.ThreadPoolExecutor(12) as ex:
        results = list(ex.map(validate_shard, [(depth, t) for t in traces]))
    for path, (lines, mism, cnt, res) in zip(traces, results):
        total += lines
        chk.cov["trace_states"] = chk.cov.get("trace_states", 0) \
            + res.distinct
        for k, v in cnt.items():
            counters[k] = counters.get(k, 0) + v
        if not mism:
            continue
        wanted = {l for l, _ in mism}
        got = {}
        with open(path) as f:
            for n, text in enumerate(f, 1):
                if n in wanted:
                    got[n] = json.loads(text)
        for l, failures in mism:
            ln = got[l]
            for fl in failures:
                sig = signature(fl)
                ent = found.setdefault(sig, {"count": 0, "examples": []})
                ent["count"] += 1
                size = len(ln["roas"]) + len(ln["anns"])
                if len(ent["examples"]) < 3 or size < ent["examples"][-1][0]:
                    ent["examples"].append((size, name, depth, fl, ln))
                    ent["examples"].sort(key=lambda e: e[0])
                    del ent["examples"][3:]
    chk.cov["traces_validated_against_impl"] += total
    return total


def describe(sig, fl, ln):
    obs = ln["obs"].get(fl[0], {})
    return (f"BgpAnalyser report disagrees with Rov.tla: clause {sig} under "
            f"restriction {fl[0]} (embedding {ln['emb']}): ROAs "
            f"{json.dumps(ln['roas'])} announcements "
            f"{json.dumps(ln['anns'])}; observed announcements "
            f"{json.dumps(obs.get('anns'))} observed ROAs "
            f"{json.dumps(obs.get('roas'))}")


def report_all(chk, found):
    for sig in sorted(found):
        ent = found[sig]
        size, name, depth, fl, ln = ent["examples"][0]
        chk.report(
            sig, describe(sig, fl, ln) + f" [{ent['count']} lines]",
            {"driver": "rov", "universe": name, "depth": depth,
             "case": {"id": ln["id"], "roas": ln["roas"],
                      "anns": ln["anns"]},
             "restriction": fl[0], "failure": fl, "embeddings": ln["emb"],
             "observed": ln["obs"].get(fl[0]),
             "more": [{"roas": e[4]["roas"], "anns": e[4]["anns"],
                       "restriction": e[3][0], "embeddings": e[4]["emb"]}
                      for e in ent["examples"][1:]]})
    chk.cov["mismatch_signatures"] = {s: found[s]["count"] for s in found}


def self_test(chk, depth, trace_path):
    """Anti-vacuity: corrupted observations must be rejected by TLC."""
    lines = []
    with open(trace_path) as f:
        for text in f:
            lines.append(json.loads(text))
            if len(lines) >= 4000:
                break
    bad = []
    wanted = set()

    def mutate(kind, ln, r):
        import copy
        m = copy.deepcopy(ln)
        o = m["obs"][r]
        if kind == "state":
            for a in o["anns"]:
                if a["st"] == "valid":
                    a["st"] = "not_found"
                    return m
        if kind == "auth":
            for e in o["roas"]:
                if e["auth"]:
                    e["auth"] = e["auth"][1:]
                    return m
        if kind == "dis":
            for e in o["roas"]:
                if e["dis"] and e["st"] != "roa_as0":
                    e["dis"] = []
                    return m
        if kind == "drop":
            if o["anns"]:
                o["anns"] = o["anns"][1:]
                return m
        if kind == "stale":
            for e in o["roas"]:
                if e["auth"] and not o["sugg"]["removed"]:
                    roa = {"p": e["p"], "ml": e["ml"], "asn": e["asn"]}
                    o["sugg"]["stale"] = [roa]
                    o["sugg"]["removed"] = [roa]
                    return m
        return None

    for kind in ("state", "auth", "dis", "drop", "stale"):
        for ln in lines:
            m = mutate(kind, ln, "r1") if ln["obs"]["r1"].get("panic") == "" \
                else None
            if m:
                bad.append(m)
                wanted.add(kind)
                break
    if len(wanted) < 5:
        raise vlib.ToolError(f"self-test: no line to corrupt for "
                             f"{ {'state','auth','dis','drop','stale'} - wanted}")
    path = os.path.join(chk.out, "selftest.ndjson")
    vlib.write_ndjson(path, bad)
    n, mism, _, _ = validate_shard((depth, path))
    rejected = {l for l, _ in mism}
    if rejected != set(range(1, len(bad) + 1)):
        raise vlib.ToolError(
            f"self-test failed: corrupted observations were accepted "
            f"(rejected lines {sorted(rejected)} of {len(bad)})")
    chk.cov["selftest"] = (f"{len(bad)} corrupted observations (state, "
                           f"authorises, disallows, dropped announcement, "
                           f"validating ROA suggested as stale) all rejected")


def run(tier, seed):
    chk = vlib.Check(PID, LEVEL, tier, seed)
    chk.assumptions = [
        "announcements never have origin AS 0 (RFC 7607); ROAs have a valid "
        "maximum length (as the CA's configuration guarantees)",
        "a configured ROA whose prefix the CA does not hold produces no VRP "
        "(krill reports it as not held); validation is against the VRPs of "
        "all held configured ROAs, also when the report is limited to a scope",
        "report entries of states that carry no announcement sets by "
        "construction (roa_as0_redundant, roa_not_held) are not compared",
        "suggestions: ROAs in the pure removal lists (stale, as0_redundant, "
        "disallowing) must not validate anything; for replacing lists "
        "(too_permissive, redundant) the net effect of the suggested update "
        "must keep every valid announcement valid",
        "the abstract tree is embedded at 8 concrete places (IPv4/IPv6, "
        "roots /0, /8, /11, /12, /32, leaves down to /32 and /128); "
        "the embedding and its inverse are trusted",
    ]
    found = {}
    counters = {}
    names = ["v0", "v2", "t2", "v1", "v3", "t"]
    first_trace = None
    ncases = 0
    for name in names:
        depth, frac, text = UNIVERSES[name]
        mod = 1 if tier == "thorough" else frac
        t0 = time.time()
        cases, restr = generate(chk, name, mod, seed)
        if not cases:
            raise vlib.ToolError(f"universe {name}: no cases generated")
        for c in cases[:1]:
            chk.sample({"universe": name, **c})
        for c in cases:
            chk.count_case([c["roas"], c["anns"]],
                           bool(c["roas"]) and bool(c["anns"]))
        ncases += len(cases)
        t1 = time.time()
        traces = run_shards(chk, name, depth, cases, restr)
        t2 = time.time()
        del cases
        lines = validate(chk, name, depth, traces, found, counters)
        vlib.log(f"universe {name}: {lines} report lines judged by TLC "
                 f"(gen {t1 - t0:.0f}s, harness {t2 - t1:.0f}s, "
                 f"validation {time.time() - t2:.0f}s)")
        if first_trace is None:
            first_trace = (depth, traces[0])
        else:
            for t in traces:
                os.remove(t)
    chk.cov["evaluations"] = ncases * len(restr)
    chk.cov["cases"] = ncases
    chk.cov["exercised"] = counters
    missing = [k for k in KINDS if counters.get(k, 0) == 0]
    if missing:
        raise vlib.ToolError(f"never exercised: {missing}")
    self_test(chk, *first_trace)
    report_all(chk, found)
    chk.cov["exhaustive"] = tier == "thorough"
    chk.cov["rule"] = (
        "cases = every (ROA set, announcement set) of the universes "
        + "; ".join(f"{n}: {UNIVERSES[n][2]}" for n in names)
        + " (ROA = prefix x max length in {len..depth, family max} x AS in "
          "{0,1,2}), enumerated by TLC"
        + (" completely" if tier == "thorough" else
           " and sampled by a seeded content hash (one in "
           + ", ".join(f"{n}:{UNIVERSES[n][1]}" for n in names) + ")")
        + "; each case is analysed under 7 held-resource/scope "
          "restrictions at 8 concrete embeddings; evaluations = cases x "
          "restrictions; every observed report is judged by TLC against "
          "Rov.tla; distinct = distinct cases; non-trivial = at least one "
          "ROA and one announcement")
    return chk.finish()


def replay(path, seed):
    with open(path) as f:
        data = json.load(f)
    rp = data["replay"]
    chk = vlib.Check(PID, LEVEL, "quick", seed)
    name, depth = rp["universe"], rp["depth"]
    cfg = gen_cfg(chk, name, 1000003, 0)     # tiny run: restriction table
    res = vlib.run_tlc("MC_Rov_gen", cfg, os.path.join(chk.out, "gen"),
                       workers=4, timeout=600)
    m = re.search(r'^<<"RESTRICTIONS", (".*")>>\s*$', res.out, re.M)
    restr = json.loads(json.loads(m.group(1)))
    case = dict(rp["case"])
    found = {}
    traces = run_shards(chk, name, depth, [case], restr)
    validate(chk, name, depth, traces, found, {})
    chk.count_case(case)
    report_all(chk, found)
    return chk.finish()
