"""C01 -- decided with spec/Krill.tla + KrillTrace.tla (see krill_common.py)."""
from checks import krill_common as kc

PID = "C01"
LEVEL = "model_checking"
THEMES = "chain,roll,life,agg,aspa,multi,mix".split(",")
NEEDED = "Settled,RoaAdd,ChildRes".split(",")

RULE = (
    "behaviours = TLC simulation of MC_Krill_gen (themes " + ", ".join(THEMES)
    + "): API operations interleaved with single named background tasks and "
    "Settle points; each is executed on a real in-process Krill (TA proxy "
    "and signer, CAs, publication server, task queue); after every event "
    "the state projected onto the variables of Krill.tla, the serial-number "
    "level facts per key and a relying-party walk are recorded, and TLC "
    "validates the whole trace against KrillTrace.tla; distinct = distinct "
    "event sequences; non-trivial = reaches a settled state after at least "
    "two kinds of API operations")


def _a(a, **kw):
    d = {"a": a}
    d.update(kw)
    return d


# the switch between one object per authorisation and one per origin AS,
# crossed by updates that add and remove at once (aggregation above one
# authorisation, so that three authorisations suffice)
DIRECTED = [
    {"agg": 1, "deagg": 1, "actions": [
        _a("AddCa", c="B", p="A", res=["p1", "p2"]), _a("Settle"),
        _a("RoaAdd", c="B", r=["p1", "a1"]), _a("Settle"),
        _a("RoaDelta", c="B", add=["p2|a1", "p2|a2"], **{"del": ["p1|a1"]}),
        _a("Settle"),
        _a("RoaDelta", c="B", add=["p1|a1"], **{"del": ["p2|a1", "p2|a2"]}),
        _a("Settle"), _a("RoaDel", c="B", r=["p1", "a1"]), _a("Settle")]},
    {"agg": 1, "deagg": 2, "actions": [
        _a("AddCa", c="B", p="A", res=["p1", "p2"]), _a("Settle"),
        _a("RoaDelta", c="B", add=["p1|a1", "p2|a1"], **{"del": []}),
        _a("Settle"),
        _a("RoaDelta", c="B", add=["p2|a2"], **{"del": ["p1|a1"]}),
        _a("Settle"),
        _a("RoaDelta", c="B", add=[], **{"del": ["p2|a1", "p2|a2"]}),
        _a("Settle"), _a("RoaAdd", c="B", r=["p1", "a1"]), _a("Settle")]},
]


def run(tier, seed):
    return kc.run_property(
        PID, LEVEL, tier, seed, THEMES,
        quick_num=6 if len(THEMES) > 1 else 24, thorough_num=250,
        assumptions=kc.COMMON_ASSUMPTIONS, rule=RULE, needed_events=NEEDED,
        directed=(DIRECTED + kc.MULTI_DIRECTED
                  + kc.clause("aspa-rtr-shrink-regain", "roa-replaced",
                              "roll-new-key-covers-more",
                              "roll-new-key-covers-less",
                              "multi-class-lost-and-regained")
                  + kc.HOLD_DIRECTED[:1]),
        theme_nums={"multi": (4, 60), "mix": (4, 60)},
        mc_cfgs=(kc.QUICK_MC + ["MC_Krill_q_multi.cfg"] if tier == "quick"
                 else kc.QUICK_MC + kc.THOROUGH_MC + ["MC_Krill_q_multi.cfg"]))


def replay(path, seed):
    return kc.replay(PID, LEVEL, path, seed)
