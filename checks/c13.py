"""C13  Every API route enforces the permission its operation requires.

Spec: spec/Authz.tla (reference policy table, role evaluation, provider
chain), MC_Authz (exhaustive check of the decision functions over a role
universe), MC_Authz_gen (case generator: route x method x role shape x
credential x transport x testbed mode x peer mapping), AuthzTrace (judges
what the real daemon did with every case).

Binding: `kv-http run-http` starts the real daemon in-process
(start_krill_daemon, config-file users, roles exactly as generated, two CAs,
publication server), sends every case over the Unix socket or TLS and records
status class, state digest before/after and the CAs shown by listings; TLC
recomputes the verdict from Authz.tla and compares.
"""
import copy
import json
import os
import re

import vlib

PID = "C13"
LEVEL = "model_checking"
CRATE = "harness-http"

DISPATCH = os.path.join(vlib.REPO, "src/daemon/http/dispatch")
# table entries that are a second path of the same handler arm
ALIASES = {"ui_sub", "hist_commands_n", "pubd_stale_n", "child_resp_json",
           "testbed_tal"}
SRC_FILES = {"root": "root.rs", "metrics": "metrics.rs", "stats": "stats.rs",
             "auth": "auth.rs", "testbed": "testbed.rs", "api": "api.rs",
             "cas": "cas.rs", "pubd": "pubd.rs", "ta": "ta.rs",
             "bulk": "bulk.rs"}
# gates and the login check are the only bare check_permission calls
EXPECTED_CHECKS = {"api.rs": 2, "cas.rs": 1, "pubd.rs": 1}


# --------------------------------------------------------------------------
# shared with c20
# --------------------------------------------------------------------------

MISMATCH_RE = re.compile(r'^<<"MISMATCH", (\d+), (".*")>>\s*$')


def _no_null(v):
    # TLC's JSON module has no value for null
    if v is None:
        return ""
    if isinstance(v, dict):
        return {k: _no_null(x) for k, x in v.items()}
    if isinstance(v, list):
        return [_no_null(x) for x in v]
    return v


def judge(chk, trace, tag):
    """Lets TLC judge the recorded lines; returns {line index: [problems]}."""
    trace = [_no_null(l) for l in trace]
    workdir = os.path.join(chk.out, tag)
    os.makedirs(workdir, exist_ok=True)
    path = os.path.join(workdir, "trace.ndjson")
    vlib.write_ndjson(path, trace)
    res = vlib.run_tlc("AuthzTrace", "AuthzTrace.cfg", workdir, workers=1,
                       timeout=1800, env_extra={"TRACE": path}, heap="8g")
    problems = {}
    for line in res.out.splitlines():
        m = MISMATCH_RE.match(line)
        if m:
            problems[int(m.group(1)) - 1] = sorted(
                json.loads(json.loads(m.group(2))))
    if res.errors or res.postcondition_failed or res.violated \
            or "TRACE_INCOMPLETE" in res.out:
        print(res.out[-4000:])
        raise vlib.ToolError("trace judgement by TLC did not complete")
    return problems, res


def make_batches(groups, nshards):
    """groups: list of (batch header dict, cases). Large groups are split
    so that cases of one route stay together (they share roles)."""
    total = sum(len(c) for _, c in groups)
    target = max(40, total // max(1, nshards))
    batches = []
    for header, cases in groups:
        byroute = {}
        for c in cases:
            key = (c.get("perm", ""), c.get("area", ""), c.get("route", ""))
            byroute.setdefault(key, []).append(c)
        cur = []
        for key in sorted(byroute):
            cur.extend(byroute[key])
            if len(cur) >= target:
                batches.append(dict(header, cases=cur))
                cur = []
        if cur:
            batches.append(dict(header, cases=cur))
    # biggest first so that the shards are balanced
    batches.sort(key=lambda b: -len(b["cases"]))
    order = []
    for i, b in enumerate(batches):
        b["id"] = i
        order.append(b)
    return order


def run_batches(chk, batches, tag, timeout=2400):
    shards = max(1, min(vlib.NCPU, len(batches)))
    return vlib.run_harness("run-http", batches, os.path.join(chk.out, tag),
                            shards=shards, timeout=timeout, crate=CRATE)


# --------------------------------------------------------------------------
# C13
# --------------------------------------------------------------------------

def route_inventory(cases):
    """The reference table must have one entry per handler arm of the
    dispatch code; otherwise the table has to be reviewed first."""
    routes = {}
    for c in cases:
        routes[c["route"]] = c
    per_file = {}
    for rid, c in routes.items():
        if rid in ALIASES:
            continue
        f = SRC_FILES[c["src"]]
        per_file[f] = per_file.get(f, 0) + 1
    # /api/v1/authorized only calls check_permission
    per_file["api.rs"] = per_file.get("api.rs", 0) - 1
    problems = []
    for f in sorted(os.listdir(DISPATCH)):
        if not f.endswith(".rs"):
            continue
        text = open(os.path.join(DISPATCH, f)).read()
        arms = len(re.findall(
            r"proceed_permitted|proceed_unchecked|proceed_raw", text))
        if arms != per_file.get(f, 0):
            problems.append(f"{f}: {arms} handler arms in the code, "
                            f"{per_file.get(f, 0)} entries in Authz.tla")
        checks = len(re.findall(r"\.check_permission\(", text))
        if checks != EXPECTED_CHECKS.get(f, 0):
            problems.append(f"{f}: {checks} bare check_permission calls, "
                            f"{EXPECTED_CHECKS.get(f, 0)} expected")
    return len(routes), problems


def model_runs(chk, tier):
    cfg = "MC_Authz.cfg" if tier == "quick" else "MC_Authz_full.cfg"
    res = vlib.run_tlc("MC_Authz", cfg, chk.out, workers=12, timeout=1200)
    chk.add_tlc(cfg, res)
    if res.violated or res.errors:
        print(res.counterexample()[:3000])
        raise vlib.ToolError(
            f"model {cfg} violates {res.violated}: Authz.tla and its "
            f"properties disagree (not a finding on the code)")
    vlib.log(f"TLC {cfg}: {res.distinct} decisions, no violation")


def generate(chk):
    cases = vlib.exhaustive_behaviours(
        "MC_Authz_gen", "MC_Authz_gen_c13.cfg", chk.out, timeout=600)
    for c in cases:
        c.pop("id", None)
    cases.sort(key=lambda c: json.dumps(c, sort_keys=True))
    return cases


def groups_of(cases):
    groups = {}
    for c in cases:
        key = (c["testbed"], c["peer_mapped"])
        groups.setdefault(key, []).append(c)
    res = []
    for (testbed, mapped), cs in sorted(groups.items()):
        header = {"kind": "c13", "testbed": testbed, "peer_mapped": mapped,
                  "peer_role": cs[0]["peer_role"]}
        res.append((header, cs))
    return res


def signature(line, problems):
    cls = sorted({p.split(":")[0] for p in problems})
    if line.get("nomethod"):
        cls.append("UnlistedMethod")
    return (f"{'+'.join(cls)}:{line['route']}:{line['m']}:{line['shape']}:"
            f"{line['cred']}:{line['transport']}:"
            f"{'testbed' if line['testbed'] else 'plain'}:"
            f"{'mapped' if line['peer_mapped'] else 'unmapped'}")


def case_of(line):
    c = {k: v for k, v in line.items()
         if k not in ("obs", "ev", "batch", "user", "before", "after")}
    return c


def execute(chk, cases, tag, nshards=None):
    batches = make_batches(groups_of(cases), nshards or vlib.NCPU)
    vlib.log(f"{len(cases)} cases in {len(batches)} daemon instances")
    trace = run_batches(chk, batches, tag)
    if len(trace) != len(cases):
        raise vlib.ToolError(
            f"harness returned {len(trace)} lines for {len(cases)} cases")
    problems, res = judge(chk, trace, tag + "-judge")
    chk.cov["trace_states"] = chk.cov.get("trace_states", 0) + res.distinct
    return trace, problems


def coverage_gate(chk, trace):
    """Anti-vacuity: everything the property talks about was exercised."""
    routes = {}
    shapes = {}
    for l in trace:
        r = routes.setdefault(l["route"], {"kind": l["kind"], "v": set()})
        r["v"].add(l["obs"]["verdict"])
        if l["cred"] == "role":
            shapes.setdefault(l["shape"], set()).add(l["obs"]["verdict"])
    missing = []
    if not any(l.get("nomethod") and l["obs"]["verdict"] == "nomethod"
               for l in trace):
        missing.append("no unlisted method was tried")
    for rid, r in routes.items():
        r["v"].discard("nomethod")
        if r["kind"] in ("perm", "login", "listing"):
            if not {"served", "refused"} <= r["v"]:
                missing.append(f"{rid}: only {sorted(r['v'])}")
        elif r["kind"] == "testbed":
            if not {"served", "absent"} <= r["v"]:
                missing.append(f"{rid}: only {sorted(r['v'])}")
        elif "served" not in r["v"]:
            missing.append(f"{rid}: never served")
    for sh in ("blanket_min", "all_but_p", "scoped_this", "scoped_other",
               "specific_lacks", "specific_grants", "none_only", "any_only",
               "gate_missing"):
        if sh not in shapes:
            missing.append(f"role shape {sh} never used")
    partial = [l for l in trace if l["kind"] == "listing"
               and 0 < len(l["obs"]["shown"]) < len(
                   [c for c in l["obs"]["existing"] if c in ("ca1", "ca2")])]
    if not partial:
        missing.append("no listing showed a proper subset of the CAs")
    if not any(l["obs"]["effect"] and l["obs"]["verdict"] == "served"
               for l in trace):
        missing.append("no served request changed the state digest")
    for t in ("tcp", "unix"):
        if not any(l["transport"] == t for l in trace):
            missing.append(f"transport {t} unused")
    if not any(l["peer_mapped"] and l["obs"]["verdict"] == "refused"
               and l["cred"] == "anon" and l["transport"] == "unix"
               for l in trace):
        missing.append("login gate never exercised through the mapped peer")
    if missing:
        raise vlib.ToolError("coverage gate: " + "; ".join(missing[:8]))
    chk.cov["routes_exercised"] = len(routes)
    chk.cov["role_shapes_exercised"] = sorted(shapes)


def self_test(chk, trace):
    """Corrupted observations / configurations must be rejected by TLC."""
    served = next(l for l in trace if l["obs"]["verdict"] == "served"
                  and l["cred"] == "role" and l["kind"] == "perm")
    refused = next(l for l in trace if l["obs"]["verdict"] == "refused"
                   and l["cred"] == "role" and l["kind"] == "perm")
    listing = next(l for l in trace if l["route"] == "cas_list"
                   and l["obs"]["verdict"] == "served"
                   and len(l["obs"]["shown"]) == 1)
    bad = []
    x = copy.deepcopy(refused)          # a refused request reported served
    x["obs"]["verdict"] = "served"
    bad.append(x)
    x = copy.deepcopy(refused)          # refused but with an effect
    x["obs"]["effect"] = True
    bad.append(x)
    x = copy.deepcopy(served)           # role lacks the permission after all
    for key in ("none", "any"):
        x["role"][key] = [p for p in x["role"][key] if p != x["perm"]]
    for e in x["role"]["specific"]:
        e["perms"] = [p for p in e["perms"] if p != x["perm"]]
    bad.append(x)
    x = copy.deepcopy(listing)          # listing shows an unreadable CA
    x["obs"]["shown"] = ["ca1", "ca2"]
    bad.append(x)
    good = [copy.deepcopy(served), copy.deepcopy(refused)]
    problems, _ = judge(chk, bad + good, "selftest")
    if sorted(problems) != list(range(len(bad))):
        raise vlib.ToolError(
            f"self-test failed: corrupted lines {sorted(problems)} rejected, "
            f"expected exactly 0..{len(bad) - 1}")
    chk.cov["selftest"] = (f"{len(bad)} corrupted lines rejected, "
                           f"{len(good)} genuine lines accepted")


PERMS = ["login", "pub-admin", "pub-list", "pub-read", "pub-create",
         "pub-delete", "ca-list", "ca-read", "ca-create", "ca-update",
         "ca-admin", "ca-delete", "routes-read", "routes-update",
         "routes-analysis", "aspas-read", "aspas-update", "bgpsec-read",
         "bgpsec-update", "rta-list", "rta-read", "rta-update"]


def random_role_cases(chk, cases, nroles):
    """Exploration beyond the role shapes: roles whose general, blanket and
    per-CA sets are random subsets of the permissions (seeded), tried on
    every guarded route. Only the enumeration is done here; the verdict is
    still TLC's (AuthzTrace)."""
    templates = {}
    for c in cases:
        if c["kind"] in ("perm", "login", "listing") and c["ca"] == "ca1" \
                and c["cred"] == "role" and not c["testbed"] \
                and not c["peer_mapped"] and not c.get("nomethod"):
            templates.setdefault(c["route"], c)
    rng = chk.rng

    def subset():
        dens = rng.choice([0.3, 0.5, 0.8])
        return sorted(p for p in PERMS if rng.random() < dens)

    res = []
    for n in range(nroles):
        none = sorted(set(subset()) | {"login"})
        specific = []
        for ca in ("ca1", "ca2"):
            if rng.random() < 0.5:
                specific.append({"ca": ca, "perms": subset()})
        role = {"none": none, "any": subset(), "specific": specific}
        for rid in sorted(templates):
            c = copy.deepcopy(templates[rid])
            c.update({"shape": f"random{n}", "role": role,
                      "transport": rng.choice(["unix", "tcp"]),
                      "ca": rng.choice(["ca1", "ca2"]),
                      "expect": "-", "expect_shown": []})
            c["other"] = "ca2" if c["ca"] == "ca1" else "ca1"
            res.append(c)
    return res


def select_quick(chk, cases):
    """Quick tier: every route with every role shape on ca1, both
    transports for the credential classes; a seeded half of the rest."""
    keep, rest = [], []
    for c in cases:
        if c.get("nomethod"):
            (keep if c["m"] != "PUT" else rest).append(c)
        elif c["ca"] == "ca1" and (c["transport"] == "unix"
                                 or c["cred"] != "role"
                                 or c["shape"] in ("blanket_min",
                                                   "all_but_p")):
            keep.append(c)
        else:
            rest.append(c)
    chk.rng.shuffle(rest)
    return keep + rest[: len(rest) // 4]


def run(tier, seed):
    chk = vlib.Check(PID, LEVEL, tier, seed)
    chk.assumptions = [
        "the reference policy in spec/Authz.tla is the statement of what "
        "each operation requires; it includes the two area gates of the "
        "code (ca-read on the addressed CA below /api/v1/cas/{ca}, "
        "pub-admin below /api/v1/pubd), which make the code stricter than "
        "the bare operation",
        "completeness of the table against the code is checked by counting "
        "handler arms in src/daemon/http/dispatch (tool error on a "
        "difference), not by TLC",
        "role shapes are built around each route's own permission (exact "
        "set, everything but it, per-CA entries granting / lacking it, "
        "general-only, blanket-only, gate missing); arbitrary subsets are "
        "covered at model level only (MC_Authz)",
        "roles with separate general/blanket/per-CA sets cannot be written "
        "in the configuration file and are installed in the Config object",
        "identities without login are reached through the Unix socket peer "
        "mapping (they cannot obtain a session token)",
        "no-effect is judged on CA list, publisher list and per-CA command "
        "count, parents and children as seen by the admin API",
    ]
    model_runs(chk, tier)
    cases = generate(chk)
    nroutes, inventory = route_inventory(cases)
    chk.cov["table_entries"] = nroutes
    chk.cov["cases_generated"] = len(cases)
    todo = cases if tier == "thorough" else select_quick(chk, cases)
    extra = random_role_cases(chk, cases, 4 if tier == "quick" else 30)
    chk.cov["exploration"] = {
        "random_roles": 4 if tier == "quick" else 30,
        "random_role_cases": len(extra),
        "note": "roles with random permission subsets (seeded) on every "
                "guarded route; exploration of the role space beyond the "
                "enumerated shapes, judged by TLC like every other case",
    }
    todo = todo + extra
    for c in todo[:2]:
        chk.sample({k: c[k] for k in ("route", "m", "path", "shape", "cred",
                                      "transport", "expect")})
    trace, problems = execute(chk, todo, "run")
    chk.cov["traces_validated_against_impl"] += len(trace) - len(problems)
    for l in trace:
        nontrivial = l["kind"] not in ("public",)
        chk.count_case([l["route"], l["m"], l["shape"], l["cred"],
                        l["transport"], l["testbed"], l["peer_mapped"],
                        l["ca"]], nontrivial)
    for idx in sorted(problems):
        line = trace[idx]
        chk.report(
            signature(line, problems[idx]),
            f"{line['m']} {line['path']} as {line['cred']}/{line['shape']} "
            f"over {line['transport']}: {'; '.join(problems[idx])} "
            f"(status {line['obs']['status']})",
            {"driver": "run-http", "cases": [case_of(line)],
             "observed": line["obs"], "problems": problems[idx]})
    if not chk.violations:
        # (known findings do not excuse the gates)
        coverage_gate(chk, trace)
        try:
            self_test(chk, [l for i, l in enumerate(trace)
                            if i not in problems])
        except StopIteration:
            raise vlib.ToolError("self-test found no line to corrupt")
        if inventory:
            # not a violation seen on the daemon: the table no longer
            # lists exactly the handler arms of the code
            raise vlib.ToolError(
                "route inventory of src/daemon/http/dispatch differs from "
                "the reference table in spec/Authz.tla (review the table): "
                + "; ".join(inventory))
    chk.cov["exhaustive"] = tier == "thorough"
    chk.cov["rule"] = (
        "cases = all initial states of MC_Authz_gen (route x method x role "
        "shape x credential class x transport x testbed mode x socket peer "
        "mapping); quick = every route with every role shape on ca1 over "
        "the socket plus all credential classes on both transports plus a "
        "seeded quarter of the rest, thorough = all; each case is one "
        "request to the real daemon, judged by TLC (AuthzTrace); distinct = "
        "distinct (route, method, shape, credential, transport, mode, CA); "
        "non-trivial = not a public route")
    return chk.finish()


def replay(path, seed):
    with open(path) as f:
        data = json.load(f)
    rp = data["replay"]
    chk = vlib.Check(PID, LEVEL, "quick", seed)
    trace, problems = execute(chk, rp["cases"], "replay", nshards=1)
    for idx in sorted(problems):
        line = trace[idx]
        chk.report(signature(line, problems[idx]),
                   f"{line['m']} {line['path']}: "
                   f"{'; '.join(problems[idx])}",
                   {"driver": "run-http", "cases": [case_of(line)],
                    "observed": line["obs"], "problems": problems[idx]})
    chk.cov["traces_validated_against_impl"] = len(trace) - len(problems)
    return chk.finish()
