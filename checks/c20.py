"""C20  Only genuine credentials authenticate, and only as the configured
identity.

Spec: spec/Authz.tla - provider chain `ActsAs` (admin token, session issued
by this instance for a configured user, mapped Unix socket peer, else
nobody) and `LoginSucceeds`; MC_Authz checks the chain exhaustively,
MC_Authz_gen (Part = "c20") enumerates the two decision tables
(credential class x transport x peer mapping; user name x password class x
transport), AuthzTrace judges what the real daemon did.

Binding: `kv-http run-http` starts the real daemon with the users and roles
of the generated configuration (password hashes computed like `krillc
config user` does), a second instance with another session key, turns each
credential class into concrete `Authorization` values and observes, per
credential, the verdicts of probe routes that tell all identities apart and
the audit actor of an accepted command.

The mutation families of tokens (truncation, bit flips below and above the
base64 layer, re-encodings, foreign key, random strings) are *exploration*:
seeded samples (quick) or every position (thorough) of one valid token; the
decision tables themselves are enumerated completely.
"""
import copy
import json

import vlib
from checks import c13

PID = "C20"
LEVEL = "model_checking"
CRATE = "harness-http"


def generate(chk):
    cases = vlib.exhaustive_behaviours(
        "MC_Authz_gen", "MC_Authz_gen_c20.cfg", chk.out, timeout=600)
    for c in cases:
        c.pop("id", None)
    cases.sort(key=lambda c: json.dumps(c, sort_keys=True))
    return cases


def make_batches(cases, seed, variants, every):
    groups = {}
    extra = {}
    for c in cases:
        cfg = c["cfg"]
        removed = c.get("removed")
        c = {k: v for k, v in c.items() if k not in ("cfg", "removed")}
        if c["table"] == "stale":
            key = ("", "stale", "")
        elif c["table"] == "chain":
            part = "junk" if c["bearer"]["kind"] == "junk" else "chain"
            key = (c["peer_role"], part, c["transport"] if part == "junk"
                   else "")
        else:
            key = ("", "login", c["name"][:2])
        groups.setdefault(key, []).append(c)
        extra[key] = (cfg, removed)
    batches = []
    for key in sorted(groups):
        b = {"kind": "c20", "peer_role": key[0], "seed": seed,
             "variants": variants, "all": every, "cfg": extra[key][0],
             "cases": groups[key]}
        if extra[key][1]:
            b["removed"] = extra[key][1]
        batches.append(b)
    batches.sort(key=lambda b: (b["cases"][0]["table"] != "chain"
                                or b["cases"][0]["bearer"]["kind"] != "junk",
                                -len(b["cases"])))
    for i, b in enumerate(batches):
        b["id"] = i
    return batches


def family(line):
    v = line.get("variant", "")
    parts = v.split(":")
    return ":".join(parts[:2]) if len(parts) > 1 else v


def problem_class(p):
    cls = p.split(":")[0]
    if cls == "LoginRule":
        cls += "-refused" if p.endswith("daemon refused") else "-accepted"
    return cls


def signature(line, problems):
    cls = "+".join(sorted({problem_class(p) for p in problems}))
    if line["table"] in ("chain", "stale"):
        what = f"{line['table']}:{line['bearer']['kind']}:{family(line)}"
        if line["bearer"]["kind"] == "session":
            what += f":{line['bearer']['user']}:{line['bearer']['issuer']}"
        return (f"{what}:{cls}:{line['transport']}:"
                f"peer={line['peer_role'] or '-'}")
    name = line["name"]
    configured = name in line.get("cfg", {}).get("users", {})
    normal = "~" not in name and name == name.strip()
    nameclass = ("nonnormal-name" if configured and not normal
                 else "configured-name" if configured else "unknown-name")
    return (f"login:{nameclass}:{cls}:{name}:{line['pw_class']}:"
            f"{line['transport']}")


def case_of(line):
    return {k: v for k, v in line.items()
            if k not in ("obs", "ev", "batch", "variant")}
    # (cfg, and removed for the stale table, stay in: replay needs them)


def execute(chk, cases, tag, seed, variants, every):
    batches = make_batches(cases, seed, variants, every)
    vlib.log(f"{len(cases)} table rows in {len(batches)} daemon instances")
    trace = c13.run_batches(chk, batches, tag)
    observations = [l for l in trace if l.get("ev") == "c20-observation"]
    if observations:
        chk.cov["observations_not_judged"] = [
            {k: o[k] for k in ("what", "user", "transport", "fp")}
            for o in observations]
    trace = [l for l in trace if l.get("ev") != "c20-observation"]
    problems, res = c13.judge(chk, trace, tag + "-judge")
    chk.cov["trace_states"] = chk.cov.get("trace_states", 0) + res.distinct
    return trace, problems


def coverage_gate(chk, trace, cases):
    missing = []
    rows = {json.dumps(case_of_row(c), sort_keys=True) for c in cases}
    seen = {json.dumps(case_of_row(l), sort_keys=True) for l in trace}
    if rows - seen:
        missing.append(f"{len(rows - seen)} table rows without a line")
    chain = [l for l in trace if l["table"] == "chain"]
    login = [l for l in trace if l["table"] == "login"]
    fams = {}
    for l in chain:
        if l["bearer"]["kind"] == "junk":
            fams[family(l)] = fams.get(family(l), 0) + 1
    for need in ("session:truncate", "session:bitflip", "session:textflip",
                 "session:rawtruncate", "session:b64-wrapped",
                 "session:b64-hex", "session:random-b64",
                 "admin:truncate", "admin:append", "admin:upper"):
        if not fams.get(need):
            missing.append(f"mutation family {need} not exercised")
    if not any(fams.get(f) for f in ("session:b64-nopad", "session:b64-url",
                                     "session:b64-url-nopad",
                                     "session:b64-trailing-bits")):
        missing.append("no alternative base64 encoding exercised")
    if not any(l["bearer"]["kind"] == "session"
               and l["bearer"]["issuer"] == "other" for l in chain):
        missing.append("no token of another instance")
    actors = {l["obs"]["actor"] for l in trace if l["obs"].get("actor")}
    for a in ("user:admin-token", "user:bob"):
        if a not in actors:
            missing.append(f"audit actor {a} never observed")
    if not any(l["obs"]["login"] == "ok" for l in login):
        missing.append("no successful login")
    if not any(l["obs"]["login"] == "refused" for l in login):
        missing.append("no refused login")
    if not any(l["peer_role"] and l["transport"] == "unix"
               and l["bearer"]["kind"] == "junk" for l in chain):
        missing.append("fall-through to the mapped peer not exercised")
    if missing:
        raise vlib.ToolError("coverage gate: " + "; ".join(missing[:8]))
    chk.cov["exploration"] = {
        "note": "token mutation families are exploration (samples of the "
                "space of strings), not part of the model-checked tables",
        "families": fams,
    }


def case_of_row(line):
    return {k: line[k] for k in ("table", "bearer", "transport", "peer_role",
                                 "name", "pw_class")}


def self_test(chk, trace):
    junk = next(l for l in trace if l["table"] == "chain"
                and l["bearer"]["kind"] == "junk" and not l["peer_role"]
                and l["transport"] == "tcp")
    sess = next(l for l in trace if l["table"] == "chain"
                and l["bearer"]["kind"] == "session"
                and l["bearer"]["issuer"] == "this"
                and l["bearer"]["user"] == "bob"
                and l["obs"].get("actor"))
    bad_login = next(l for l in trace if l["table"] == "login"
                     and l["pw_class"] == "wrong" and l["name"] == "alice")
    good_login = next(l for l in trace if l["table"] == "login"
                      and l["pw_class"] == "exact" and l["name"] == "alice")
    bad = []
    x = copy.deepcopy(junk)            # a damaged token that authenticates
    x["obs"]["fp"]["authorized"] = "served"
    bad.append(x)
    x = copy.deepcopy(sess)            # command recorded under another name
    x["obs"]["actor"] = "user:alice"
    bad.append(x)
    x = copy.deepcopy(bad_login)       # wrong password accepted
    x["obs"]["login"] = "ok"
    bad.append(x)
    x = copy.deepcopy(good_login)      # logged in as somebody else
    x["obs"]["id"] = "bob"
    bad.append(x)
    good = [copy.deepcopy(junk), copy.deepcopy(sess),
            copy.deepcopy(good_login)]
    problems, _ = c13.judge(chk, bad + good, "selftest")
    if sorted(problems) != list(range(len(bad))):
        raise vlib.ToolError(
            f"self-test failed: corrupted lines {sorted(problems)} rejected, "
            f"expected exactly 0..{len(bad) - 1}")
    chk.cov["selftest"] = (f"{len(bad)} corrupted lines rejected, "
                           f"{len(good)} genuine lines accepted")


def report_all(chk, trace, problems):
    # one report per signature: the mutation families produce many lines
    done = set()
    for idx in sorted(problems):
        line = trace[idx]
        sig = signature(line, problems[idx])
        if sig in done:
            continue
        done.add(sig)
        if line["table"] in ("chain", "stale"):
            what = (f"credential {line['bearer']} variant "
                    f"{line.get('variant')} over {line['transport']}, peer "
                    f"mapped to {line['peer_role'] or 'nothing'}")
        else:
            what = (f"login as {line['name']!r} with password class "
                    f"{line['pw_class']} over {line['transport']}")
        chk.report(sig, f"{what}: {'; '.join(problems[idx])}",
                   {"driver": "run-http", "cases": [case_of(line)],
                    "variant": line.get("variant"), "observed": line["obs"],
                    "problems": problems[idx]})


def run(tier, seed):
    chk = vlib.Check(PID, LEVEL, tier, seed)
    chk.assumptions = [
        "strength of ChaCha20-Poly1305, scrypt and base64 decoding is "
        "assumed; token mutations are samples (quick) or every position "
        "(thorough) of one valid token per run - exploration, not proof",
        "white space around the bearer value is not part of the credential "
        "(HTTP field syntax; httpclient.rs:86-88 trims it)",
        "password comparison is modulo surrounding white space and NFKC as "
        "the login path documents; the user name is looked up as given",
        "the Unix socket peer is the user running the check; an unmapped "
        "peer is modelled by not mapping that user",
        "sessions do not expire and logout is not part of the property",
    ]
    cfg = "MC_Authz.cfg" if tier == "quick" else "MC_Authz_full.cfg"
    res = vlib.run_tlc("MC_Authz", cfg, chk.out, workers=12, timeout=1200)
    chk.add_tlc(cfg, res)
    if res.violated or res.errors:
        print(res.counterexample()[:3000])
        raise vlib.ToolError(
            f"model {cfg} violates {res.violated}: Authz.tla and its "
            f"properties disagree (not a finding on the code)")
    vlib.log(f"TLC {cfg}: {res.distinct} decisions, no violation")
    cases = generate(chk)
    chk.cov["table_rows"] = len(cases)
    for c in cases[:2]:
        chk.sample({k: v for k, v in c.items() if k != "cfg"})
    every = tier == "thorough"
    trace, problems = execute(chk, cases, "run", seed,
                              12 if tier == "quick" else 40, every)
    chk.cov["traces_validated_against_impl"] += len(trace) - len(problems)
    for l in trace:
        nontrivial = not (l["table"] == "chain"
                          and l["bearer"]["kind"] == "none")
        chk.count_case([case_of_row(l), l.get("variant")], nontrivial)
    report_all(chk, trace, problems)
    try:
        coverage_gate(chk, trace, cases)
        # the self-test needs lines that are accepted
        clean = [l for i, l in enumerate(trace) if i not in problems]
        self_test(chk, clean)
    except (vlib.ToolError, StopIteration) as e:
        # with violations on the table the verdict is "violation"; the
        # gates are only required for a clean run
        if not chk.violations:
            raise vlib.ToolError(f"anti-vacuity gates failed: {e!r}")
        vlib.log(f"gates skipped after violations: {e!r}")
    chk.cov["exhaustive"] = True
    chk.cov["rule"] = (
        "decision tables = all initial states of MC_Authz_gen (Part c20): "
        "credential class x transport x peer mapping, and user name x "
        "password class x transport - enumerated completely in both tiers; "
        "each row is concretised into one or more Authorization values "
        "(mutation families seeded by VERIF_SEED; every position in the "
        "thorough tier), each value is one line = probe requests to the "
        "real daemon judged by TLC (AuthzTrace); distinct = (row, variant); "
        "non-trivial = carries some credential")
    return chk.finish()


def replay(path, seed):
    with open(path) as f:
        data = json.load(f)
    rp = data["replay"]
    chk = vlib.Check(PID, LEVEL, "quick", seed)
    # the configuration is part of the saved case
    trace, problems = execute(chk, rp["cases"], "replay", data.get("seed", 1),
                              40, True)
    report_all(chk, trace, problems)
    chk.cov["traces_validated_against_impl"] = len(trace) - len(problems)
    return chk.finish()
