"""C02 -- decided with spec/Krill.tla + KrillTrace.tla (see krill_common.py)."""
from checks import krill_common as kc

PID = "C02"
LEVEL = "model_checking"
THEMES = "chain,roll,multi,mix,foreign,deep".split(",")
NEEDED = "ChildRes,Settled".split(",")

RULE = (
    "behaviours = TLC simulation of MC_Krill_gen (themes " + ", ".join(THEMES)
    + "): API operations interleaved with single named background tasks and "
    "Settle points; each is executed on a real in-process Krill (TA proxy "
    "and signer, CAs, publication server, task queue); after every event "
    "the state projected onto the variables of Krill.tla, the serial-number "
    "level facts per key and a relying-party walk are recorded, and TLC "
    "validates the whole trace against KrillTrace.tla; distinct = distinct "
    "event sequences; non-trivial = reaches a settled state after at least "
    "two kinds of API operations")


def _a(a, **kw):
    d = {"a": a}
    d.update(kw)
    return d


# an entitlement changed while the child is suspended: the certificate that
# comes back at unsuspension (by the operator, or because the child calls
# in) must fit the entitlement of that moment
DIRECTED = [
    {"actions": [
        _a("AddCa", c="B", p="A", res=["p1", "p2", "a1"]), _a("Settle"),
        _a("ChildSuspend", c="B", p="A"),
        _a("ChildRes", c="B", p="A", res=["p1"]),
        _a("ChildUnsuspend", c="B", p="A"),
        _a("Step", task="sync_repo_A"), _a("Settle")]},
    {"actions": [
        _a("AddCa", c="B", p="A", res=["p1", "p2"]), _a("Settle"),
        _a("AddCa", c="C", p="B", res=["p1", "p2"]), _a("Settle"),
        _a("ChildSuspend", c="C", p="B"),
        _a("ChildRes", c="C", p="B", res=["p2"]),
        _a("Step", task="sync_C_with_parent_B"),
        _a("Step", task="sync_repo_B"), _a("Settle")]},
    {"actions": [
        _a("AddCa", c="B", p="A", res=["p1", "p2"]), _a("Settle"),
        _a("ChildSuspend", c="B", p="A"),
        _a("ChildRes", c="B", p="A", res=["p1", "p2", "a1"]),
        _a("ChildUnsuspend", c="B", p="A"), _a("Settle"),
        _a("ChildSuspend", c="B", p="A"),
        _a("ChildRes", c="B", p="A", res=["p2", "a1"]),
        _a("Settle")]},
]


def run(tier, seed):
    return kc.run_property(
        PID, LEVEL, tier, seed, THEMES,
        quick_num=14 if len(THEMES) > 1 else 30, thorough_num=250,
        assumptions=kc.COMMON_ASSUMPTIONS, rule=RULE, needed_events=NEEDED,
        mc_cfgs=(['MC_Krill_q_chain.cfg', 'MC_Krill_q_life.cfg',
                  'MC_Krill_q_multi.cfg', 'MC_Krill_q_foreign.cfg',
                  'MC_Krill_q_autosus.cfg',
                  # "converges" as a temporal property
                  'MC_Krill_live_q_chain.cfg', 'MC_Krill_live_sanity.cfg']
                 if tier == "quick" else
                 ['MC_Krill_q_chain.cfg', 'MC_Krill_q_life.cfg',
                  'MC_Krill_q_multi.cfg', 'MC_Krill_q_foreign.cfg',
                  'MC_Krill_chain.cfg', 'MC_Krill_life.cfg',
                  'MC_Krill_q_autosus.cfg',
                  'MC_Krill_live_q_chain.cfg', 'MC_Krill_live_sanity.cfg',
                  'MC_Krill_live_chain.cfg']),
        directed=(DIRECTED + kc.MULTI_DIRECTED[:1]
                  + kc.clause("chain-shrink-after-suspension",
                              "shrink-to-nothing", "foreign-limit-shrink",
                              "foreign-limit-refused",
                              "shrink-regrow-before-child-sync",
                              "auto-suspend-inactive-children",
                              "multi-class-lost-and-regained")),
        theme_nums={"multi": (6, 80), "mix": (4, 60), "foreign": (6, 80),
                    "deep": (4, 60), "autosus": (4, 60)})


def replay(path, seed):
    return kc.replay(PID, LEVEL, path, seed)
