"""C02 -- decided with spec/Krill.tla + KrillTrace.tla (see krill_common.py)."""
from checks import krill_common as kc

PID = "C02"
LEVEL = "model_checking"
THEMES = "chain,roll,multi".split(",")
NEEDED = "ChildRes,Settled".split(",")

RULE = (
    "behaviours = TLC simulation of MC_Krill_gen (themes " + ", ".join(THEMES)
    + "): API operations interleaved with single named background tasks and "
    "Settle points; each is executed on a real in-process Krill (TA proxy "
    "and signer, CAs, publication server, task queue); after every event "
    "the state projected onto the variables of Krill.tla, the serial-number "
    "level facts per key and a relying-party walk are recorded, and TLC "
    "validates the whole trace against KrillTrace.tla; distinct = distinct "
    "event sequences; non-trivial = reaches a settled state after at least "
    "two kinds of API operations")


def run(tier, seed):
    return kc.run_property(
        PID, LEVEL, tier, seed, THEMES,
        quick_num=14 if len(THEMES) > 1 else 30, thorough_num=250,
        assumptions=kc.COMMON_ASSUMPTIONS, rule=RULE, needed_events=NEEDED,
        mc_cfgs=(['MC_Krill_q_chain.cfg', 'MC_Krill_q_life.cfg', 'MC_Krill_q_multi.cfg'] if tier == "quick" else ['MC_Krill_q_chain.cfg', 'MC_Krill_q_life.cfg', 'MC_Krill_q_multi.cfg', 'MC_Krill_chain.cfg', 'MC_Krill_life.cfg']),
        directed=kc.MULTI_DIRECTED[:1], theme_nums={"multi": (6, 80)})


def replay(path, seed):
    return kc.replay(PID, LEVEL, path, seed)
