"""C19 -- decided with spec/Krill.tla + KrillTrace.tla (see krill_common.py).

The status reports are variables of Krill.tla (pst, rst, kst), assigned in
the step of the exchange they report; the harness projects the real reports
(get_ca_status of every CA, compared with get_publisher_details of the
publication server) after every event and TLC validates them.
"""
from checks import krill_common as kc

PID = "C19"
LEVEL = "model_checking"
THEMES = ["status", "chain", "multi", "foreign"]
NEEDED = ["PubRemove", "PubAdd", "RepoSyncAll", "Restart", "ChildRemove",
          "DeleteCa", "Settled"]


def _a(a, **kw):
    d = {"a": a}
    d.update(kw)
    return d


DIRECTED = [
    # the server loses a CA's content (publisher removed and added again)
    # while the CA's objects change: the shown list must be what the server
    # holds after the next synchronisation
    {"actions": [
        _a("AddCa", c="B", p="A", res=["p1", "p2"]), _a("Settle"),
        _a("RoaAdd", c="B", r=["p1", "a1"]), _a("Settle"),
        _a("PubRemove", c="B"), _a("PubAdd", c="B"),
        _a("RoaDel", c="B", r=["p1", "a1"]),
        _a("RoaAdd", c="B", r=["p2", "a1"]), _a("Settle"),
        _a("RepoSyncAll"), _a("Settle"), _a("Restart"), _a("Settle")]},
    # failing exchanges: publisher unknown, child removed at the parent,
    # nothing to offer; then everything repaired; restarts in between
    {"actions": [
        _a("AddCa", c="B", p="A", res=["p1"]), _a("Settle"),
        _a("AddCa", c="C", p="B", res=["p1"]), _a("Settle"),
        _a("PubRemove", c="C"), _a("RoaAdd", c="C", r=["p1", "a1"]),
        _a("Settle"), _a("Restart"), _a("ChildRes", c="B", p="A", res=["p2"]),
        _a("Settle"), _a("Restart"), _a("PubAdd", c="C"),
        _a("ChildRes", c="B", p="A", res=["p1", "p2"]), _a("RepoSyncAll"),
        _a("Settle"), _a("ChildRemove", c="C", p="B"), _a("Settle"),
        _a("Restart"), _a("Settle"), _a("DeleteCa", c="C"), _a("Settle")]},
    # an exchange that consists of a revocation request only (after a key
    # activation) and fails because the parent has removed the child: the
    # report must say failure -- nothing else is sent in that exchange that
    # could say otherwise --, also after a restart; then the child is a
    # child again and the exchange succeeds
    {"actions": [
        _a("AddCa", c="B", p="A", res=["p1", "p2"]), _a("Settle"),
        _a("RoaAdd", c="B", r=["p1", "a1"]), _a("Settle"),
        _a("RollInit", c="B"), _a("Settle"),
        _a("RollActivate", c="B"),
        _a("ChildRemove", c="B", p="A"),
        _a("Step", task="sync_B_with_parent_A"),
        _a("Restart"),
        _a("Step", task="sync_repo_B"), _a("Settle")]},
    # a CA is deleted (its parent removes the child, the server's operator
    # the publisher it left behind) and a CA of the same name is created:
    # the new CA starts without any report about parent or repository --
    # nothing of the deleted CA's entries comes back --, also after a restart
    {"actions": [
        _a("AddCa", c="B", p="A", res=["p1", "p2"]), _a("Settle"),
        _a("RoaAdd", c="B", r=["p1", "a1"]), _a("Settle"),
        _a("DeleteCa", c="B"), _a("Settle"),
        _a("ChildRemove", c="B", p="A"), _a("PubRemove", c="B"),
        _a("Settle"),
        _a("AddCa", c="B", p="A", res=["p2"], again=True),
        _a("Restart"), _a("Settle"),
        _a("RoaAdd", c="B", r=["p2", "a1"]), _a("Settle")]},
]

RULE = (
    "model: MC_Krill_q_status (all interleavings of entitlement changes, "
    "ROA changes, child removal, CA deletion, publisher removal / "
    "re-creation, bulk repository sync and the tasks they cause, bounded "
    "number of API operations) with the step property 'after a successful "
    "repository synchronisation the shown list is what the server holds' "
    "and 'removal removes the entries'; behaviours = TLC simulation of "
    "MC_Krill_gen (themes status: the above plus restarts; chain) and two "
    "directed behaviours; after every event the harness records, for every "
    "CA, the outcome of the most recent parent / repository exchange as "
    "shown by get_ca_status, the entitlements shown, whether the shown list "
    "of published objects equals (as a multiset of uri + content) what "
    "get_publisher_details returns, and for every child the outcome its "
    "parent shows; TLC validates them against the values Krill.tla assigns "
    "in the step of the exchange; a restart must change nothing; distinct "
    "= distinct event sequences; non-trivial = contains a failing exchange "
    "or a publisher removal and reaches a settled state")


def run(tier, seed):
    return kc.run_property(
        PID, LEVEL, tier, seed, THEMES, quick_num=10, thorough_num=150,
        assumptions=kc.COMMON_ASSUMPTIONS + [
            "parent status entries other than those for the CA's parents "
            "must not exist; a removed parent's entry must be gone (theme "
            "multi: a CA with two parents, parents removed and added again)",
            "the error text of a failure is not compared, only that a "
            "failure is shown exactly when the most recent exchange failed",
            "reports about a deleted CA are observable only through the API, "
            "which refuses them; that its entries are gone is checked for "
            "the children entries at its parent and by the model",
            "the top CA's reports about the trust anchor are not compared",
        ], rule=RULE,
        mc_cfgs=(["MC_Krill_q_status.cfg", "MC_Krill_q_recreate.cfg"]
                 if tier == "quick"
                 else ["MC_Krill_q_status.cfg", "MC_Krill_q_recreate.cfg",
                       "MC_Krill_status.cfg"]),
        needed_events=NEEDED + ["RemoveParent", "AddParent"],
        directed=(DIRECTED + kc.MULTI_DIRECTED[:1]
                  + kc.clause("foreign-limit-refused")),
        theme_nums={"multi": (4, 40), "foreign": (4, 40)})


def replay(path, seed):
    return kc.replay(PID, LEVEL, path, seed)
