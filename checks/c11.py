"""C11  RRDP and rsync views are consistent for every client at every
instant.

Spec: spec/RepoFiles.tla (extends PubServer.tla): the files an RRDP update
writes (delta files, snapshot, new-notification + rename, clean-up) and
RsyncdStore::write (tmp-N, current->old, tmp-N->current, remove old), one
action per file system mutation, Crash / IoError in front of every one, RRDP
clients that remember (session, serial, content).  MC_RepoFiles: exhaustive
small configurations and behaviour generator (history variable);
RepoFilesTrace: validation of what the real server left on disk.

Binding: harness-pub `run-pub` executes the behaviours on the real
RepositoryManager; every write can be cut at its k-th file system mutation
(krill::verif fault points "fs:...") as a crash (unwinding panic, fresh
runtime on the surviving directory) or as an I/O error.  After every write
the directories repo/rrdp and repo/rsync are parsed (rpki::rrdp), hashed and
projected; TLC checks that the projected disk equals the disk the
specification computes from the mutations the code performed, and evaluates
the properties of C11 (including the simulated clients) on it.
"""
import copy
import json
import os
import re
import threading
import time

import vlib

PID = "C11"
LEVEL = "model_checking"
CRATE = "harness-pub"

# Defects of the pinned tree that the specification can still model through
# constants (see the CONSTANTS of PubServer.tla / RepoFiles.tla).  The values
# describe the current /repo, in which they are repaired; the static
# spec/*.cfg files carry the same values (spec/MC_RepoFiles_pinned.cfg the
# old ones).
CODE_VARIANT = {
    "MaxNrEquality": "FALSE",     # 3d66903f rrdp.rs:440 keep + 1 >= max_nr
    "TruncateOnCreate": "TRUE",   # 99a13ae1 file.rs create_file truncates
    "RemoveTmpFirst": "TRUE",     # 6e18ad8e rsync.rs stale tmp-N removed
    "RemoveOldFirst": "TRUE",     # 0b66fb18 rsync.rs stale old/ removed
}

MC_TEMPLATE = """CONSTANTS
  Pubs <- {pubs}
  Uris <- {uris}
  Contents <- Cont
  Size <- SizeSmall
  MinNr = {min_nr}
  MaxNr = {max_nr}
  MinAge = "{min_age}"
  MaxAge = "{max_age}"
  MaxNrEquality = {variant[MaxNrEquality]}
  MaxSerial = {max_serial}
  MaxSession = {max_session}
  DeltaChoices <- {deltas}
  TruncateOnCreate = {variant[TruncateOnCreate]}
  RemoveTmpFirst = {variant[RemoveTmpFirst]}
  RemoveOldFirst = {variant[RemoveOldFirst]}
  MaxFaults = {max_faults}
  Depth = {depth}
  FaultOdds = {odds}
{head}
{checks}
CHECK_DEADLOCK FALSE
"""

SOUND = """INVARIANT RTypeOK
INVARIANT NotificationParsable
INVARIANT InterruptedWriteNeverBlocks
INVARIANT NotificationRefsExist
INVARIANT SnapshotIsStateAtSerial
INVARIANT ClientCatchesUp
INVARIANT DeltasContiguousOnDisk
INVARIANT DeltasContiguousToCurrent
INVARIANT DeltasBoundedOnDisk
INVARIANT DeltasBounded
PROPERTY DiskFollowsLogical
PROPERTY WriteOk
PROPERTY RsyncEqualsSnapshotAfterWrite
PROPERTY SerialPlusOne
PROPERTY SessionOnlyOnReset"""

# the literal reading of "never exceed the configured maximum number" holds
# in the model iff the configuration lets max_nr win
STRICT = """
INVARIANT DeltasNeverExceedMaxNr
INVARIANT DeltasNeverExceedMaxNrOnDisk"""


def max_nr_wins(cfg):
    return cfg["min_nr"] < cfg["max_nr"] and cfg["min_age"] == "zero"

TRACE_TEMPLATE = """CONSTANTS
  Pubs <- PubsAllTrace
  Uris <- UrisAllTrace
  Contents <- Cont
  Size <- SizeSmall
  MinNr = {min_nr}
  MaxNr = {max_nr}
  MinAge = "{min_age}"
  MaxAge = "{max_age}"
  MaxNrEquality = {variant[MaxNrEquality]}
  MaxSerial = 99
  MaxSession = 99
  DeltaChoices = {{}}
  TruncateOnCreate = {variant[TruncateOnCreate]}
  RemoveTmpFirst = {variant[RemoveTmpFirst]}
  RemoveOldFirst = {variant[RemoveOldFirst]}
  MaxFaults = 9999
SPECIFICATION TraceSpec
{invariants}
{properties}
POSTCONDITION TraceAccepted
CHECK_DEADLOCK FALSE
"""

# conformance (computed disk = real disk) first, then the properties of C11
INVARIANTS = ["FilesAgree", "XmlHeadersAgree", "NotifAgree", "RealRefsExist",
              "RsyncAgree", "NothingElseOnDisk", "StatsAgree11", "NoPanic11",
              "RTypeOK",
              "ONotificationParsable", "ONotificationRefsExist",
              "OSnapshotIsStateAtSerial", "OClientCatchesUp",
              "ODeltasContiguousOnDisk", "ODeltasBoundedOnDisk",
              "OInterruptedWriteNeverBlocks", "ODeltasNeverExceedMaxNr"]
PROPERTIES = ["TraceDiskFollowsLogical", "TraceWriteOk",
              "TraceSerialPlusOne", "TraceSessionOnlyOnReset",
              "TraceRsyncEq"]

AGREE = ("FilesAgree", "XmlHeadersAgree", "NotifAgree", "RealRefsExist",
         "RsyncAgree", "NothingElseOnDisk", "StatsAgree11")

DEFAULT_CFG = {"min_nr": 0, "max_nr": 2, "min_age": "zero", "max_age": "inf"}


def write_cfg(path, text):
    with open(path, "w") as f:
        f.write(text)
    return path


def cfg_key(cfg):
    return (f"{cfg['min_nr']}_{cfg['max_nr']}_{cfg['min_age']}_"
            f"{cfg['max_age']}")


def trace_cfg(chk, cfg, exclude=()):
    name = f"trace_{cfg_key(cfg)}_" + ("_".join(sorted(exclude)) or "all") \
        + ".cfg"
    path = os.path.join(chk.out, name)
    if not os.path.exists(path):
        write_cfg(path, TRACE_TEMPLATE.format(variant=CODE_VARIANT, 
            invariants="\n".join(f"INVARIANT {i}" for i in INVARIANTS
                                 if i not in exclude),
            properties="\n".join(f"PROPERTY {p}" for p in PROPERTIES
                                 if p not in exclude), **cfg))
    return path


def mc_cfg(chk, name, cfg, pubs="PubsOne", uris="UrisOneX", deltas="Deltas1",
           max_serial=4, max_session=2, max_faults=1, checks=SOUND,
           depth=99, odds=1, gen=False):
    path = os.path.join(chk.out, f"mc_{name}.cfg")
    head = ("INIT MCInit\nNEXT MCNext\nCONSTRAINT RBound" if gen else
            "SPECIFICATION MCSpec\nCONSTRAINT RBound\nVIEW RView")
    write_cfg(path, MC_TEMPLATE.format(variant=CODE_VARIANT, 
        pubs=pubs, uris=uris, deltas=deltas, max_serial=max_serial,
        max_session=max_session, max_faults=max_faults, depth=depth,
        odds=odds, head=head, checks=checks, **cfg))
    return path


# --------------------------------------------------------------------------
# model
# --------------------------------------------------------------------------

RETENTION_GRID = [
    # (min_nr, max_nr, min_age, max_age)
    (0, 1, "zero", "inf"), (0, 2, "zero", "inf"), (0, 3, "zero", "inf"),
    (1, 2, "zero", "inf"), (1, 3, "zero", "inf"),
    (0, 2, "zero", "zero"), (0, 2, "inf", "inf"), (0, 2, "any", "any"),
    (1, 3, "any", "any"),
    # the "always keep" rules beat max_nr (DeltasBounded still holds)
    (1, 1, "zero", "inf"), (2, 2, "zero", "inf"), (2, 1, "zero", "inf"),
]


def action_counts(out):
    res = {}
    for m in re.finditer(r"^<(\w+) line \d+, col \d+ to line \d+, col \d+ "
                         r"of module \w+(?: \([\d ]+\))?>: (\d+):(\d+)", out,
                         re.M):
        res[m.group(1)] = res.get(m.group(1), 0) + int(m.group(3))
    return res


def model_runs(chk, tier):
    quick = tier == "quick"
    runs = []
    base = dict(DEFAULT_CFG)
    # every cut of every write, one fault (quick) / two faults (thorough)
    runs.append(("faults", mc_cfg(
        chk, "faults", base, max_faults=1 if quick else 2,
        max_serial=4, max_session=2, checks=SOUND + STRICT), 1500))
    if not quick:
        runs.append(("faults2uris", mc_cfg(
            chk, "faults2uris", base, uris="UrisOne", max_faults=1,
            max_serial=3, max_session=2, checks=SOUND + STRICT), 2400))
    # retention configurations, no faults: histories to serial 4 / 5
    grid = RETENTION_GRID if not quick else [
        RETENTION_GRID[0], RETENTION_GRID[4], RETENTION_GRID[7],
        RETENTION_GRID[9]]
    for g in grid:
        cfg = dict(min_nr=g[0], max_nr=g[1], min_age=g[2], max_age=g[3])
        runs.append((f"ret_{cfg_key(cfg)}", mc_cfg(
            chk, f"ret_{cfg_key(cfg)}", cfg,
            uris="UrisOneX" if quick else "UrisOne", max_faults=0,
            max_serial=5, max_session=2,
            checks=SOUND + (STRICT if max_nr_wins(cfg) else "")), 1500))
    taken = {}
    for name, cfg, timeout in runs:
        # per-action coverage slows TLC down a lot: first run only
        res = vlib.run_tlc("MC_RepoFiles", cfg, chk.out, workers=12,
                           timeout=timeout, coverage=(name == "faults"))
        chk.add_tlc(name, res)
        for a, n in action_counts(res.out).items():
            taken[a] = taken.get(a, 0) + n
        if res.violated or res.errors:
            print(res.counterexample()[:3000])
            raise vlib.ToolError(
                f"model {name} violates {res.violated}: specification and "
                f"properties disagree (not a finding on the code)")
        vlib.log(f"TLC {name}: {res.distinct} distinct states, "
                 f"{res.generated} generated, no violation")
    # MCNext is one action for TLC; its disjuncts are counted by location
    chk.cov["actions_covered"].update(taken)
    if taken.get("MCNext", 0) + taken.get("RUpdate", 0) == 0:
        raise vlib.ToolError("the model took no steps")


# Properties the specification - which models what the code does - is
# expected to violate; each counterexample is replayed on the real code.
# (The four defects found this way in the pinned tree - torn notification,
# stale old/, stale tmp-N, max_nr never applied - are repaired; their
# counterexamples stay as REGRESSIONS below.)  What remains: the literal
# reading of "never exceed the configured maximum number" cannot hold where
# the "always keep" rules force more.
EXPOSE = [
    # (exposing invariant, retention cfg, max_faults, max_serial)
    ("XDeltasNeverExceedMaxNr",
     {"min_nr": 1, "max_nr": 1, "min_age": "zero", "max_age": "inf"}, 0, 4),
    ("XDeltasNeverExceedMaxNr",
     {"min_nr": 0, "max_nr": 1, "min_age": "inf", "max_age": "inf"}, 0, 4),
]


def expose_runs(chk, tier):
    """Model-level counterexamples, as behaviours for the real code."""
    behaviours = []
    found = {}
    for inv, cfg, faults, max_serial in EXPOSE:
        inv_name = inv
        inv = f"{inv_name}"
        path = mc_cfg(chk, f"expose_{inv}_{cfg_key(cfg)}", cfg,
                      max_faults=faults,
                      max_serial=max_serial, max_session=2,
                      uris="UrisOne" if "Deltas" in inv else "UrisOneX",
                      checks=f"INVARIANT {inv}")
        res = vlib.run_tlc("MC_RepoFiles", path, chk.out, workers=4,
                           timeout=1500)
        chk.add_tlc(f"expose_{inv}_{cfg_key(cfg)}", res)
        reps = sorted(vlib.parse_replays(res.out),
                      key=lambda b: (len(b["actions"]), json.dumps(b)))
        if res.violated == inv and reps:
            beh = reps[0]
            beh["id"] = f"model-{inv}-{cfg_key(cfg)}"
            beh["cfg"] = cfg
            beh["case"] = ["canon"]
            behaviours.append(beh)
            found[f"{inv}:{cfg_key(cfg)}"] = len(beh["actions"])
            vlib.log(f"TLC expose_{inv} {cfg_key(cfg)}: model-level "
                     f"counterexample of "
                     f"{len(beh['actions'])} actions (replayed on the real "
                     f"code below)")
        elif res.violated or res.errors:
            print(res.counterexample()[:2000])
            raise vlib.ToolError(f"expose_{inv}: unexpected {res.violated}")
        else:
            vlib.log(f"TLC expose_{inv}: holds in the model "
                     f"({res.distinct} states)")
    chk.cov["model_level_counterexamples"] = found
    return behaviours


# --------------------------------------------------------------------------
# behaviours
# --------------------------------------------------------------------------

def generate(chk, name, cfg, num, depth, seed, parts=4, **kw):
    """Simulated behaviours (with faults drawn at odds 1:FaultOdds)."""
    path = mc_cfg(chk, f"gen_{name}", cfg, depth=depth, gen=True,
                  checks="INVARIANT PrintBehaviour", **kw)
    outs = [None] * parts
    errors = []

    def work(i):
        try:
            outs[i] = vlib.run_tlc(
                "MC_RepoFiles", path, f"{chk.out}/gen_{name}_{i}", workers=1,
                timeout=900, simulate=max(1, num // parts),
                depth=depth * 14, seed=seed * 1000 + i)
        except Exception as e:   # noqa: BLE001
            errors.append(e)

    threads = [threading.Thread(target=work, args=(i,))
               for i in range(parts)]
    for t in threads:
        t.start()
    for t in threads:
        t.join()
    if errors:
        raise errors[0]
    seen, res = set(), []
    for out in outs:
        if out.violated or out.errors:
            print(out.out[-3000:])
            raise vlib.ToolError("generator MC_RepoFiles reported an error")
        for b in vlib.parse_replays(out.out):
            key = json.dumps(b["actions"], sort_keys=True)
            if key not in seen:
                seen.add(key)
                res.append(b)
    for i, b in enumerate(res):
        b["id"] = f"{name}-{i}"
        b["cfg"] = cfg
        b["case"] = ["canon", "host", "mixed"]
        b["seed"] = seed * 100003 + i
    return res


def P(u, c):
    return {"k": "P", "u": u, "c": c, "h": "-"}


def U(u, h, c):
    return {"k": "U", "u": u, "c": c, "h": h}


def W(u, h):
    return {"k": "W", "u": u, "c": "-", "h": h}


AX, AY, ABX = ["a", "x"], ["a", "y"], ["ab", "x"]


def wr(a):
    return {"a": a, "cut": 0, "mode": "none"}


def delta(p, *elems):
    return {"a": "Delta", "p": p, "elems": list(elems)}


# Base scenarios of the cut enumeration: every write of each is cut at every
# file system mutation, as a crash and as an error; the rest of the scenario
# (further publications, a session reset, rewrites) follows the cut.
SCENARIOS = {
    "grow-shrink": [
        wr("Init"), {"a": "Add", "p": ["a"]},
        delta(["a"], P(AX, "c2")), wr("Update"),
        delta(["a"], U(AX, "c2", "c1"), P(AY, "c1")), wr("Update"),
        delta(["a"], W(AX, "c1")), wr("Update"),
        wr("Reset"),
        delta(["a"], P(AX, "c1")), wr("Update"),
        delta(["a"], W(AY, "c1")), wr("Update"),
        wr("Rewrite"),
    ],
    "reset-early": [
        wr("Init"), {"a": "Add", "p": ["a"]}, {"a": "Add", "p": ["ab"]},
        delta(["a"], P(AX, "c1")), delta(["ab"], P(ABX, "c2")), wr("Update"),
        wr("Reset"),
        delta(["a"], W(AX, "c1")), wr("Update"),
        delta(["ab"], U(ABX, "c2", "c1")), wr("Update"),
        wr("Reset"),
        {"a": "Remove", "p": ["ab"]}, wr("Update"),
        wr("Rewrite"),
    ],
    "rewrite": [
        wr("Init"), {"a": "Add", "p": ["a"]},
        delta(["a"], P(AX, "c1"), P(AY, "c2")), wr("Update"),
        wr("Rewrite"),
        delta(["a"], U(AY, "c2", "c1")), wr("Update"),
        wr("Rewrite"),
        {"a": "Remove", "p": ["a"]}, wr("Update"),
    ],
}


# every row of the merge table of staged elements (rrdp.rs:1890-2012): a
# second delta before the RRDP update
SCENARIOS["staged-merge"] = [
    wr("Init"), {"a": "Add", "p": ["a"]},
    delta(["a"], P(AX, "c1"), P(AY, "c1")), wr("Update"),
    # update then update; update then withdraw
    delta(["a"], U(AX, "c1", "c2"), U(AY, "c1", "c2")),
    delta(["a"], U(AX, "c2", "c1"), W(AY, "c2")), wr("Update"),
    # publish then update / publish then withdraw
    delta(["a"], P(AY, "c2")),
    delta(["a"], U(AY, "c2", "c1")), wr("Update"),
    delta(["a"], W(AX, "c1")), delta(["a"], P(AX, "c2")), wr("Update"),
    # publish then withdraw leaves nothing staged: no update
    delta(["a"], W(AY, "c1")), delta(["a"], P(AY, "c2")),
    delta(["a"], W(AY, "c2")), wr("Update"),
    delta(["a"], P(AY, "c1")), delta(["a"], W(AY, "c1")), wr("Update"),
    wr("Reset"),
    delta(["a"], W(AX, "c2")), delta(["a"], P(AX, "c1")),
    delta(["a"], U(AX, "c1", "c2")), wr("Update"),
]


def cw(a, cut, mode):
    return {"a": a, "cut": cut, "mode": mode}


# The histories on which the pinned tree violated C11 (found by TLC on the
# model, confirmed on the real code, since repaired): executed in every run.
REGRESSIONS = [
    # D4: cut at the notification rename, then a shorter notification
    ("torn-notification", DEFAULT_CFG, [
        cw("Init", 1, "crash"), {"a": "Add", "p": ["a"]},
        delta(["a"], P(AX, "c1")), cw("Update", 4, "crash"), wr("Reset"),
        delta(["a"], W(AX, "c1")), wr("Update")]),
    ("torn-notification-error", DEFAULT_CFG, [
        wr("Init"), {"a": "Add", "p": ["a"]},
        delta(["a"], P(AX, "c1")), cw("Update", 4, "error"), wr("Reset"),
        delta(["a"], W(AX, "c1")), wr("Update")]),
    # S3: cut in front of remove(old), then further writes
    ("stale-old", DEFAULT_CFG, [
        cw("Init", 1, "crash"), {"a": "Add", "p": ["a"]},
        delta(["a"], P(AX, "c1")), wr("Update"), cw("Rewrite", 5, "crash"),
        wr("Rewrite"), delta(["a"], U(AX, "c1", "c2")), wr("Update")]),
    # D2: tmp-2 left behind, session reset, serial 2 again
    ("stale-tmp", DEFAULT_CFG, [
        wr("Init"), {"a": "Add", "p": ["a"]},
        delta(["a"], P(AX, "c1")), cw("Update", 9, "crash"),
        {"a": "Remove", "p": ["a"]}, cw("Reset", 1, "crash"), wr("Update"),
        wr("Rewrite")]),
    # ... and a cut at the removal of the stale tmp-2 itself
    ("stale-tmp-cut", DEFAULT_CFG, [
        wr("Init"), {"a": "Add", "p": ["a"]},
        delta(["a"], P(AX, "c1")), cw("Update", 9, "crash"),
        {"a": "Remove", "p": ["a"]}, cw("Reset", 1, "crash"),
        cw("Update", 6, "crash"), wr("Rewrite"),
        {"a": "Add", "p": ["a"]}, delta(["a"], P(AY, "c2")), wr("Update")]),
    # D3: min_nr = max_nr = 1, five serials
    ("max-nr", {"min_nr": 1, "max_nr": 1, "min_age": "zero",
                "max_age": "inf"}, [
        wr("Init"), {"a": "Add", "p": ["a"]},
        delta(["a"], P(AX, "c2")), wr("Update"),
        delta(["a"], W(AX, "c2")), wr("Update"),
        delta(["a"], P(AX, "c2")), wr("Update"),
        delta(["a"], P(AY, "c1")), wr("Update"),
        delta(["a"], U(AY, "c1", "c2")), wr("Update")]),
]


def regressions():
    return [{"id": f"regression-{name}", "actions": copy.deepcopy(acts),
             "cfg": cfg, "case": ["canon"], "seed": 1}
            for name, cfg, acts in REGRESSIONS]


def is_write(a):
    return a["a"] in ("Init", "Update", "Reset", "Rewrite")


def cut_variants(chk, name, actions, cfg, tag):
    """All single-cut variants of a scenario: learns the number of file
    system mutations of each write from a fault-free run."""
    base = {"id": f"{tag}-{name}-base", "actions": actions, "cfg": cfg,
            "case": ["canon"], "seed": 1}
    trace = vlib.run_harness("run-pub", [base], f"{chk.out}/{tag}_base",
                             crate=CRATE)
    counts, cur = [], None
    for ev in trace:
        if ev["ev"] in ("Init", "Update", "Reset", "Rewrite"):
            cur = 0
        elif ev["ev"] in ("fs", "fserr", "fsfail") and cur is not None:
            cur += 1
        elif ev["ev"] == "wend":
            counts.append(cur or 0)
            cur = None
    widx = [i for i, a in enumerate(actions) if is_write(a)]
    if len(widx) != len(counts):
        raise vlib.ToolError("cut enumeration: write count mismatch")
    variants = [base]
    for w, n in zip(widx, counts):
        for k in range(1, n + 1):
            for mode in ("crash", "error"):
                acts = copy.deepcopy(actions)
                acts[w]["cut"] = k
                acts[w]["mode"] = mode
                variants.append({
                    "id": f"{tag}-{name}-w{w}-k{k}-{mode}", "actions": acts,
                    "cfg": cfg, "case": ["canon"], "seed": 1})
    return variants, sum(counts)


def behaviour_of(segment):
    head = segment[0]
    acts = []
    for ev in segment[1:]:
        if ev["ev"] in ("fs", "fserr", "fsfail", "wend"):
            continue
        a = {"a": ev["ev"]}
        for k in ("p", "elems", "variants", "cut", "mode"):
            if k in ev:
                a[k] = ev[k]
        acts.append(a)
    return {"id": head.get("behaviour"), "cfg": head.get("cfg", DEFAULT_CFG),
            "case": head.get("case", ["canon"]), "seed": head.get("seed", 1),
            "actions": acts}


def culprit(rej):
    """Facts about the offending write: what kind of write, how it ended,
    what earlier interrupted writes had left behind, which cuts the
    behaviour contained."""
    seg = rej["segment"]
    line = min(rej["line"], len(seg) - 1)
    ev = seg[line] if seg else {}
    parts = [str(ev.get("ev"))]
    if ev.get("ev") == "wend":
        parts = [f"{ev.get('of')}:{ev.get('wres')}"]
    elif ev.get("ev") in ("fs", "fserr", "fsfail"):
        parts = [f"{ev.get('ev')}:{ev['op'][0]}"]
    # the disk before this write: the previous wend
    wends = [e for e in seg[:line] if e.get("ev") == "wend"]
    # the write that ends at `line` started after the previous wend
    before = wends[-1]["disk"] if wends else None
    left = []
    if before:
        if before.get("newnotif"):
            left.append("new-notification")
        if before["rs"]["old"]["exists"] and before["rs"]["old"]["objs"]:
            left.append("old-dir")
        elif before["rs"]["old"]["exists"]:
            left.append("empty-old-dir")
        if any(t["objs"] for t in before["rs"]["tmp"]):
            left.append("tmp-dir")
    # conformance (computed disk # real disk): the component and the write
    if rej["violated"] in AGREE:
        return parts[0]
    # the left-over that explains the violated property, if it is there
    relevant = {"ONotificationParsable": "new-notification",
                "OInterruptedWriteNeverBlocks": "old-dir",
                "TraceRsyncEq": "tmp-dir"}.get(rej["violated"])
    if relevant and relevant in left:
        return f"left={relevant}"
    if left:
        parts.append("left=" + "+".join(left))
    cuts = sorted({f"{e.get('mode')}@{e['cut_at'][0]}" for e in seg[:line + 1]
                   if e.get("ev") in ("Init", "Update", "Reset", "Rewrite")
                   and e.get("cut_at", ["none"])[0] != "none"})
    if cuts:
        parts.append("cuts=" + "+".join(cuts))
    cfg = seg[0].get("cfg", DEFAULT_CFG) if seg else DEFAULT_CFG
    if rej["violated"] == "ODeltasNeverExceedMaxNr":
        why = []
        if cfg["min_nr"] >= cfg["max_nr"]:
            why.append("min_nr>=max_nr")
        if cfg["min_age"] != "zero":
            why.append("min_seconds-keeps-young")
        return "+".join(why) or (f"min_nr={cfg['min_nr']},"
                                 f"max_nr={cfg['max_nr']}")
    if rej["violated"] and "DeltasBounded" in rej["violated"]:
        return ("min_nr>=max_nr" if cfg["min_nr"] >= cfg["max_nr"]
                else f"min_nr={cfg['min_nr']},max_nr={cfg['max_nr']}")
    return ":".join(parts)


def report(chk, rej, tag, exclude):
    beh = behaviour_of(rej["segment"])
    ev = rej["event"] or {}
    sig = f"{rej['violated'] or 'no-action-matches'}:{culprit(rej)}"
    seen = chk.cov.setdefault("rejections_by_signature", {})
    seen[sig] = seen.get(sig, 0) + 1
    if seen[sig] > 1:
        return False
    chk.report(
        sig,
        f"behaviour {beh['id']}: the real repository directory leaves the "
        f"specification / violates {rej['violated']} at trace line "
        f"{rej['line']} ({ev.get('ev')} {ev.get('of', '')} "
        f"{ev.get('wres', '')})",
        {"driver": "run-pub", "behaviour": beh, "exclude": sorted(exclude),
         "trace": rej["segment"], "line": rej["line"]})
    return True


def again(chk, rej, cfg, tag, exclude, depth):
    """The behaviour may violate further properties behind the first one:
    validates it again without the violated ones."""
    if depth > 5:
        return
    v = vlib.validate_trace("RepoFilesTrace", trace_cfg(chk, cfg, exclude),
                            rej["segment"], f"{chk.out}/{tag}", tag="again")
    if v.accepted:
        return
    pos = v.matched if v.violated is None else v.matched - 1
    seg = rej["segment"]
    rej2 = {"segment": seg, "line": pos, "violated": v.violated,
            "event": seg[pos] if pos < len(seg) else None,
            "tlc": v.out[-3000:]}
    report(chk, rej2, tag, exclude)
    if v.violated:
        again(chk, rej2, cfg, tag, exclude | {v.violated}, depth + 1)


def run_and_validate(chk, behaviours, tag, exclude=(), revalidate=True):
    """Executes the behaviours, validates the traces (grouped by retention
    configuration).  Returns (trace, rejections)."""
    if not behaviours:
        return [], []
    trace = vlib.run_harness("run-pub", behaviours, f"{chk.out}/{tag}",
                             crate=CRATE)
    groups = {}
    for seg in vlib.split_behaviours(trace):
        cfg = seg[0].get("cfg", DEFAULT_CFG)
        groups.setdefault(cfg_key(cfg), (cfg, []))[1].append(seg)
    all_rej = []
    cap = 12
    for key, (cfg, segs) in groups.items():
        pending = segs
        excl = set(exclude)
        while pending:
            flat = [ev for s in pending for ev in s]
            validated, rejections, states = vlib.validate_all(
                "RepoFilesTrace", trace_cfg(chk, cfg, excl), flat,
                f"{chk.out}/{tag}", max_rejections=cap)
            chk.cov["traces_validated_against_impl"] += validated
            chk.cov["trace_states"] = chk.cov.get("trace_states", 0) + states
            for rej in rejections:
                first = report(chk, rej, tag, excl)
                if revalidate and rej["violated"] and first:
                    again(chk, rej, cfg, tag, set(excl) | {rej["violated"]},
                          1)
            all_rej.extend(rejections)
            if len(rejections) < cap:
                break
            # Many behaviours run into the same (reported) properties: go
            # on behind the last rejected behaviour without them, so that
            # the remaining behaviours are still validated against all the
            # other properties.
            last = rejections[-1]["segment"]
            idx = next(i for i, s in enumerate(pending) if s is last
                       or s[0].get("behaviour") == last[0].get("behaviour"))
            pending = pending[idx + 1:]
            excl |= {r["violated"] for r in rejections
                     if r["violated"] and r["violated"] not in AGREE}
    for seg in vlib.split_behaviours(trace):
        beh = behaviour_of(seg)
        wres = [e.get("wres") for e in seg if e.get("ev") == "wend"]
        cov = chk.cov.setdefault("real_writes", {})
        for r in wres:
            cov[r] = cov.get(r, 0) + 1
        ops = chk.cov.setdefault("real_fs_ops", {})
        for e in seg:
            if e.get("ev") in ("fs", "fserr", "fsfail"):
                ops[e["op"][0]] = ops.get(e["op"][0], 0) + 1
        cuts = chk.cov.setdefault("real_cuts", {})
        for e in seg:
            if e.get("ev") == "wend" and e.get("cut_at", ["none"])[0] != "none":
                k = f"{e['wres']}@{e['cut_at'][0]}"
                cuts[k] = cuts.get(k, 0) + 1
        nontrivial = wres.count("ok") >= 2 and any(
            r in ("crash", "ioerr", "ioerr-ignored") for r in wres)
        chk.count_case(beh["actions"], nontrivial)
    return trace, all_rej


# --------------------------------------------------------------------------
# self test
# --------------------------------------------------------------------------

def self_test(chk, trace):
    """Anti-vacuity: corrupted accepted traces must be rejected."""
    segs = vlib.split_behaviours(trace)
    done = {}

    def check(bad, cfg, what, expect):
        v = vlib.validate_trace("RepoFilesTrace", trace_cfg(chk, cfg), bad,
                                f"{chk.out}/selftest", tag="mutated")
        if v.accepted:
            raise vlib.ToolError(f"self-test failed: {what} was accepted")
        if expect and (v.violated or "no-action-matches") not in expect:
            raise vlib.ToolError(
                f"self-test: {what} rejected for {v.violated}, expected "
                f"one of {expect}")
        done[what] = v.violated or "no-action-matches"

    for seg in segs:
        cfg = seg[0].get("cfg", DEFAULT_CFG)
        for i, ev in enumerate(seg):
            if ev.get("ev") != "wend" or ev.get("wres") != "ok":
                continue
            disk = ev["disk"]
            if "hash" not in done and disk["notif"]["state"] == "ok" \
                    and disk["notif"]["deltas"]:
                bad = copy.deepcopy(seg[:i + 1])
                bad[i]["disk"]["notif"]["deltas"][0]["h"] = "00" * 32
                check(bad, cfg, "hash", {"RealRefsExist"})
            if "snapshot-object" not in done and any(
                    f["k"] == "snap" and f["body"] for f in disk["files"]):
                bad = copy.deepcopy(seg[:i + 1])
                for f in bad[i]["disk"]["files"]:
                    if f["k"] == "snap" and f["body"]:
                        f["body"] = f["body"][1:]
                check(bad, cfg, "snapshot-object", {"FilesAgree"})
            if "rsync-object" not in done and disk["rs"]["cur"]["objs"]:
                bad = copy.deepcopy(seg[:i + 1])
                bad[i]["disk"]["rs"]["cur"]["objs"] = \
                    bad[i]["disk"]["rs"]["cur"]["objs"][1:]
                check(bad, cfg, "rsync-object", {"RsyncAgree"})
            if "delta-dropped" not in done \
                    and len(disk["notif"]["deltas"]) >= 2:
                bad = copy.deepcopy(seg[:i + 1])
                bad[i]["disk"]["notif"]["deltas"] = \
                    bad[i]["disk"]["notif"]["deltas"][:1]
                check(bad, cfg, "delta-dropped", {"NotifAgree"})
            if "serial-skipped" not in done and disk["notif"]["state"] == "ok":
                bad = copy.deepcopy(seg[:i + 1])
                bad[i]["stats"]["serial"] += 1
                check(bad, cfg, "serial-skipped", {"StatsAgree11"})
        if len(done) == 5:
            break
    if len(done) < 5:
        raise vlib.ToolError(f"self-test: not all corruptions found a "
                             f"place ({done})")
    chk.cov["selftest"] = done


# --------------------------------------------------------------------------

def extra_findings(chk):
    """Test aid: VERIF_EXTRA_FINDINGS=<json file> adds entries in the format
    of known-findings.json for this run (used to show that a seeded
    mutation is detected next to findings that are not listed yet)."""
    path = os.environ.get("VERIF_EXTRA_FINDINGS")
    if path:
        with open(path) as f:
            chk.findings += [x for x in json.load(f).get("findings", [])
                             if x.get("property") == PID]


def run(tier, seed):
    chk = vlib.Check(PID, LEVEL, tier, seed)
    extra_findings(chk)
    quick = tier == "quick"
    chk.assumptions = [
        "the logical state (WAL store) survives a crash and a cut never "
        "falls inside a key-value mutation (that is C08's subject); cuts "
        "are placed in front of every file system mutation of a repository "
        "write (krill::verif fault points with label prefix 'fs:')",
        "a file system mutation is atomic (no torn single write, no "
        "reordering by the kernel): what the fault points can produce",
        "hashes are identified with file bodies in the model; on the real "
        "side SHA-256 of the bytes on disk is compared with the hash "
        "stated in notification.xml",
        "ages: rrdp_delta_files_{min,max}_seconds are 0 or ten days, so "
        "that no outcome depends on the duration of a run; serials stay "
        "below 10 (text length of the notification)",
        "requests and writes are sequential (concurrent writers, S8, are "
        "not exercised: needs a yield point between update_rrdp and "
        "write_repository_content)",
        "RRDP clients follow RFC 8182 strictly (publish without hash only "
        "for a new URI, hashes must match)",
    ]
    model_runs(chk, tier)
    vlib.log(f"model runs done at {time.time() - chk.t0:.0f}s")
    exposed = expose_runs(chk, tier)
    vlib.log(f"expose runs done at {time.time() - chk.t0:.0f}s")

    # 1. model-level counterexamples and the regression histories on the
    #    real code
    run_and_validate(chk, exposed + regressions(), "exposed")

    # 2. every cut of every write of the base scenarios
    cut_behs = []
    total_ops = 0
    scen = list(SCENARIOS.items())
    cfgs = [DEFAULT_CFG] if quick else [
        DEFAULT_CFG,
        {"min_nr": 0, "max_nr": 1, "min_age": "zero", "max_age": "inf"},
        {"min_nr": 1, "max_nr": 3, "min_age": "zero", "max_age": "inf"}]
    for ci, cfg in enumerate(cfgs):
        for name, actions in scen:
            v, n = cut_variants(chk, name, actions, cfg, f"cut{ci}")
            total_ops += n
            cut_behs.extend(v)
    if quick:
        base = [b for b in cut_behs if b["id"].endswith("-base")]
        rest = [b for b in cut_behs if not b["id"].endswith("-base")]
        chk.rng.shuffle(rest)
        cut_behs = base + rest[:160]
    chk.cov["cut_enumeration"] = {
        "fs_mutations_in_base_scenarios": total_ops,
        "cut_behaviours_executed": len(cut_behs),
        "all_cuts": not quick}
    vlib.log(f"cut enumeration: {total_ops} file system mutations in the "
             f"base scenarios, {len(cut_behs)} cut behaviours executed")
    trace_c, rej_c = run_and_validate(chk, cut_behs, "cuts")
    vlib.log(f"cut enumeration done at {time.time() - chk.t0:.0f}s")

    # 3. generated behaviours (TLC simulation with faults), several
    #    retention configurations
    gen_cfgs = [
        ("g02", DEFAULT_CFG), ("g01", dict(DEFAULT_CFG, max_nr=1)),
        ("g13", dict(DEFAULT_CFG, min_nr=1, max_nr=3)),
    ]
    if not quick:
        gen_cfgs += [
            ("g03", dict(DEFAULT_CFG, max_nr=3)),
            ("g12", dict(DEFAULT_CFG, min_nr=1, max_nr=2)),
            ("g02zz", dict(DEFAULT_CFG, max_age="zero")),
            ("g02ii", dict(DEFAULT_CFG, min_age="inf")),
            ("g11", dict(DEFAULT_CFG, min_nr=1, max_nr=1)),
            ("g22", dict(DEFAULT_CFG, min_nr=2, max_nr=2)),
        ]
    generated = []
    for i, (name, cfg) in enumerate(gen_cfgs):
        generated += generate(
            chk, name, cfg, 60 if quick else 400, 16, seed + i,
            pubs="PubsFlat2", uris="UrisOneEach", deltas="Deltas2",
            max_serial=8, max_session=4, max_faults=3, odds=12)
    vlib.log(f"{len(generated)} generated behaviours at "
             f"{time.time() - chk.t0:.0f}s")
    for b in generated[:2]:
        chk.sample(b["actions"][:10])
    trace_g, rej_g = run_and_validate(chk, generated, "generated")

    # every kind of file system mutation and both kinds of cut must have
    # been exercised on the real code
    ops = chk.cov.get("real_fs_ops", {})
    need = ["delta", "snap", "newnotif", "rename", "rmsession", "rmserial",
            "rmsnap", "rmtmp", "tmp", "tmpfile", "cur2old", "new2cur",
            "rmold"]
    missing = [o for o in need if ops.get(o, 0) == 0]
    if missing:
        raise vlib.ToolError(f"file system mutations never seen: {missing}")
    writes = chk.cov.get("real_writes", {})
    for r in ("ok", "crash", "ioerr"):
        if writes.get(r, 0) == 0:
            raise vlib.ToolError(f"no write ended with '{r}'")
    if chk.violations:
        # violations have been reported: the self-test must not turn the
        # verdict into a tool error
        try:
            self_test(chk, trace_c + trace_g)
        except vlib.ToolError as e:
            vlib.log(f"self-test incomplete after violations: {e}")
    else:
        self_test(chk, trace_c + trace_g)
    chk.cov["rule"] = (
        "(1) TLC exhaustive on MC_RepoFiles: every interleaving of "
        "publications, updates, resets, rewrites with a crash or I/O error "
        "in front of every file system mutation (1 fault quick / 2 "
        "thorough), and a grid of retention configurations; (2) the "
        "model-level counterexamples of the properties the specification "
        "violates (it models the code's quirks) are replayed on the real "
        "code; (3) fault enumeration: every write of 4 base scenarios is "
        "cut at every file system mutation as crash and as error (all cuts "
        "in thorough, a seeded sample of 150 in quick) and the scenario "
        "continues; (4) TLC-simulated behaviours with random faults under "
        "3 (quick) / 9 (thorough) retention configurations.  Every "
        "behaviour is executed on the real RepositoryManager, its "
        "repository directory projected after every write and the trace "
        "validated by TLC against RepoFilesTrace.  distinct = distinct "
        "action sequences; non-trivial = at least two successful writes "
        "and one cut")
    return chk.finish()


def replay(path, seed):
    with open(path) as f:
        data = json.load(f)
    rp = data["replay"]
    chk = vlib.Check(PID, LEVEL, "replay", seed)
    extra_findings(chk)
    run_and_validate(chk, [rp["behaviour"]], "replay",
                     exclude=tuple(rp.get("exclude", [])), revalidate=False)
    # no evidence file for a replay (the evidence of the last full run stays)
    vlib.log(f"{PID} replay: violations={len(chk.violations)} "
             f"known={len(chk.known)}")
    return 1 if chk.violations else 0
