"""C04 -- decided with spec/Krill.tla + KrillTrace.tla (see krill_common.py)."""
from checks import krill_common as kc

PID = "C04"
LEVEL = "model_checking"
THEMES = "roll,multi,mix,taroll".split(",")
NEEDED = "RollInit,RollActivate,Settled".split(",")

RULE = (
    "behaviours = TLC simulation of MC_Krill_gen (themes " + ", ".join(THEMES)
    + "): API operations interleaved with single named background tasks and "
    "Settle points; each is executed on a real in-process Krill (TA proxy "
    "and signer, CAs, publication server, task queue); after every event "
    "the state projected onto the variables of Krill.tla, the serial-number "
    "level facts per key and a relying-party walk are recorded, and TLC "
    "validates the whole trace against KrillTrace.tla; distinct = distinct "
    "event sequences; non-trivial = reaches a settled state after at least "
    "two kinds of API operations")


def _a(a, **kw):
    d = {"a": a}
    d.update(kw)
    return d


DIRECTED = [
    # a plain roll of a CA with a child and products
    {"actions": [
        _a("AddCa", c="B", p="A", res=["p1", "p2", "a1"]), _a("Settle"),
        _a("AddCa", c="C", p="B", res=["p1"]), _a("Settle"),
        _a("RoaAdd", c="B", r=["p2", "a1"]), _a("Settle"),
        _a("RollInit", c="B"), _a("Settle"), _a("RollActivate", c="B"),
        _a("Settle")]},
    # the entitlement shrinks, the CA rolls before its current key has been
    # synchronised: the new key's certificate holds less than the old one's
    # and the products it does not cover must not move to it
    {"actions": [
        _a("AddCa", c="D", p="A", res=["p2", "a1"]), _a("Settle"),
        _a("RoaAdd", c="D", r=["p2", "a1"]), _a("Settle"),
        _a("ChildRes", c="D", p="A", res=["a1"]), _a("RollInit", c="D"),
        _a("Step", task="sync_D_with_parent_A"),
        _a("RollActivate", c="D"), _a("Step", task="sync_repo_D"),
        _a("Settle")]},
]


def run(tier, seed):
    return kc.run_property(
        PID, LEVEL, tier, seed, THEMES,
        quick_num=24, thorough_num=250,
        assumptions=kc.COMMON_ASSUMPTIONS, rule=RULE, needed_events=NEEDED,
        mc_cfgs=(['MC_Krill_q_roll.cfg', 'MC_Krill_q_taroll.cfg',
                  # "always completes" as temporal properties
                  'MC_Krill_live_q_roll.cfg', 'MC_Krill_live_sanity.cfg']
                 if tier == "quick" else
                 ['MC_Krill_q_roll.cfg', 'MC_Krill_q_taroll.cfg',
                  'MC_Krill_q_multi.cfg', 'MC_Krill_roll.cfg',
                  'MC_Krill_live_q_roll.cfg', 'MC_Krill_live_sanity.cfg',
                  'MC_Krill_live_roll5.cfg']),
        directed=(DIRECTED + kc.MULTI_DIRECTED[1:]
                  + kc.clause("roll-interleaved", "roll-parent-and-child",
                              "roll-new-key-covers-more",
                              "roll-new-key-covers-less",
                              "roll-activate-with-open-requests")
                  + kc.TA_DIRECTED),
        theme_nums={"multi": (8, 80), "mix": (6, 60), "taroll": (8, 80)})


def replay(path, seed):
    return kc.replay(PID, LEVEL, path, seed)
