"""C10  Publication protocol: atomic deltas, hash checks and publisher
isolation.

Spec: spec/PubServer.tla (publishers, jails, current and staged objects with
the coded merge table, logical RRDP state), MC_PubServer (exhaustive small
configurations), MC_PubServer_gen (behaviour generator), PubServerTrace
(validation of what the real RepositoryManager answered).

Binding: harness-pub `run-pub` sends every generated request through the
signed RFC 8181 path (RepositoryManager::rfc8181 with a CMS signed by the
publisher's identity key), runs Task::RrdpUpdateIfNeeded through the real
task processing, and after every request records the list reply and the
publisher details of *every* publisher; TLC evaluates the properties of C10
on those observations.
"""
import copy
import json
import os
import re
import threading

import vlib

PID = "C10"
LEVEL = "model_checking"
CRATE = "harness-pub"

# Defects of the pinned tree that the specification can still model through
# constants (see the CONSTANTS of PubServer.tla / RepoFiles.tla).  The values
# describe the current /repo, in which they are repaired; the static
# spec/*.cfg files carry the same values (spec/MC_RepoFiles_pinned.cfg the
# old ones).
CODE_VARIANT = {
    "MaxNrEquality": "FALSE",     # 3d66903f rrdp.rs:440 keep + 1 >= max_nr
    "TruncateOnCreate": "TRUE",   # 99a13ae1 file.rs create_file truncates
    "RemoveTmpFirst": "TRUE",     # 6e18ad8e rsync.rs stale tmp-N removed
    "RemoveOldFirst": "TRUE",     # 0b66fb18 rsync.rs stale old/ removed
}

RETENTION = {"min_nr": 0, "max_nr": 2, "min_age": "zero", "max_age": "inf"}

# handles / URIs of the generator configurations (see spec/PubNames.tla)
GEN_CFGS = {
    # name: (Pubs, Uris)
    "flat": ("PubsFlat", "UrisFlat"),
    "nested": ("PubsNested", "UrisNested"),
    "two": ("PubsTwo", "UrisTwo"),
}

GEN_TEMPLATE = """CONSTANTS
  Pubs <- {pubs}
  Uris <- {uris}
  Contents <- Cont
  Size <- SizeSmall
  MinNr = 0
  MaxNr = 2
  MinAge = "zero"
  MaxAge = "inf"
  MaxNrEquality = {variant[MaxNrEquality]}
  MaxSerial = 99
  MaxSession = 99
  DeltaChoices <- {deltas}
  Depth = {depth}
  MaxStreak = {streak}
  MaxElems = 3
  Exhaustive = {exhaustive}
INIT GenInit
NEXT GenNext
{constraint}INVARIANT PrintBehaviour
CHECK_DEADLOCK FALSE
"""

TRACE_TEMPLATE = """CONSTANTS
  Pubs <- PubsAllTrace
  Uris <- UrisAllTrace
  Contents <- Cont
  Size <- SizeSmall
  MinNr = 0
  MaxNr = 2
  MinAge = "zero"
  MaxAge = "inf"
  MaxNrEquality = {variant[MaxNrEquality]}
  MaxSerial = 99
  MaxSession = 99
  DeltaChoices = {{}}
SPECIFICATION TraceSpec
{invariants}
{properties}
POSTCONDITION TraceAccepted
CHECK_DEADLOCK FALSE
"""

INVARIANTS = ["TraceTypeOK", "TraceStagedApplies", "TraceUnregistered",
              "ListIsCurrentPlusStaged", "NoPanic", "StatsAgree",
              "DetailsAgree", "RepliesAgree", "PublishedAgrees",
              "IsolationPublished"]
PROPERTIES = ["TraceAppliedIff", "TraceDeltaAtomic", "TraceUnknownRefused",
              "TraceIsolation", "TraceRemoveWithdrawsExactlyOwn",
              "TraceUpdatePublishesViews", "TraceSerialPlusOne",
              "TraceSessionOnlyOnReset"]


def write_cfg(path, text):
    with open(path, "w") as f:
        f.write(text)
    return path


def trace_cfg(chk, exclude=()):
    name = "trace_" + ("_".join(sorted(exclude)) or "all") + ".cfg"
    path = os.path.join(chk.out, name)
    if not os.path.exists(path):
        write_cfg(path, TRACE_TEMPLATE.format(variant=CODE_VARIANT, 
            invariants="\n".join(f"INVARIANT {i}" for i in INVARIANTS
                                 if i not in exclude),
            properties="\n".join(f"PROPERTY {p}" for p in PROPERTIES
                                 if p not in exclude)))
    return path


# --------------------------------------------------------------------------
# model
# --------------------------------------------------------------------------

def action_counts(out):
    """Per-action counts of a TLC run with -coverage (also actions whose
    location carries a sub-expression suffix)."""
    res = {}
    for m in re.finditer(r"^<(\w+) line \d+, col \d+ to line \d+, col \d+ "
                         r"of module \w+(?: \([\d ]+\))?>: (\d+):(\d+)", out,
                         re.M):
        res[m.group(1)] = res.get(m.group(1), 0) + int(m.group(3))
    return res


def model_runs(chk, tier):
    runs = [("MC_PubServer_nested.cfg", 600, None),
            ("MC_PubServer_three.cfg", 900, None),
            # the nested jails of the code: the specification (which models
            # what the code does) is expected to violate IsolationPublished
            ("MC_PubServer_nested_iso.cfg", 600, "IsolationPublished")]
    if tier == "thorough":
        runs.append(("MC_PubServer_flat.cfg", 1800, None))
        runs.append(("MC_PubServer_three2.cfg", 2400, None))
    expected_hits = []
    taken = {}
    for cfg, timeout, expect in runs:
        # per-action coverage slows TLC down a lot: smallest run only
        res = vlib.run_tlc("MC_PubServer", cfg, chk.out, workers=12,
                           timeout=timeout,
                           coverage=(cfg == "MC_PubServer_nested.cfg"))
        chk.add_tlc(cfg, res)
        for a, n in action_counts(res.out).items():
            taken[a] = taken.get(a, 0) + n
        if expect:
            if res.violated != expect:
                raise vlib.ToolError(
                    f"{cfg}: expected the model to violate {expect} "
                    f"(nested jails as coded), got {res.violated}")
            expected_hits.append(expect)
            vlib.log(f"TLC {cfg}: model violates {expect} as the code is "
                     f"modelled (to be confirmed on the real code)")
            continue
        if res.violated or res.errors:
            print(res.counterexample()[:3000])
            raise vlib.ToolError(
                f"model {cfg} violates {res.violated}: specification and "
                f"properties disagree (not a finding on the code)")
        vlib.log(f"TLC {cfg}: {res.distinct} distinct states, "
                 f"{res.generated} generated, no violation")
    needed = ["AddPublisher", "RemovePublisher", "Delta", "List",
              "RrdpUpdate", "SessionReset"]
    missing = [a for a in needed if taken.get(a, 0) == 0]
    if missing:
        raise vlib.ToolError(f"actions never taken in the model: {missing}")
    chk.cov["actions_covered"].update(taken)
    return expected_hits


# --------------------------------------------------------------------------
# behaviours
# --------------------------------------------------------------------------

def gen_cfg(chk, name, depth, bfs=False):
    pubs, uris = GEN_CFGS[name]
    path = os.path.join(chk.out, f"gen_{name}_{depth}{'_bfs' if bfs else ''}"
                                 ".cfg")
    write_cfg(path, GEN_TEMPLATE.format(variant=CODE_VARIANT, 
        pubs=pubs, uris=uris, depth=depth,
        deltas="Deltas1" if bfs else "Deltas2",
        streak=99 if bfs else 2,
        exhaustive="TRUE" if bfs else "FALSE",
        constraint="CONSTRAINT DepthBound\n" if bfs else ""))
    return path


def generate(chk, name, num, depth, seed, parts=4):
    """Simulated behaviours, generated by `parts` TLC processes."""
    cfg = gen_cfg(chk, name, depth)
    results = [None] * parts
    errors = []

    def work(i):
        try:
            results[i] = vlib.generate_behaviours(
                "MC_PubServer_gen", cfg, f"{chk.out}/gen_{name}_{i}",
                num=max(1, num // parts), depth=depth,
                seed=seed * 1000 + i)
        except Exception as e:   # noqa: BLE001
            errors.append(e)

    threads = [threading.Thread(target=work, args=(i,))
               for i in range(parts)]
    for t in threads:
        t.start()
    for t in threads:
        t.join()
    if errors:
        raise errors[0]
    seen, res = set(), []
    for part in results:
        for b in part:
            key = json.dumps(b["actions"], sort_keys=True)
            if key not in seen:
                seen.add(key)
                res.append(b)
    return res


def prepare(behaviours, cases, tag, seed):
    out = []
    for i, b in enumerate(behaviours):
        out.append({"id": f"{tag}-{i}", "actions": b["actions"],
                    "cfg": RETENTION, "case": cases,
                    "seed": seed * 100003 + i})
    return out


def behaviour_of(segment):
    head = segment[0]
    acts = []
    for ev in segment[1:]:
        if ev["ev"] in ("fs", "fserr", "fsfail", "wend", "Init"):
            continue
        a = {"a": ev["ev"]}
        for k in ("p", "elems", "variants", "cut", "mode"):
            if k in ev:
                a[k] = ev[k]
        acts.append(a)
    return {"id": head.get("behaviour"), "cfg": head.get("cfg", RETENTION),
            "case": head.get("case", ["canon"]), "seed": head.get("seed", 1),
            "actions": acts}


def is_prefix(p, q):
    return len(p) < len(q) and q[:len(p)] == p


def culprit(rej):
    """What the offending request looked like (stable part of a signature)."""
    ev = rej["event"] or {}
    seg = rej["segment"]
    kind = ev.get("ev")
    parts = [str(kind)]
    if kind == "Delta":
        kinds = "".join(sorted(set(e["k"] for e in ev.get("elems", []))))
        parts.append(f"reply={'ok' if ev.get('ok') else 'refused'}")
        parts.append(f"elems={kinds}")
        # all spellings (scheme/host case) under which the URIs of this
        # delta have been sent by accepted deltas so far, and now
        uris = [json.dumps(e["u"]) for e in ev.get("elems", [])]
        spell = set(ev.get("variants", []))
        for prev in seg[:rej["line"]]:
            if prev.get("ev") == "Delta" and prev.get("ok"):
                for e, v in zip(prev.get("elems", []),
                                prev.get("variants", [])):
                    if json.dumps(e["u"]) in uris:
                        spell.add(v)
        if "scheme" in spell and len(spell) > 1:
            # upper-case scheme with lower-case host next to any other
            # spelling (the others are interchangeable for the code)
            return "Delta:spellings=scheme+other"
        # (spellings without that one are interchangeable: not recorded)
    elif kind in ("Add", "Remove", "List"):
        parts.append(f"reply={'ok' if ev.get('ok') else 'refused'}")
    # a URI held by two publishers, and how their handles relate
    held = {}
    for x in ev.get("lists", []):
        for o in x.get("objs", []):
            held.setdefault(json.dumps(o[0]), []).append(x["p"])
    shared = [ps for ps in held.values()
              if len({json.dumps(p) for p in ps}) > 1]
    if shared and rej["violated"] == "IsolationPublished":
        nested = any(is_prefix(p, q) or is_prefix(q, p)
                     for ps in shared for p in ps for q in ps if p != q)
        return f"{kind}:shared-uri:" + ("nested-handles" if nested
                                        else "unrelated-handles")
    if shared:
        nested = any(is_prefix(p, q) or is_prefix(q, p)
                     for ps in shared for p in ps for q in ps if p != q)
        parts.append("shared-uri:" + ("nested-handles" if nested
                                      else "unrelated-handles"))
    if ev.get("panic"):
        parts.append("panic")
    return ":".join(parts)


def run_and_validate(chk, behaviours, tag, exclude=(), revalidate=True,
                     max_rejections=25):
    if not behaviours:
        return [], []
    trace = vlib.run_harness("run-pub", behaviours, f"{chk.out}/{tag}",
                             crate=CRATE)
    cfg = trace_cfg(chk, exclude)
    validated, rejections, states = vlib.validate_all(
        "PubServerTrace", cfg, trace, f"{chk.out}/{tag}",
        max_rejections=max_rejections)
    chk.cov["traces_validated_against_impl"] += validated
    chk.cov["trace_states"] = chk.cov.get("trace_states", 0) + states
    for seg in vlib.split_behaviours(trace):
        beh = behaviour_of(seg)
        kinds = {a["a"] for a in beh["actions"]}
        accepted = any(ev.get("ev") == "Delta" and ev.get("ok")
                       for ev in seg)
        refused = any(ev.get("ev") == "Delta" and not ev.get("ok")
                      for ev in seg)
        for k in kinds:
            chk.cov.setdefault("real_actions", {}).setdefault(k, 0)
            chk.cov["real_actions"][k] += 1
        chk.count_case(beh["actions"],
                       accepted and refused and "Update" in kinds)
    for rej in rejections:
        first = report(chk, rej, tag, exclude)
        if revalidate and rej["violated"] and first:
            # the behaviour may violate further properties behind the first
            # one: validate it again without the violated property
            again(chk, rej, tag, set(exclude) | {rej["violated"]}, 1)
    return trace, rejections


def again(chk, rej, tag, exclude, depth):
    if depth > 4:
        return
    cfg = trace_cfg(chk, exclude)
    v = vlib.validate_trace("PubServerTrace", cfg, rej["segment"],
                            f"{chk.out}/{tag}", tag="again")
    if v.accepted:
        return
    pos = v.matched if v.violated is None else v.matched - 1
    seg = rej["segment"]
    rej2 = {"segment": seg, "line": pos, "violated": v.violated,
            "event": seg[pos] if pos < len(seg) else None,
            "tlc": v.out[-3000:]}
    report(chk, rej2, tag, exclude)
    if v.violated:
        again(chk, rej2, tag, exclude | {v.violated}, depth + 1)


def report(chk, rej, tag, exclude):
    """Reports a rejection; one report per signature (further ones are
    counted).  Returns whether this was the first of its signature."""
    beh = behaviour_of(rej["segment"])
    ev = rej["event"] or {}
    sig = f"{rej['violated'] or 'no-action-matches'}:{culprit(rej)}"
    seen = chk.cov.setdefault("rejections_by_signature", {})
    seen[sig] = seen.get(sig, 0) + 1
    if seen[sig] > 1:
        return False
    chk.report(
        sig,
        f"real publication server leaves the specification at step "
        f"{rej['line']} ({ev.get('ev')} by {ev.get('p')}): violated="
        f"{rej['violated']} reply={ev.get('res')}",
        {"driver": "run-pub", "behaviour": beh, "exclude": sorted(exclude),
         "trace": rej["segment"], "line": rej["line"]})
    return True


# --------------------------------------------------------------------------
# self test
# --------------------------------------------------------------------------

def self_test(chk, trace):
    """Anti-vacuity: corrupted accepted traces must be rejected, each for
    the right reason."""
    segs = vlib.split_behaviours(trace)
    done = {}

    def check(bad, what, expect):
        v = vlib.validate_trace("PubServerTrace", trace_cfg(chk), bad,
                                f"{chk.out}/selftest", tag="mutated")
        if v.accepted:
            raise vlib.ToolError(f"self-test failed: {what} was accepted")
        if expect and v.violated not in expect:
            raise vlib.ToolError(
                f"self-test: {what} rejected for {v.violated}, expected "
                f"one of {expect}")
        done[what] = v.violated or "no-action-matches"

    for seg in segs:
        for i, ev in enumerate(seg):
            if "refused-accepted" not in done and ev.get("ev") == "Delta" \
                    and not ev.get("ok") and ev.get("elems") \
                    and ev.get("p") in [x["p"] for x in ev.get("lists", [])
                                        if x["details"].get("known")]:
                bad = copy.deepcopy(seg[:i + 1])
                bad[i]["ok"] = True
                check(bad, "refused-accepted",
                      {"TraceAppliedIff", "TraceDeltaAtomic",
                       "ListIsCurrentPlusStaged", "TraceStagedApplies"})
            if "accepted-refused" not in done and ev.get("ev") == "Delta" \
                    and ev.get("ok") and ev.get("elems"):
                bad = copy.deepcopy(seg[:i + 1])
                bad[i]["ok"] = False
                check(bad, "accepted-refused",
                      {"TraceAppliedIff", "TraceDeltaAtomic",
                       "ListIsCurrentPlusStaged"})
            if "list-loses-object" not in done and ev.get("ev") == "Delta" \
                    and any(x["objs"] for x in ev.get("lists", [])):
                bad = copy.deepcopy(seg[:i + 1])
                for x in bad[i]["lists"]:
                    if x["objs"]:
                        x["objs"] = x["objs"][1:]
                        x["details"]["files"] = x["objs"]
                        break
                check(bad, "list-loses-object",
                      {"ListIsCurrentPlusStaged", "TraceIsolation",
                       "TraceDeltaAtomic", "TraceRemoveWithdrawsExactlyOwn"})
        if len(done) == 3:
            break
    if len(done) < 3:
        raise vlib.ToolError(f"self-test: not all corruptions found a "
                             f"place ({done})")
    chk.cov["selftest"] = done


# --------------------------------------------------------------------------

def extra_findings(chk):
    """Test aid: VERIF_EXTRA_FINDINGS=<json file> adds entries in the format
    of known-findings.json for this run (used to show that a seeded
    mutation is detected next to findings that are not listed yet)."""
    path = os.environ.get("VERIF_EXTRA_FINDINGS")
    if path:
        with open(path) as f:
            chk.findings += [x for x in json.load(f).get("findings", [])
                             if x.get("property") == PID]


def run(tier, seed):
    chk = vlib.Check(PID, LEVEL, tier, seed)
    extra_findings(chk)
    chk.assumptions = [
        "URIs are identified by their path below the server's rsync base "
        "with scheme and host compared case-insensitively; every delta "
        "names each URI at most once (the quantifier of C10)",
        "hashes are identified with contents (SHA-256 collisions ignored)",
        "requests are sequential (concurrency is C18's subject); the "
        "signature check of the CMS is exercised but its strength and the "
        "identity binding are C12's subject",
        "the RRDP update is run by processing Task::RrdpUpdateIfNeeded "
        "directly; the task queue itself is C09's subject",
        "rrdp_delta_interval_min_seconds = 0",
    ]
    expected_model_hits = model_runs(chk, tier)

    quick = tier == "quick"
    n_sim = 120 if quick else 2400
    n_bfs = 120 if quick else 4000

    # 1. flat handles (a, ab, b): every spelling of scheme and host except
    #    the one that differs in the scheme only
    flat = generate(chk, "flat", n_sim, 24, seed)
    # 2. nested handles (a, ab, a/b)
    nested = generate(chk, "nested", n_sim, 24, seed + 1)
    # 3. exhaustive short behaviours
    short = vlib.exhaustive_behaviours(
        "MC_PubServer_gen", gen_cfg(chk, "two", 3, bfs=True), chk.out,
        timeout=900)
    chk.rng.shuffle(short)
    short = short[:n_bfs]
    vlib.log(f"behaviours: {len(flat)} flat, {len(nested)} nested, "
             f"{len(short)} exhaustive-short")
    for b in flat[:1] + nested[:1]:
        chk.sample(b["actions"][:12])

    all_case = ["canon", "host", "mixed"]
    # flat: all properties
    trace, rej = run_and_validate(
        chk, prepare(flat, all_case, "flat", seed), "flat")
    # nested and short: every property but IsolationPublished, then
    # IsolationPublished on its own (the nested jails of the code)
    nested_b = prepare(nested, all_case, "nested", seed) \
        + prepare(short, ["canon", "mixed"], "short", seed)
    trace_n, rej_n = run_and_validate(
        chk, nested_b, "nested", exclude=("IsolationPublished",))
    _, rej_iso = run_and_validate(
        chk, nested_b[: (120 if quick else 400)], "nested_iso",
        revalidate=False, max_rejections=10)
    if "IsolationPublished" in expected_model_hits and not any(
            r["violated"] == "IsolationPublished" for r in rej_iso):
        vlib.log("note: the model violates IsolationPublished (nested "
                 "jails) but no executed behaviour did on the real code")
    # 4. spellings that differ in the scheme only
    scheme = prepare(flat[: (60 if quick else 300)],
                     ["canon", "scheme", "canon", "host"], "scheme", seed)
    run_and_validate(chk, scheme, "scheme", max_rejections=12)

    # coverage of the real actions: every request kind, accepted and
    # refused deltas must have occurred
    ra = chk.cov.get("real_actions", {})
    missing = [k for k in ("Add", "Remove", "Delta", "List", "Update",
                           "Reset") if ra.get(k, 0) == 0]
    if missing:
        raise vlib.ToolError(f"request kinds never executed: {missing}")
    if not rej and not rej_n:
        self_test(chk, trace + trace_n)
    else:
        # still demonstrate the binding on the behaviours that passed
        try:
            self_test(chk, trace + trace_n)
        except vlib.ToolError as e:
            vlib.log(f"self-test skipped after violations: {e}")
    chk.cov["rule"] = (
        "behaviours = TLC simulation of MC_PubServer_gen (depth 24; handles "
        "a/ab/b and a/ab/a/b; acceptable deltas, acceptable deltas plus one "
        "unacceptable element, arbitrary deltas; add/remove/list/update/"
        "reset) plus a seeded sample of all behaviours up to depth 3 (quick)"
        " / 4 (thorough); each is executed on the real RepositoryManager "
        "through the signed RFC 8181 path with seeded scheme/host case "
        "variants of every URI, and its trace validated by TLC against "
        "PubServerTrace; distinct = distinct action sequences; non-trivial "
        "= has an accepted and a refused delta and an RRDP update")
    return chk.finish()


def replay(path, seed):
    with open(path) as f:
        data = json.load(f)
    rp = data["replay"]
    chk = vlib.Check(PID, LEVEL, "replay", seed)
    extra_findings(chk)
    run_and_validate(chk, [rp["behaviour"]], "replay",
                     exclude=tuple(rp.get("exclude", [])), revalidate=False)
    # no evidence file for a replay (the evidence of the last full run stays)
    vlib.log(f"{PID} replay: violations={len(chk.violations)} "
             f"known={len(chk.known)}")
    return 1 if chk.violations else 0
