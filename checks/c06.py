"""C06  State rebuilt from the audit log equals the live state.

Protocol part: spec/AggStore.tla, invariant ReplayEqSnapshotEqLive (with
snapshots taken by fresh store instances at arbitrary points, commands
appended concurrently, the live cache lagging, the WAL store truncating its
log): checked exhaustively by TLC for bounded configurations.

`apply` part (differential conformance): harness-store `run-hist` drives a
KrillRuntime through seeded histories of public operations (trust anchor,
CAs on two levels with ROAs, ASPAs, children, entitlement changes,
suspension, key rolls, identity changes, CA removal, extra publishers,
background tasks, snapshots, restarts). At every k-th step every
event-sourced entity (CAs, TA proxy, TA signer, repository access,
repository content) is rebuilt by a fresh store on the same storage
(snapshot + later commands) and by a fresh store on a copy without any
snapshot (init + every command) and compared with the running manager:
serde views and API views. The observations are validated by TLC against
AggStoreTrace (TObsAgg / TObsWal / TObsApi).
"""
import copy
import json

import vlib

PID = "C06"
LEVEL = "model_checking"
CRATE = "harness-store"

QUICK_MODELS = [
    ("MC_AggStore_snap.cfg", 10, 400),
    ("MC_AggStore_walmix.cfg", 10, 400),
]
THOROUGH_MODELS = QUICK_MODELS + [
    ("MC_AggStore_one.cfg", 12, 900),
    ("MC_AggStore_3x2x2_c.cfg", 12, 1500),
]


def model_runs(chk, tier):
    runs = QUICK_MODELS if tier == "quick" else THOROUGH_MODELS
    for cfg, workers, timeout in runs:
        res = vlib.run_tlc("MC_AggStore", cfg, chk.out, workers=workers,
                           timeout=timeout,
                           coverage=(cfg == "MC_AggStore_snap.cfg"))
        chk.add_tlc(cfg, res)
        for a, (_, d) in vlib.action_coverage(res.out).items():
            if a not in res.actions:
                chk.cov["actions_covered"][a] = \
                    chk.cov["actions_covered"].get(a, 0) + d
        if res.violated or res.errors:
            print(res.counterexample()[:3000])
            raise vlib.ToolError(
                f"model {cfg} violates {res.violated}: the specification "
                f"was changed inconsistently (not a finding on the code)")
        vlib.log(f"TLC {cfg}: {res.distinct} distinct states, "
                 f"{res.generated} generated, no violation")
    needed = ["Snapshot", "Load", "ApplyStored", "StoreCmd", "CacheStep",
              "ProcessWal"]
    missing = [a for a in needed
               if chk.cov["actions_covered"].get(a, 0) == 0]
    if missing:
        raise vlib.ToolError(f"actions never taken in the model: {missing}")


def rename(trace):
    """Entities of a history are named after their storage scope
    ("cas/c3"); the trace specification has a fixed set of names."""
    out = []
    names = {}
    for ev in trace:
        ev = dict(ev)
        if ev["ev"] == "reset":
            names = {}
        if ev["ev"] == "obs":
            ev["e_orig"] = ev["e"]
            if ev["kind"] == "wal":
                ev["e"] = "w1"
            else:
                if ev["e"] not in names:
                    names[ev["e"]] = f"e{len(names) + 1}"
                ev["e"] = names[ev["e_orig"]]
        if ev["ev"] in ("obs", "obs_api"):
            ev["failed"] = sorted(k for k, v in ev.get("flags", {}).items()
                                  if not v)
            ev.pop("flags", None)
        out.append(ev)
    return out


def signature(rej):
    ev = rej["event"] or {}
    what = ev.get("ev")
    if what in ("obs", "obs_api"):
        failed = ev.get("failed") or ["versions/keys"]
        kind = (ev.get("e_orig") or ev.get("e") or "").split("/")[0]
        return f"{kind}:{failed[0].split(':')[0]}"
    if what == "step":
        return f"panic:{str(ev.get('what')).split(' ')[0]}"
    return f"{rej['violated'] or 'no-action-matches'}:{what}"


def run_and_validate(chk, behaviours, tag):
    trace = vlib.run_harness("run-hist", behaviours, f"{chk.out}/{tag}",
                             shards=min(16, len(behaviours)), crate=CRATE,
                             timeout=3000)
    stats = chk.cov.setdefault("observed", {})
    mism = {}
    beh_of_seg = []
    for seg in vlib.split_behaviours(trace):
        bid = seg[0].get("behaviour")
        beh_of_seg.append(bid)
        steps = []
        for ev in seg:
            e = ev["ev"]
            if e == "step":
                what = str(ev.get("what")).split(" ")[0]
                ok = not str(ev.get("res")).startswith("err")
                key = f"step_{what}_{'ok' if ok else 'err'}"
                stats[key] = stats.get(key, 0) + 1
                if "injected fault" in str(ev.get("res")):
                    # (a write of the CAs' object store / key store was
                    # made to fail: the command is rejected by its pre-save
                    # listener after it was applied to a copy)
                    stats["steps_with_failing_presave_write"] = stats.get(
                        "steps_with_failing_presave_write", 0) + 1
                steps.append([what, ok])
            elif e == "obs":
                kind = ev["e"].split("/")[0]
                stats[f"obs_{kind}"] = stats.get(f"obs_{kind}", 0) + 1
                n = len(ev["keys"])
                if ev["kind"] == "agg" and 0 < ev["snapver"] < n:
                    stats["obs_snapshot_plus_later"] = stats.get(
                        "obs_snapshot_plus_later", 0) + 1
                if ev["kind"] == "agg" and ev["snapver"] == n:
                    stats["obs_snapshot_current"] = stats.get(
                        "obs_snapshot_current", 0) + 1
            elif e == "note":
                chk.cov["evaluations"] += ev.get("entity_checks", 0)
                stats["order_only_differences"] = stats.get(
                    "order_only_differences", 0) + ev.get("order_only", 0)
            elif e == "mismatch":
                mism.setdefault(bid, []).append(ev)
        chk.count_case(steps)
    renamed = rename(trace)
    validated, rejections, states = vlib.validate_parallel(
        "AggStoreTrace", "AggStoreTrace_hist.cfg", renamed,
        f"{chk.out}/{tag}", jobs=12, min_per_job=2, timeout=2400)
    chk.cov["traces_validated_against_impl"] += validated
    chk.cov["trace_states"] = chk.cov.get("trace_states", 0) + states
    by_id = {b["id"]: b for b in behaviours}
    for rej in rejections:
        first = rej["segment"][0]
        bid = first.get("behaviour")
        ev = rej["event"] or {}
        details = [m for m in mism.get(bid, [])
                   if m.get("step") == ev.get("step")]
        text = "; ".join(f"{m['e']} {m['what']}: {m['detail']}"
                         for m in details[:3])
        chk.report(
            signature(rej),
            f"history {bid} step {ev.get('step', ev.get('n'))}: "
            f"{ev.get('ev')} on {ev.get('e_orig', ev.get('e'))} rejected "
            f"(violated={rej['violated']}) {ev.get('failed', '')} "
            f"{ev.get('res', '')} {text}"[:900],
            {"driver": "run-hist", "behaviour": by_id.get(bid),
             "line": rej["line"], "event": ev, "mismatches": details[:10],
             "steps": [e for e in rej["segment"] if e["ev"] == "step"]})
    return renamed, rejections


def self_test(chk, trace):
    """Anti-vacuity: an observation whose replayed version is off by one,
    and one whose equality flag is false, must be rejected."""
    segs = vlib.split_behaviours(trace)
    for seg in segs:
        idx = [i for i, e in enumerate(seg)
               if e["ev"] == "obs" and e["kind"] == "agg"
               and len(e["keys"]) > 3]
        if not idx:
            continue
        bad = copy.deepcopy(seg[: idx[-1] + 1])
        bad[-1]["replay_ver"] += 1
        v = vlib.validate_trace("AggStoreTrace", "AggStoreTrace_hist.cfg",
                                bad, f"{chk.out}/selftest", tag="version")
        bad = copy.deepcopy(seg[: idx[-1] + 1])
        bad[-1]["ok"] = False
        v2 = vlib.validate_trace("AggStoreTrace", "AggStoreTrace_hist.cfg",
                                 bad, f"{chk.out}/selftest", tag="flag")
        bad = copy.deepcopy(seg[: idx[-1] + 1])
        bad[-1]["keys"] = bad[-1]["keys"][:-2] + bad[-1]["keys"][-1:]
        v3 = vlib.validate_trace("AggStoreTrace", "AggStoreTrace_hist.cfg",
                                 bad, f"{chk.out}/selftest", tag="gap")
        if v.accepted or v2.accepted or v3.accepted:
            raise vlib.ToolError(
                "self-test failed: a corrupted observation was accepted")
        chk.cov["selftest"] = (
            "wrong replay version, false equality flag and a gap in the "
            "command keys each rejected")
        return
    raise vlib.ToolError("self-test found no observation to corrupt")


def require_exercised(chk):
    stats = chk.cov.get("observed", {})
    needed = ["step_add_ca_ok", "step_roa_add_ok", "step_roa_add_err",
              "step_roa_del_ok", "step_roa_del_err", "step_aspa_ok",
              "step_child_resources_ok", "step_child_suspend_ok",
              "step_keyroll_init_ok", "step_keyroll_activate_ok",
              "step_update_id_ok", "step_republish/renew_ok",
              "step_publisher_add_ok", "step_publisher_remove_ok",
              "step_delete_ca_ok", "step_update_snapshots_ok",
              "step_pump_ok", "obs_cas", "obs_ta_proxy", "obs_ta_signer",
              "obs_pubd", "obs_pubd_objects", "obs_snapshot_plus_later",
              "steps_with_failing_presave_write"]
    missing = [k for k in needed if stats.get(k, 0) == 0]
    if missing:
        raise vlib.ToolError(f"never exercised on the real code: {missing}")


def behaviours_for(tier, rng):
    if tier == "quick":
        n, steps, every, full = 64, 140, 2, 4
    else:
        n, steps, every, full = 320, 160, 1, 5
    behs = []
    for i in range(n):
        behs.append({
            "id": i, "seed": rng.randrange(1, 2 ** 31), "steps": steps,
            "check_every": every,
            # at a check point the entities whose stored commands or
            # snapshot changed are rebuilt and compared; every
            # `full_every`-th check point (and the last) compares all
            "full_every": full,
            # restarts and the snapshot-free copy need the disk back-end;
            # about a quarter of the histories run on the memory back-end
            "memory": rng.random() < 0.25,
        })
    return behs


def run(tier, seed):
    chk = vlib.Check(PID, LEVEL, tier, seed)
    chk.assumptions = [
        "the protocol part (snapshot + later commands = same sequence as "
        "init + all commands = cache + later commands) is decided on the "
        "model; the apply part is differential: two independent rebuilds "
        "compared with the running manager on sampled histories",
        "two kinds of wall-clock fields are masked in serde views "
        "(ResourceClass.last_key_change, RouteInfo/StoredBgpSecCsr.since): "
        "set by Time::now() inside apply, invisible through the API; API "
        "views are compared unmasked",
        "order of lists that stem from hash-map iteration is not part of "
        "the state (API views and the repository content are compared as "
        "multisets where the exact comparison fails; counted in "
        "order_only_differences)",
        "the live RepositoryAccess / RepositoryContent aggregates are "
        "private to RepositoryManager: observed through publishers(), "
        "get_publisher_details(), repo_stats(), list()",
        "an oracle independent of apply (what the accepted ROA / ASPA / "
        "child / publisher commands asked for) is kept by the harness and "
        "compared with the live API views",
    ]
    model_runs(chk, tier)
    behs = behaviours_for(tier, chk.rng)
    vlib.log(f"{len(behs)} histories of {behs[0]['steps']} steps, checks "
             f"every {behs[0]['check_every']} step(s)")
    for b in behs[:2]:
        chk.sample(b)
    trace, rej = run_and_validate(chk, behs, "hist")
    if not chk.violations:
        self_test(chk, trace)
        require_exercised(chk)
    chk.cov["rule"] = (
        "histories = seeded sequences of public operations (harness-store "
        "src/hist.rs); at every k-th step every event-sourced entity is "
        "rebuilt by a fresh store (snapshot + later commands) and by a "
        "fresh store on a snapshot-free copy (full replay), compared with "
        "the live manager (serde + API views) and the observation is "
        "validated by TLC against AggStoreTrace; evaluations = entity "
        "observations; distinct = distinct step sequences")
    return chk.finish()


def replay(path, seed):
    with open(path) as f:
        data = json.load(f)
    rp = data["replay"]
    chk = vlib.Check(PID, LEVEL, "quick", seed)
    beh = dict(rp["behaviour"])
    run_and_validate(chk, [beh], "replay")
    return chk.finish()
