"""C09  Background work is durable and recurring maintenance never stops.

Spec: spec/TaskQueue.tla (safety, exhaustive), MC_TaskQueue_live (liveness
under fairness), MC_TaskQueue_gen (behaviour generator), TaskQueueTrace
(trace validation of the real queue).
"""
import copy
import json
import vlib

PID = "C09"
LEVEL = "model_checking"


def signature(rej):
    ev = rej["event"] or {}
    res = str(ev.get("res", ""))
    res_class = res.split(":")[0] if res else ""
    return f"{rej['violated'] or 'no-action-matches'}:{ev.get('ev')}:{res_class}"


def behaviour_of(segment):
    """Reconstructs the behaviour (action list) from a trace segment."""
    acts = []
    for ev in segment[1:]:
        a = {"a": ev["a"]}
        for k in ("n", "ts", "m"):
            if k in ev:
                a[k] = ev[k]
        acts.append(a)
    return {"now": segment[0].get("now", 1), "actions": acts,
            "id": segment[0].get("behaviour", 0)}


def model_runs(chk, tier):
    runs = [("MC_TaskQueue", "MC_TaskQueue.cfg", 10, 600),
            ("MC_TaskQueue_live", "MC_TaskQueue_live.cfg", 8, 600)]
    if tier == "thorough":
        runs.append(("MC_TaskQueue", "MC_TaskQueue_allmodes.cfg", 10, 900))
        runs.append(("MC_TaskQueue", "MC_TaskQueue_big.cfg", 12, 1800))
        runs.append(("MC_TaskQueue_live", "MC_TaskQueue_live_big.cfg", 10,
                     1800))
    for module, cfg, workers, timeout in runs:
        res = vlib.run_tlc(module, cfg, chk.out, workers=workers,
                           timeout=timeout, coverage=True)
        chk.add_tlc(cfg, res)
        if res.violated or res.errors:
            # A violation on the model alone is not a finding about the
            # code: it means the committed spec and its properties disagree.
            print(res.counterexample()[:3000])
            raise vlib.ToolError(
                f"model {cfg} violates {res.violated}: the specification "
                f"was changed inconsistently (not a finding on the code)")
        vlib.log(f"TLC {cfg}: {res.distinct} distinct states, "
                 f"{res.generated} generated, no violation")
    needed = ["Startup", "Crash", "ClaimN", "Finish", "FollowUp",
              "Reschedule", "ProcessStart", "Schedule"]
    missing = [a for a in needed
               if chk.cov["actions_covered"].get(a, 0) == 0]
    if missing:
        raise vlib.ToolError(f"actions never taken in the model: {missing}")


def run_and_validate(chk, behaviours, tag, memory=False):
    trace = vlib.run_harness(
        "run-queue", behaviours, f"{chk.out}/{tag}",
        extra=(["--memory"] if memory else []))
    validated, rejections, states = vlib.validate_all(
        "TaskQueueTrace", "TaskQueueTrace.cfg", trace, f"{chk.out}/{tag}")
    chk.cov["traces_validated_against_impl"] += validated
    chk.cov["trace_states"] = chk.cov.get("trace_states", 0) + states
    for seg in vlib.split_behaviours(trace):
        beh = behaviour_of(seg)
        kinds = {a["a"] for a in beh["actions"]}
        # non-trivial: the behaviour claims at least one task and either
        # crashes or re-schedules something
        nontrivial = "Claim" in kinds and bool(
            kinds & {"Crash", "Reschedule", "FollowUp", "Process"})
        chk.count_case([a for a in beh["actions"]], nontrivial)
    for rej in rejections:
        beh = behaviour_of(rej["segment"])
        ev = rej["event"] or {}
        chk.report(
            signature(rej),
            f"real task queue leaves the specification at step "
            f"{rej['line']} ({ev.get('ev')}): violated="
            f"{rej['violated']} result={ev.get('res')}",
            {"driver": "run-queue", "memory": memory, "behaviour": beh,
             "trace": rej["segment"], "line": rej["line"]})
    return trace, rejections


def self_test(chk, trace):
    """Anti-vacuity: a corrupted accepted trace must be rejected."""
    segs = vlib.split_behaviours(trace)
    for seg in segs:
        for i, ev in enumerate(seg):
            if ev.get("ev") == "Claim" and ev.get("res") == "ok" \
                    and ev.get("pending"):
                bad = copy.deepcopy(seg)
                # pretend the claimed task is still pending as well
                bad[i]["pending"] = bad[i]["pending"] + [
                    [0, bad[i]["cur"], 1]]
                v = vlib.validate_trace(
                    "TaskQueueTrace", "TaskQueueTrace.cfg", bad,
                    f"{chk.out}/selftest", tag="mutated")
                if v.accepted:
                    raise vlib.ToolError(
                        "self-test failed: a corrupted trace was accepted")
                chk.cov["selftest"] = "corrupted trace rejected at line " \
                    f"{v.matched}"
                return
    raise vlib.ToolError("self-test found no Claim event to corrupt")


def run(tier, seed):
    chk = vlib.Check(PID, LEVEL, tier, seed)
    chk.assumptions = [
        "timestamps are abstracted to due / not-due classes; the real "
        "clock is not moved",
        "ties between equal timestamps are left open (listing order)",
        "liveness assumes weak fairness of the scheduler thread, start-up "
        "and the clock, and that ties do not starve a task",
        "the two lines of StartupManager::run_scheduler are replicated by "
        "the harness (reschedule_tasks_at_startup; schedule QueueStartTasks)",
    ]
    model_runs(chk, tier)
    num = 250 if tier == "quick" else 3000
    behaviours = vlib.generate_behaviours(
        "MC_TaskQueue_gen", "MC_TaskQueue_gen.cfg", chk.out, num=num,
        depth=25, seed=seed)
    short = vlib.exhaustive_behaviours(
        "MC_TaskQueue_gen", "MC_TaskQueue_gen_bfs.cfg", chk.out)
    if tier == "quick":
        chk.rng.shuffle(short)
        short = short[:400]
    vlib.log(f"{len(behaviours)} simulated + {len(short)} exhaustive-short "
             f"behaviours")
    for b in behaviours[:2]:
        chk.sample(b)
    trace, rej = run_and_validate(chk, behaviours + short, "disk")
    mem = behaviours[: (60 if tier == "quick" else 600)]
    run_and_validate(chk, mem, "memory", memory=True)
    # The follow-ups of committed changes on the real daemon: behaviours in
    # which the change commits while the scheduler thread is still running
    # the task it has to leave in the queue, executed on a real in-process
    # Krill and validated against KrillTrace.tla (the projected queue must
    # hold the follow-up after the change; at the next settle point what is
    # served is the repository content).
    import copy as _copy
    from checks import krill_common as kc
    vlib.build_harness("harness")
    holds = []
    for d in kc.HOLD_DIRECTED:
        b = _copy.deepcopy(d)
        b.setdefault("top", ["p1", "p2", "a1"])
        b["id"] = len(holds)
        kc.add_timing(b)
        holds.append(b)
    # ... and generated behaviours (all operations on the two-parent
    # hierarchy) in which tasks are held across the following one or two
    # API operations
    for b in kc.generate(chk, ["held"], 10 if tier == "quick" else 120, 30,
                         seed):
        b["id"] = len(holds)
        holds.append(b)
    ktrace, krej = kc.run_and_validate(chk, PID, holds, "hold")
    held = sum(1 for e in ktrace if e.get("held"))
    released = sum(1 for e in ktrace if e.get("ev") == "Release")
    if (held < len(kc.HOLD_DIRECTED) or released < len(kc.HOLD_DIRECTED)) \
            and not chk.violations:
        raise vlib.ToolError("the held-task behaviours did not hold a task "
                             f"each ({held} held, {released} released)")
    chk.cov["held_task_behaviours"] = len(holds)
    if not rej:
        self_test(chk, trace)
    chk.cov["rule"] = (
        "behaviours = TLC simulation of MC_TaskQueue_gen (depth 25) plus "
        "all behaviours of depth <= bound of the small generator config; "
        "each is executed on the real TaskQueue (disk and memory back-end) "
        "and its trace validated by TLC against TaskQueueTrace; distinct = "
        "distinct action sequences; non-trivial = claims a task and "
        "crashes or re-schedules")
    return chk.finish()


def replay(path, seed):
    with open(path) as f:
        data = json.load(f)
    rp = data["replay"]
    chk = vlib.Check(PID, LEVEL, "quick", seed)
    run_and_validate(chk, [rp["behaviour"]], "replay",
                     memory=rp.get("memory", False))
    return chk.finish()
