"""C08  A crash or failed write at any instant is recoverable without loss
or divergence.

Spec: spec/PipelineDefs.tla (mutation classes, what a cut leaves behind,
queue / restart semantics, the predicates behind the clauses),
spec/Pipeline.tla (state machine over the recorded operation shapes: TLC
enumerates shape x cut x {crash, error} with -continue and yields the set of
cuts at which the design breaks a clause), spec/PipelineTrace.tla (every cut
executed on the real code by harness-fault is replayed: conformance of the
durable key set with the fold of the mutations that took effect, of process
exit / acknowledgement / object-set-ahead-of-log with the model, and the
clauses of C08 evaluated by TLC on the observed facts).
"""
import concurrent.futures
import copy
import json
import os
import re

import vlib

PID = "C08"
LEVEL = "fault_enumeration"
CRATE = "harness-fault"

TOP = ["p1", "p2", "a1", "a2"]
B_UNDER_A = [{"a": "AddCa", "c": "B", "p": "A", "res": ["p1", "a1"]},
             {"a": "Pump"}]
WITH_ROA = B_UNDER_A + [{"a": "RoaAdd", "c": "B", "r": ["p1", "a1"]},
                        {"a": "Pump"}]

# Operation kinds x state classes. Each chain element is an operation under
# test in the state the previous elements (run fault-free) lead to; StepAll
# = every background task that becomes due, one by one, each of them an
# operation under test as well.
SCENARIOS = [
    # API command with publication effect on an active key; publication
    # delta at the server; RRDP/rsync update; a second round so that every
    # cut of the first round is followed by another publication
    {"id": "roa", "keys": 0, "top": TOP, "prefix": B_UNDER_A, "chain": [
        {"a": "RoaAdd", "c": "B", "r": ["p1", "a1"]}, {"a": "StepAll"},
        {"a": "RoaDel", "c": "B", "r": ["p1", "a1"]}, {"a": "StepAll"}]},
    # command without publication effect + certificate request through the
    # local parent (two aggregates), then a command that needs the result
    {"id": "chain", "keys": 40, "top": TOP, "prefix": WITH_ROA, "chain": [
        {"a": "ChildRes", "p": "A", "c": "B", "res": ["p1", "p2", "a1"]},
        {"a": "StepAll"},
        {"a": "RoaAdd", "c": "B", "r": ["p2", "a1"]}, {"a": "StepAll"}]},
    # key roll: pending key, new key (two manifests), activation, revocation
    # of the old key; a ROA command while the roll is in progress; a command
    # while a synchronisation is already queued
    {"id": "roll", "keys": 80, "top": TOP, "prefix": WITH_ROA, "chain": [
        {"a": "RollInit", "c": "B"}, {"a": "StepAll"},
        {"a": "RoaAdd", "c": "B", "r": ["p1", "a2"]},
        {"a": "AspaSet", "c": "B", "cust": "a1", "prov": ["a2"]},
        {"a": "StepAll"},
        {"a": "RollActivate", "c": "B"}, {"a": "StepAll"},
        {"a": "RoaDel", "c": "B", "r": ["p1", "a2"]}, {"a": "StepAll"}]},
    # a CA from nothing: every request of the set-up, first certificate
    {"id": "create", "keys": 120, "top": TOP, "prefix": [], "chain": [
        {"a": "InitCa", "c": "B"}, {"a": "AddPublisher", "c": "B"},
        {"a": "UpdateRepo", "c": "B"},
        {"a": "AddChild", "p": "A", "c": "B", "res": ["p1", "a1"]},
        {"a": "AddParent", "p": "A", "c": "B"}, {"a": "StepAll"},
        {"a": "RoaAdd", "c": "B", "r": ["p1", "a1"]}, {"a": "StepAll"}]},
    # maintenance with everything due: republish and renew re-issue objects
    # without any command entry
    {"id": "maint", "keys": 160, "top": TOP, "prefix": WITH_ROA,
     "timing": {"timing_publish_hours_before_next": 30}, "chain": [
        {"a": "Republish"}, {"a": "StepAll"},
        {"a": "Renew"}, {"a": "StepAll"}]},
    # several objects, then all of them withdrawn at once: the list of
    # deltas in the notification file shrinks
    {"id": "trunc", "keys": 240, "top": TOP, "prefix": B_UNDER_A + [
        {"a": "RoaAdd", "c": "B", "r": ["p1", "a1"]}, {"a": "Pump"},
        {"a": "RoaAdd", "c": "B", "r": ["p1", "a2"]}, {"a": "Pump"},
        {"a": "RoaAdd", "c": "B", "r": ["p1", "a3"]}, {"a": "Pump"}],
     "chain": [
        {"a": "RoaAdd", "c": "B", "r": ["p1", "a0"]}, {"a": "StepAll"},
        {"a": "RoaDelta", "c": "B", "add": [],
         "del": ["p1|a1", "p1|a2", "p1|a3", "p1|a0"]}, {"a": "StepAll"}]},
    # the daily snapshot job after several publications: a new snapshot of
    # every aggregate, and of the publication server's content, whose change
    # sets are folded into the snapshot and removed; every cut, then a
    # restart (the content must be what was acknowledged) and one more
    # publication
    {"id": "snap", "keys": 400, "top": TOP, "prefix": WITH_ROA + [
        {"a": "RoaAdd", "c": "B", "r": ["p1", "a2"]}, {"a": "Pump"},
        {"a": "RoaAdd", "c": "B", "r": ["p1", "a3"]}, {"a": "Pump"}],
     "chain": [
        {"a": "UpdateSnapshots"}, {"a": "StepAll"},
        {"a": "RoaDel", "c": "B", "r": ["p1", "a2"]}, {"a": "StepAll"}]},
    # the server's operator removes a publisher that has objects and adds
    # it again (two stores: access and content)
    {"id": "pubrm", "keys": 280, "top": TOP, "prefix": WITH_ROA, "chain": [
        {"a": "PubRemove", "c": "B"}, {"a": "StepAll"}]},
    {"id": "pubadd", "keys": 320, "top": TOP,
     "prefix": WITH_ROA + [{"a": "PubRemove", "c": "B"}, {"a": "Pump"}],
     "chain": [
        {"a": "PubAdd", "c": "B"}, {"a": "RepoSyncAll"}, {"a": "StepAll"},
        # (one more publication, so that the files left stale by a cut in
        # the re-publication above - a known finding - are written again)
        {"a": "RoaAdd", "c": "B", "r": ["p1", "a2"]}, {"a": "StepAll"}]},
    # requests of a child that is not hosted by the instance, as signed
    # RFC 6492 messages (CaManager::rfc6492): issuance without and with a
    # resource limit, a second key, the call-in of a suspended child (two
    # commands for one request), revocation
    {"id": "remote", "keys": 360, "top": TOP, "prefix": WITH_ROA + [
        {"a": "AddForeign", "c": "F", "p": "B", "res": ["p1"]}],
     "chain": [
        {"a": "FIssue", "c": "F", "x": "cur", "lim": [], "nolim": True},
        {"a": "StepAll"},
        {"a": "FIssue", "c": "F", "x": "new", "lim": ["p1"], "nolim": False},
        {"a": "StepAll"},
        {"a": "ChildSuspend", "p": "B", "c": "F"}, {"a": "StepAll"},
        {"a": "FList", "c": "F"}, {"a": "StepAll"},
        {"a": "FRevoke", "c": "F", "x": "cur"}, {"a": "StepAll"}]},
    # suspend / unsuspend / shrink / remove a child, delete a CA
    {"id": "remove", "keys": 200, "top": TOP, "prefix": WITH_ROA, "chain": [
        {"a": "ChildSuspend", "p": "A", "c": "B"}, {"a": "StepAll"},
        {"a": "ChildUnsuspend", "p": "A", "c": "B"}, {"a": "StepAll"},
        {"a": "ChildRes", "p": "A", "c": "B", "res": ["a1"]},
        {"a": "StepAll"},
        {"a": "ChildRemove", "p": "A", "c": "B"}, {"a": "StepAll"},
        {"a": "DeleteCa", "c": "B"}, {"a": "StepAll"}]},
]

QUICK_CASES = 220
CHUNK = 6

KEEP_OBS = ("load", "logok", "memok", "objsbad", "dk", "srvclean",
            "rrdpclean", "rsyncclean", "rrdpeq", "rsynceq")


# --------------------------------------------------------------------------
# the model
# --------------------------------------------------------------------------

def parse_model_violations(out):
    """(shape index, k, mode, later, invariant) of every violation TLC
    reported with -continue."""
    res = set()
    blocks = re.split(r"Error: Invariant (\w+) is violated\.", out)
    for i in range(1, len(blocks), 2):
        inv = blocks[i]
        states = re.split(r"State \d+:", blocks[i + 1])
        v = dict(re.findall(r'/\\ (\w+) = "?(\w+)"?', states[-1]))
        if "oi" in v:
            res.add((int(v["oi"]), int(v["k"]), v["mode"], v["later"], inv))
    return res


def model_run(chk):
    res = vlib.run_tlc("Pipeline", "MC_Pipeline.cfg", chk.out, workers=4,
                       timeout=600, coverage=True, extra=["-continue"])
    chk.add_tlc("MC_Pipeline.cfg", res)
    if not res.finished:
        raise vlib.ToolError("TLC did not finish on Pipeline")
    bad = parse_model_violations(res.out)
    by_inv = {}
    for oi, k, mode, later, inv in bad:
        by_inv.setdefault(inv, set()).add((oi, k, mode))
    vlib.log(f"TLC Pipeline: {res.distinct} states; bad cuts of the design: "
             + ", ".join(f"{inv}={len(c)}" for inv, c in sorted(
                 by_inv.items())))
    chk.cov["model_bad_cuts"] = {inv: len(c) for inv, c in by_inv.items()}
    # the model must show the documented pre-save cuts and nothing for the
    # clauses that hold by construction, otherwise the spec was broken
    if (1, 2, "crash") not in by_inv.get("UnackedAllOrNothing", set()) or \
            (1, 3, "error") not in by_inv.get("UnackedAllOrNothing", set()):
        raise vlib.ToolError("the model no longer shows the pre-save cuts")
    for inv in ("AllLoad", "AckedNeverLost"):
        if by_inv.get(inv):
            raise vlib.ToolError(f"model violates {inv}: specification "
                                 f"changed inconsistently")
    needed = ["Crash", "IoError", "Restart", "Pump", "Resubmit"]
    missing = [a for a in needed if chk.cov["actions_covered"].get(a, 0) == 0]
    if missing:
        raise vlib.ToolError(f"actions never taken in the model: {missing}")
    return bad


# --------------------------------------------------------------------------
# the real code
# --------------------------------------------------------------------------

def twins(chk, scenarios):
    """Dry run: the expanded chains with their mutation sequences."""
    trace = vlib.run_harness("run-fault", scenarios, f"{chk.out}/dry",
                             extra=["--dry"], crate=CRATE, shards=len(
                                 scenarios))
    res = {}
    for ev in trace:
        if ev.get("ev") != "twin":
            continue
        if "error" in ev:
            raise vlib.ToolError(f"fault-free run of scenario "
                                 f"{ev['scen']} fails: {ev['error']}")
        res[ev["scen"]] = ev["instances"]
    for s in scenarios:
        if s["id"] not in res:
            raise vlib.ToolError(f"no twin for scenario {s['id']}")
    return res


def all_cases(scenarios, tw):
    cases = []
    for s in scenarios:
        for i, inst in enumerate(tw[s["id"]]):
            for k in range(1, inst["n"] + 1):
                for mode in ("crash", "error"):
                    cases.append((s["id"], i, k, mode))
    return cases


def cut_class(tw, case):
    sid, i, k, mode = case
    inst = tw[sid][i]
    return (inst["cls"], inst["seq"][k - 1]["t"], mode)


def choose_quick(chk, cases, tw, n):
    """Seeded sample: one case per (operation class, mutation class, mode)
    first, then one per (operation kind, mutation class, mode), the rest at
    random."""
    rng = chk.rng
    pool = list(cases)
    rng.shuffle(pool)
    chosen, taken = [], set()

    def one_per(key):
        seen = set()
        for c in pool:
            if len(chosen) >= n:
                return
            kk = key(c)
            if kk in seen or c in taken:
                if kk not in seen and c in taken:
                    seen.add(kk)
                continue
            seen.add(kk)
            taken.add(c)
            chosen.append(c)

    one_per(lambda c: cut_class(tw, c))
    one_per(lambda c: (tw[c[0]][c[1]]["kind"],) + cut_class(tw, c)[1:])
    for c in pool:
        if len(chosen) >= n:
            break
        if c not in taken:
            taken.add(c)
            chosen.append(c)
    return chosen


def chunks_of(scenarios, cases, chunk=CHUNK):
    by_scen = {}
    for sid, i, k, mode in cases:
        by_scen.setdefault(sid, []).append([i, k, mode])
    res = []
    for s in scenarios:
        cs = by_scen.get(s["id"], [])
        for j in range(0, len(cs), chunk):
            item = copy.deepcopy(s)
            item["cases"] = cs[j:j + chunk]
            res.append(item)
    return res


def slim_obs(o, keys=True):
    r = {k: o[k] for k in KEEP_OBS}
    if not keys:
        r["dk"] = []
    return r


def slim_mut(m):
    return {k: m[k] for k in ("t", "e", "op", "k", "k2")}


def slim(ev):
    """The fields the trace specification reads (no nulls: the JSON module
    of TLC has no value for them)."""
    e = ev["ev"]
    if e == "reset":
        return {"ev": e, "case": ev["case"], "kind": ev["kind"],
                "cls": ev["cls"], "task": ev["task"], "eff": ev["eff"],
                "later": ev["later"], "later_restart": ev["later_restart"],
                "seq": [slim_mut(m) for m in ev["seq"]],
                "pre": slim_obs(ev["pre"])}
    if e == "Fault":
        return {"ev": e, "case": ev["case"], "k": ev["k"],
                "mode": ev["mode"], "acked": ev["acked"],
                "restarted": ev["restarted"],
                "restart_ok": ev["restart_ok"],
                "executed": [slim_mut(m) for m in ev["executed"]],
                "obs": slim_obs(ev["obs"])}
    if e == "Pump":
        return {"ev": e, "case": ev["case"], "ok": ev["ok"],
                "obs": slim_obs(ev["obs"], keys=False)}
    if e == "Final":
        return {"ev": e, "case": ev["case"], "equal": ev["equal"],
                "equalrestart": ev.get("equalrestart", True),
                "settledok": ev["settledok"],
                "obs": slim_obs(ev["obs"], keys=False)}
    return None


def case_key(c):
    return (c["scen"], c["i"], c["k"], c["mode"])


def group_cases(trace):
    """case key -> {event name: event}; skipped cases separately."""
    cases, skipped = {}, []
    for ev in trace:
        if ev.get("ev") == "twin":
            continue
        if ev.get("ev") == "skip":
            skipped.append(ev)
            continue
        cases.setdefault(case_key(ev["case"]), {})[ev["ev"]] = ev
    return cases, skipped


CASE_RE = re.compile(r'"((?:[^"\\]|\\.)*)"')


def parse_case_lines(out):
    res = {}
    for line in out.splitlines():
        if not line.startswith('<<"CASE"'):
            continue
        parts = CASE_RE.findall(line)
        vals = [json.loads(json.loads('"' + p + '"')) for p in parts[1:5]]
        res[case_key(vals[0])] = (set(vals[1]), set(vals[2]), set(vals[3]))
    return res


def validate_cases(chk, cases, tag, jobs=8):
    """TLC on PipelineTrace over the cases (dict key -> events). Returns
    (verdicts: key -> (violated, predicted, maybe), rejected: key -> stage,
    states)."""
    keys = sorted(cases)
    jobs = max(1, min(jobs, len(keys) // 6 or 1))
    parts = [keys[i::jobs] for i in range(jobs)]

    def work(idx):
        verdicts, rejected, states = {}, {}, 0
        todo = list(parts[idx])
        wd = os.path.join(chk.out, f"{tag}_val_{idx}")
        os.makedirs(wd, exist_ok=True)
        rounds = 0
        while todo:
            rounds += 1
            lines, owner = [], []
            for key in todo:
                for name in ("reset", "Fault", "Pump", "Final"):
                    lines.append(slim(cases[key][name]))
                    owner.append((key, name))
            path = os.path.join(wd, "trace.ndjson")
            vlib.write_ndjson(path, lines)
            res = vlib.run_tlc("PipelineTrace", "PipelineTrace.cfg", wd,
                               workers=1, timeout=1800,
                               env_extra={"TRACE": path}, deque=True,
                               heap="6g")
            states += res.distinct
            got = parse_case_lines(res.out)
            verdicts.update(got)
            m = re.search(r'<<"TRACE_REJECTED", "matched", (\d+), "of", '
                          r'(\d+)>>', res.out)
            if m:
                pos = int(m.group(1))
                key, name = owner[pos]
                rejected[key] = name
                idx_key = todo.index(key)
                todo = todo[idx_key + 1:]
                if rounds > 40:
                    raise vlib.ToolError("too many rejected cases")
                continue
            if res.errors or res.postcondition_failed:
                print(res.out[-3000:])
                raise vlib.ToolError("trace validation failed unexpectedly")
            break
        return verdicts, rejected, states

    verdicts, rejected, states = {}, {}, 0
    with concurrent.futures.ThreadPoolExecutor(max_workers=jobs) as pool:
        for v, r, s in pool.map(work, range(len(parts))):
            verdicts.update(v)
            rejected.update(r)
            states += s
    return verdicts, rejected, states


def signature(case, clause):
    r, f = case["reset"], case["Fault"]
    return f"{r['kind']}:{f['cut']['l']}:{f['mode']}:{clause}"


def describe(case, clause):
    r, f, p, fin = (case["reset"], case["Fault"], case["Pump"],
                    case["Final"])
    c = r["case"]
    txt = (f"scenario {c['scen']}, operation #{c['i']} {r['kind']} "
           f"{json.dumps(r['op'])}, mutation {c['k']}/{r['n']} "
           f"({f['cut']['l']}) as {c['mode']}: outcome {f['outcome']}"
           f"{' (' + f['msg'][:120] + ')' if f.get('msg') else ''}; ")
    o = f["obs"]
    if clause == "UnackedAllOrNothing":
        txt += (f"object set and audit log disagree for "
                f"{o['objsbad']} {json.dumps(o['objsdiff'])}")
    elif clause.startswith("RPClean"):
        src = (p["obs"] if clause.endswith("Pump") else
               fin["obs"] if clause.endswith("Final") else o)
        txt += "relying party: " + "; ".join(src["problems"])[:300]
    elif clause == "AllLoad":
        txt += (f"load={o['load']} logok={o['logok']} memok={o['memok']} "
                f"restart={f.get('restart_err')} pump={p['res']}")[:400]
    elif clause == "TwinEquivalence":
        fo = fin["obs"]
        txt += (f"final state differs from the fault-free twin: "
                f"views equal={fin['equal']} after a restart="
                f"{fin.get('equalrestart', True)} "
                f"{fin.get('diffrestart', [])[:3] if fin['equal'] else ''} "
                f"rrdp=content:{fo['rrdpeq']} "
                f"rsync=content:{fo['rsynceq']} settled="
                f"{fin['settledok']} objsbad={fo['objsbad']} "
                f"problems={fo['problems'][:2]} diff={fin['diff'][:4]}"
                )[:700]
    else:
        txt += f"clause {clause}"
    return txt


def replay_of(scenarios, case):
    c = case["reset"]["case"]
    s = copy.deepcopy(next(x for x in scenarios if x["id"] == c["scen"]))
    s["cases"] = [[c["i"], c["k"], c["mode"]]]
    return {"driver": "run-fault", "scenario": s}


def judge(chk, scenarios, cases, verdicts, rejected):
    """Turns TLC's verdicts into reports. Returns statistics."""
    stats = {"bad": 0, "unpredicted": 0, "model_pessimistic": 0,
             "rejected": len(rejected)}
    reported = set()
    pess = []
    for key in sorted(cases):
        case = cases[key]
        if key in rejected:
            sig = (f"{case['reset']['kind']}:{case['Fault']['cut']['l']}:"
                   f"{case['Fault']['mode']}:not-a-step-of-the-model-at-"
                   f"{rejected[key]}")
            if sig not in reported:
                reported.add(sig)
                chk.report(sig, "the real run is not a behaviour of "
                           "Pipeline: " + describe(case, "conformance"),
                           replay_of(scenarios, case))
            continue
        if key not in verdicts:
            raise vlib.ToolError(f"no verdict for case {key}")
        violated, predicted, maybe = verdicts[key]
        if "PreStateBad" in violated:
            # the state before the operation already fails a clause: the
            # case says nothing about the cut (the scenario or the
            # observation is at fault, not krill)
            stats["prebad"] = stats.get("prebad", 0) + 1
            continue
        if violated:
            stats["bad"] += 1
        for clause in sorted(violated):
            if clause not in predicted and clause not in maybe \
                    and not clause.endswith("Pump"):
                stats["unpredicted"] += 1
            sig = signature(case, clause)
            if sig in reported:
                continue
            reported.add(sig)
            chk.report(sig, describe(case, clause),
                       replay_of(scenarios, case))
        for clause in sorted(predicted - violated):
            stats["model_pessimistic"] += 1
            pess.append(f"{signature(case, clause)}")
    chk.cov["model_predicts_but_code_holds"] = sorted(set(pess))[:40]
    return stats


def self_test(chk, cases, verdicts):
    """Anti-vacuity: corrupted recordings must be rejected / judged
    differently."""
    # 1. a durable key removed from the observation after the cut
    # 2. an object set reported consistent where the model derives that it
    #    is ahead of the log
    good = [k for k in sorted(cases) if k in verdicts]
    if not good:
        raise vlib.ToolError("self-test: no validated case")
    done = []
    key = next((k for k in good if cases[k]["Fault"]["obs"]["dk"]), None)
    if key is None:
        raise vlib.ToolError("self-test: no case with durable keys")
    bad = copy.deepcopy(cases[key])
    bad["Fault"]["obs"]["dk"] = bad["Fault"]["obs"]["dk"][1:]
    v, rej, _ = validate_cases(chk, {key: bad}, "selftest1", jobs=1)
    if key not in rej:
        raise vlib.ToolError("self-test failed: a run that lost a durable "
                             "key was accepted")
    done.append("missing durable key rejected")
    key = next((k for k in good
                if "UnackedAllOrNothing" in verdicts[k][0]
                and cases[k]["Fault"]["mode"] == "crash"), None)
    if key is not None:
        bad = copy.deepcopy(cases[key])
        bad["Fault"]["obs"]["objsbad"] = []
        v, rej, _ = validate_cases(chk, {key: bad}, "selftest2", jobs=1)
        if key not in rej:
            raise vlib.ToolError("self-test failed: hiding an object set "
                                 "that is ahead of the log was accepted")
        done.append("hidden object-set divergence rejected")
    # 3. a final state that differs from the twin must be judged
    key = next((k for k in good if not verdicts[k][0]), None)
    if key is not None:
        bad = copy.deepcopy(cases[key])
        bad["Final"]["equal"] = False
        v, rej, _ = validate_cases(chk, {key: bad}, "selftest3", jobs=1)
        if "TwinEquivalence" not in v.get(key, (set(),))[0]:
            raise vlib.ToolError("self-test failed: a final state unequal "
                                 "to the twin's was not judged")
        done.append("unequal final state judged")
    chk.cov["selftest"] = done


def execute(chk, scenarios, chunks, tag):
    trace = vlib.run_harness("run-fault", chunks, f"{chk.out}/{tag}",
                             crate=CRATE, shards=min(vlib.NCPU, len(chunks)),
                             timeout=3000)
    cases, skipped = group_cases(trace)
    complete = {k: c for k, c in cases.items()
                if all(n in c for n in ("reset", "Fault", "Pump", "Final"))}
    if len(complete) != len(cases):
        raise vlib.ToolError("incomplete case in the harness output")
    return complete, skipped


def extra_findings(chk):
    """Test aid: VERIF_EXTRA_FINDINGS=<json file> adds entries in the format
    of known-findings.json for this run (used to show that a seeded
    mutation is detected next to findings that are not listed yet)."""
    path = os.environ.get("VERIF_EXTRA_FINDINGS")
    if path:
        with open(path) as f:
            chk.findings += [x for x in json.load(f).get("findings", [])
                             if x.get("property") == PID]


def run(tier, seed):
    chk = vlib.Check(PID, LEVEL, tier, seed)
    extra_findings(chk)
    chk.assumptions = [
        "a mutation of the disk back-end is atomic (value written to a "
        "temp file, then renamed): cuts are enumerated between mutations, "
        "not inside one; the fault point sits in front of every key-value "
        "and file-system mutation (hooks in storage/backends/mod.rs, "
        "file.rs, pubd/rrdp.rs, pubd/rsync.rs)",
        "one fault per history; crash = unwinding panic, all later writes "
        "of the dying process fail, fresh KrillRuntime on the surviving "
        "directory plus the two start-up lines of "
        "StartupManager::run_scheduler; the harness plays the scheduler "
        "thread (pop, process, finish / exit) one task at a time",
        "ties between tasks due in the same millisecond are resolved in a "
        "fixed order (the real queue uses directory order)",
        "the passing of time for re-scheduled tasks is replaced by making "
        "them due",
        "single resource class, local parent and local repository (the "
        "remote variants differ in transport, not in the write pipeline)",
        "equality with the twin is judged on the abstract projection of "
        "run-ca (API views without keys, serials, class names, time), the "
        "relying-party walk, and byte equality of the served RRDP snapshot "
        "and rsync tree with the repository content of the same run",
    ]
    if os.environ.get("VERIF_SKIP_MC"):
        # (mutation runs: the model-only part does not depend on the code)
        vlib.log("model-only part skipped (VERIF_SKIP_MC)")
    else:
        model_run(chk)
    scenarios = SCENARIOS
    only = os.environ.get("VERIF_C08_SCEN")
    if only:
        # development aid: restrict the catalogue
        scenarios = [s for s in SCENARIOS if s["id"] in only.split(",")]
    tw = twins(chk, scenarios)
    cases_all = all_cases(scenarios, tw)
    shapes = {}
    for s in scenarios:
        for inst in tw[s["id"]]:
            shapes.setdefault(inst["kind"], set()).add(
                " ".join(m["t"] for m in inst["seq"]
                         if m["t"] not in ("RS_FILE",)))
    chk.cov["operation_kinds"] = {k: len(v) for k, v in sorted(
        shapes.items())}
    chk.cov["cuts_total"] = len(cases_all)
    if tier == "quick":
        chosen = choose_quick(chk, cases_all, tw, QUICK_CASES)
    else:
        chosen = cases_all
    vlib.log(f"{len(scenarios)} scenarios, {sum(len(v) for v in tw.values())}"
             f" operation instances, {len(cases_all)} (cut, mode) pairs; "
             f"executing {len(chosen)}")
    t_run = vlib.time.time()
    cases, skipped = execute(
        chk, scenarios,
        chunks_of(scenarios, chosen, 4 if tier == "quick" else 12), "run")
    if len(skipped) > max(3, len(chosen) // 20):
        for s in skipped[:5]:
            print(json.dumps(s)[:400])
        raise vlib.ToolError(f"{len(skipped)} cases could not be executed "
                             f"as planned (non-deterministic prefix)")
    t_val = vlib.time.time()
    verdicts, rejected, states = validate_cases(chk, cases, "run")
    vlib.log(f"executed in {t_val - t_run:.0f}s, validated by TLC in "
             f"{vlib.time.time() - t_val:.0f}s")
    chk.cov["traces_validated_against_impl"] = len(verdicts)
    chk.cov["trace_states"] = states
    chk.cov["skipped_cases"] = len(skipped)
    for key in sorted(cases):
        c = cases[key]
        f = c["Fault"]
        chk.count_case([c["reset"]["kind"], f["cut"]["l"], f["mode"],
                        key[0], key[1], key[2]], True)
    for key in sorted(cases)[:2]:
        c = cases[key]
        chk.sample({"case": c["reset"]["case"], "kind": c["reset"]["kind"],
                    "cut": c["Fault"]["cut"]["l"],
                    "outcome": c["Fault"]["outcome"],
                    "executed": [m["t"] for m in c["Fault"]["executed"]],
                    "verdict": sorted(verdicts.get(key, (set(),))[0])})
    # anti-vacuity on what was exercised
    seen_cls = {cut_class(tw, k)[0] for k in cases}
    needed_cls = {"api", "sync_repo", "sync_parent", "update_rrdp"}
    if not needed_cls <= seen_cls and not only:
        raise vlib.ToolError(f"operation classes never cut: "
                             f"{needed_cls - seen_cls}")
    modes = {k[3] for k in cases}
    restarted = sum(1 for c in cases.values() if c["Fault"]["restarted"])
    resub = sum(1 for c in cases.values()
                if isinstance(c["Final"]["resubmit"], dict))
    if modes != {"crash", "error"} or not restarted or not resub:
        raise vlib.ToolError("crash, failing write, restart and "
                             "re-submission were not all exercised")
    chk.cov["restarts"] = restarted
    chk.cov["resubmissions"] = resub
    stats = judge(chk, scenarios, cases, verdicts, rejected)
    chk.cov.update({"cases_with_violated_clause": stats["bad"],
                    "violations_not_predicted_by_model":
                        stats["unpredicted"],
                    "model_predictions_not_observed":
                        stats["model_pessimistic"],
                    "cases_not_a_step_of_the_model": stats["rejected"]})
    if stats.get("prebad"):
        raise vlib.ToolError(f"{stats['prebad']} cases start in a state "
                             f"that already fails a clause")
    self_test(chk, cases, verdicts)
    chk.cov["exhaustive"] = tier == "thorough"
    chk.cov["rule"] = (
        "operations = every API request and every background task of the "
        "scenario catalogue (operation kind x key/roll/publication state); "
        "the mutation sequence of each is recorded from the real code "
        "(fault injector in Count mode); cases = (operation, k, mode) for "
        "k = 1..N, mode in {crash, failing write}: all of them (thorough) "
        "or a seeded sample covering every (operation class, mutation "
        "class, mode) (quick); each case is executed on the real code on "
        "the disk back-end and its trace validated by TLC against "
        "PipelineTrace; distinct = distinct (operation kind, mutation "
        "label, mode, scenario, position)")
    return chk.finish()


def replay(path, seed):
    with open(path) as f:
        data = json.load(f)
    rp = data["replay"]
    chk = vlib.Check(PID, LEVEL, "quick", seed)
    extra_findings(chk)
    scen = rp["scenario"]
    cases, skipped = execute(chk, [scen], [scen], "replay")
    if skipped or not cases:
        raise vlib.ToolError(f"replay could not be executed: {skipped[:1]}")
    verdicts, rejected, _ = validate_cases(chk, cases, "replay", jobs=1)
    chk.cov["traces_validated_against_impl"] = len(verdicts)
    judge(chk, [scen], cases, verdicts, rejected)
    return chk.finish()
