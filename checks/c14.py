"""C14 -- decided with spec/Krill.tla + KrillTrace.tla (see krill_common.py).

Maintenance runs (republish, renew) are observed in isolation between a Mark
and an Expect event under two timing regimes: everything due (margins larger
than lifetimes, set on the Config object after verification) and nothing due.
"""
from checks import krill_common as kc

PID = "C14"
LEVEL = "model_checking"
THEMES = ["tdue", "tnot", "tduring", "tstag"]
NEEDED = ["Republish", "Renew", "ExpectReissued", "ExpectRenewed",
          "ExpectSame", "Settled", "DueTouch", "ExpectByMargin",
          "ExpectStoreByMargin"]

RULE = (
    "behaviours = TLC simulation of MC_Krill_gen with maintenance runs "
    "(themes tdue: manifests/CRLs and ROAs always due; tnot: nothing due), "
    "interleaved with entitlement changes, ROA changes and key rolls so "
    "that current, staging and old key sets exist when maintenance runs; "
    "around every maintenance run TLC compares the serial-number level "
    "facts of every key (manifest/CRL numbers +1 exactly, same objects or "
    "all route origin objects replaced, nothing changed when nothing is "
    "due); theme tduring: API operations and tasks while everything is due "
    "(re-issue as a side effect of commands: what the CA's object store "
    "holds must be published once no repository synchronisation is pending); "
    "theme tstag: key sets of different age (a shorter manifest lifetime "
    "is in force while keys are rolled), then a maintenance run under a "
    "margin between the lifetimes: exactly the CAs with a key set - "
    "current, staging or old - inside the margin re-issue, all their sets "
    "together, the others change nothing; in every state: numbers agree, validity contains now, numbers "
    "never go down; distinct = distinct event sequences; non-trivial = "
    "contains a maintenance run and reaches a settled state")


def _a(a, **kw):
    d = {"a": a}
    d.update(kw)
    return d


M = kc.MARGIN_HOURS * 3600
# maintenance in the middle of a roll, with key sets of different age: the
# old key's set (and the staging key's set) is re-issued with the others
DIRECTED = [
    {"actions": [
        _a("AddCa", c="B", p="A", res=["p1", "p2"]), _a("Settle"),
        _a("AddCa", c="D", p="A", res=["a1"]), _a("Settle"),
        _a("Restart", timing=kc.SHORT_TIMING),
        _a("RoaAdd", c="B", r=["p1", "a1"]), _a("Settle"),
        _a("RollInit", c="B"), _a("Settle"),
        # staging key present
        _a("Mark"), _a("RestartMargin"),
        _a("RepublishByStoreMargin", margin=M),
        _a("ExpectStoreByMargin", margin=M), _a("RestartNormal"),
        _a("Settle"), _a("RollActivate", c="B"),
        # old key present
        _a("Mark"), _a("RestartMargin"),
        _a("RepublishByStoreMargin", margin=M),
        _a("ExpectStoreByMargin", margin=M), _a("RestartNormal"),
        _a("Settle"),
        _a("Mark"), _a("RestartMargin"), _a("RepublishByMargin", margin=M),
        _a("Pump"), _a("RestartNormal"), _a("ExpectByMargin", margin=M),
        _a("Settle")]},
    # every kind of maintenance run once, due and not due, with route
    # origins, a provider authorisation and a router key; operations while
    # everything is due
    {"mftdue": True, "objdue": True, "actions": [
        _a("AddCa", c="B", p="A", res=["p1", "a1"]), _a("Settle"),
        _a("RoaAdd", c="B", r=["p1", "a1"]),
        _a("AspaSet", c="B", cust="a1", prov=["a2"]),
        _a("RtrAdd", c="B", r=["a1", "rtr:k1"]), _a("Settle"),
        _a("Mark"), _a("Renew"), _a("Pump"), _a("ExpectSame"),
        _a("Mark"), _a("Republish"), _a("Pump"), _a("ExpectSame"),
        _a("Mark"), _a("RestartDue"), _a("Renew"), _a("Pump"),
        _a("RestartNormal"), _a("ExpectRenewed"),
        _a("Mark"), _a("RestartDue"), _a("Republish"), _a("Pump"),
        _a("RestartNormal"), _a("ExpectReissued"),
        _a("RestartDue"), _a("ChildRes", c="B", p="A", res=["p1", "p2", "a1"]),
        _a("Pump"), _a("RoaDel", c="B", r=["p1", "a1"]), _a("Pump"),
        _a("RestartNormal"), _a("Settle")]},
    # a CA with two resource classes, one of them still waiting for its
    # first certificate (pending key) when the renewal runs: the objects of
    # the other class are renewed all the same
    {"slots": kc.MULTI_SLOTS, "mftdue": True, "objdue": True, "actions": [
        _a("AddCa", c="B", p="A", res=["p1", "p2", "a1"]), _a("Settle"),
        _a("AddCa", c="C", p="B", res=["p1", "a1"]), _a("Settle"),
        _a("RoaAdd", c="C", r=["p1", "a1"]),
        _a("AspaSet", c="C", cust="a1", prov=["a2"]), _a("Settle"),
        _a("AddParent", c="C2", p="A", res=["p2"]),
        _a("Step", task="sync_C_with_parent_A"),
        _a("Mark"), _a("RestartDue"), _a("Renew"),
        _a("Step", task="sync_repo_C"),
        _a("Step", task="update_rrdp_if_needed"),
        _a("RestartNormal"), _a("ExpectRenewed"), _a("Settle")]},
    # a CA with two resource classes whose manifests have different
    # next-update times (the class under the second parent comes into being
    # under a shorter lifetime): a maintenance run under a margin between the
    # two lifetimes re-issues the sets of that class only -- and publishes
    # them, whichever class the run looks at last; the same for a second CA
    # (the order in which a run visits the classes is that of a hash map)
    {"slots": [["C2", "C"], ["D2", "D"]], "actions": [
        _a("AddCa", c="B", p="A", res=["p1", "p2", "a1"]), _a("Settle"),
        _a("AddCa", c="C", p="B", res=["p1"]), _a("Settle"),
        _a("AddCa", c="D", p="B", res=["p2"]), _a("Settle"),
        _a("RoaAdd", c="C", r=["p1", "a1"]),
        _a("RoaAdd", c="D", r=["p2", "a1"]), _a("Settle"),
        _a("Restart", timing=kc.SHORT_TIMING),
        _a("AddParent", c="C2", p="A", res=["p2"]),
        _a("AddParent", c="D2", p="A", res=["p1"]), _a("Settle"),
        _a("Mark"), _a("RestartMargin"), _a("RepublishByMargin", margin=M),
        _a("Pump"), _a("RestartNormal"), _a("ExpectByMargin", margin=M),
        _a("Settle")]},
]


def run(tier, seed):
    return kc.run_property(
        PID, LEVEL, tier, seed, THEMES, quick_num=6, thorough_num=200,
        assumptions=kc.COMMON_ASSUMPTIONS + [
            "time does not pass within a run: due-ness is produced by timing "
            "values set on the Config object after its verification (margin "
            "larger than lifetime = always due), never by changing what the "
            "code does; the configuration check itself refuses such values",
            "the trust anchor's own manifest/CRL re-issuance (offline signer "
            "cycle) is not exercised here",
        ], rule=RULE, needed_events=NEEDED,
        mc_cfgs=(["MC_Krill_q_maint.cfg", "MC_Krill_q_roll.cfg"] if tier == "quick"
                 else ["MC_Krill_q_maint.cfg", "MC_Krill_q_roll.cfg", "MC_Krill_roll.cfg",
                       "MC_Krill_q_aspa.cfg"]),
        directed=DIRECTED)


def replay(path, seed):
    return kc.replay(PID, LEVEL, path, seed)
