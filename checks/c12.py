"""C12  Up-down and publication requests act only for the registered
identity key.

Spec: spec/UpDownAuth.tla (rules + the three parts of the property),
MC_UpDownAuth (exhaustive model check, incl. model mutants as anti-vacuity),
MC_UpDownAuth_gen (backbones + verdict of every message of the lattice in
the state at the end of each backbone), UpDownAuthTrace (validation of what
the real CaManager::rfc6492 / RepositoryManager::rfc8181 did).
"""
import concurrent.futures
import copy
import json
import os
import re
import time

import vlib

PID = "C12"
LEVEL = "model_checking"
CRATE = "harness-auth"

MUTANTS = {
    # model mutant -> property that must catch it
    "skipsig": ("RefusedUnchanged",),
    "anychild": ("RefusedUnchanged",),
    "notamper": ("RefusedUnchanged",),
    "stalekey": ("ReplySignedByCurrentServerKey",),
    "nojail": ("EffectsWithinSender", "WithinScope"),
    "otherscert": ("EffectsWithinSender", "KeysExclusive"),
}


# --------------------------------------------------------------------------
# model
# --------------------------------------------------------------------------

def model_runs(chk, tier):
    """Exhaustive model check plus the model mutants (anti-vacuity of the
    model checked properties), all TLC runs side by side (12 workers)."""
    jobs = [("main", "MC_UpDownAuth.cfg", 5, 900, False),
            ("cov", "MC_UpDownAuth_cov.cfg", 1, 900, True)]
    if tier == "thorough":
        jobs = [("main", "MC_UpDownAuth.cfg", 2, 900, False),
                ("cov", "MC_UpDownAuth_cov.cfg", 1, 900, True),
                ("big", "MC_UpDownAuth_big.cfg", 6, 2400, False)]
    for mutant in MUTANTS:
        cfg = f"MC_UpDownAuth_mut_{mutant}.cfg"
        with open(os.path.join(vlib.SPEC, "MC_UpDownAuth.cfg")) as f:
            text = f.read().replace('Mutant = "none"',
                                    f'Mutant = "{mutant}"')
        path = os.path.join(chk.out, cfg)
        with open(path, "w") as f:
            f.write(text)
        jobs.append((mutant, os.path.relpath(path, vlib.SPEC), 1 if
                     tier == "quick" else 0.5, 900, False))

    def run_job(job):
        name, cfg, workers, timeout, coverage = job
        return job, vlib.run_tlc(
            "MC_UpDownAuth", cfg, os.path.join(chk.out, "tlc_" + name),
            workers=max(1, int(workers)), timeout=timeout,
            coverage=coverage)

    caught = {}
    # at most 12 TLC workers at a time
    with concurrent.futures.ThreadPoolExecutor(
            max_workers=8 if tier == "quick" else 6) as pool:
        results = list(pool.map(run_job, jobs))
    for (name, cfg, _, _, _), res in results:
        if name in MUTANTS:
            if res.violated not in MUTANTS[name]:
                print(res.out[-3000:])
                raise vlib.ToolError(
                    f"model mutant {name} was expected to violate "
                    f"{MUTANTS[name]}, TLC reported {res.violated}")
            caught[name] = res.violated
            continue
        chk.add_tlc(cfg, res)
        for action, taken in action_coverage(res.out).items():
            chk.cov["actions_covered"][action] = max(
                chk.cov["actions_covered"].get(action, 0), taken)
        if res.violated or res.errors:
            print(res.counterexample()[:3000])
            raise vlib.ToolError(
                f"model {cfg} violates {res.violated}: specification and "
                f"properties disagree (not a finding on the code)")
        vlib.log(f"TLC {cfg}: {res.distinct} distinct states, "
                 f"{res.generated} transitions checked, no violation")
    needed = ["MCPerform", "MCDecline", "MCRefuse", "MCChildId",
              "MCServerId", "MCPubReReg", "MCSuspend"]
    missing = [a for a in needed
               if chk.cov["actions_covered"].get(a, 0) == 0]
    if missing:
        raise vlib.ToolError(f"actions never taken in the model: {missing}")
    chk.cov["model_mutants_caught"] = caught


COVERAGE_RE = re.compile(
    r"^<(\w+) line \d+, col \d+ to line \d+, col \d+ of module \w+"
    r"(?: \([\d ]+\))?>: (\d+):(\d+)", re.M)


def action_coverage(out):
    """Transitions generated per named action (last report wins)."""
    res = {}
    for m in COVERAGE_RE.finditer(out):
        res[m.group(1)] = int(m.group(3))
    return res


# --------------------------------------------------------------------------
# generation
# --------------------------------------------------------------------------

UNIVERSE_RE = re.compile(r'^<<"UNIVERSE", (".*")>>\s*$')


def generate(chk, tier):
    cfg = "MC_UpDownAuth_gen.cfg" if tier == "quick" \
        else "MC_UpDownAuth_gen_deep.cfg"
    res = vlib.run_tlc("MC_UpDownAuth_gen", cfg, chk.out, workers=1,
                       timeout=900, heap="6g")
    if res.violated or res.errors:
        print(res.out[-3000:])
        raise vlib.ToolError("generator MC_UpDownAuth_gen reported an error")
    universe = None
    for line in res.out.splitlines():
        m = UNIVERSE_RE.match(line)
        if m:
            universe = json.loads(json.loads(m.group(1)))
            break
    if not universe:
        raise vlib.ToolError("generator did not print the universe")
    seen = set()
    gens = []
    for beh in vlib.parse_replays(res.out):
        if beh["state"] in seen:
            continue
        seen.add(beh["state"])
        gens.append(beh)
    chk.add_tlc(cfg, res)
    return universe, gens


def twin_key(m):
    d = dict(m)
    d["tam"] = "none"
    return json.dumps(d, sort_keys=True)


def build_behaviours(chk, universe, gens, tier):
    """backbone + refuse-vectors + valid probes for every generated state."""
    index = {json.dumps(m, sort_keys=True): i
             for i, m in enumerate(universe)}
    behaviours = []
    expected = {}
    rng = chk.rng
    order = list(range(len(gens)))
    if tier == "quick":
        # all states of depth <= 1, a seeded sample of the deeper ones
        shallow = [i for i in order if len(gens[i]["actions"]) <= 1]
        deep = [i for i in order if len(gens[i]["actions"]) > 1]
        rng.shuffle(deep)
        # make sure every administrative action occurs in some backbone
        must = []
        for kind in ("Suspend", "ChildId", "ServerId", "PubReReg"):
            for i in deep:
                if any(a["a"] == kind for a in gens[i]["actions"]) \
                        and i not in must:
                    must.append(i)
                    break
        rest = [i for i in deep if i not in must]
        order = shallow + must + rest[:10 - len(must)]
    if tier == "thorough":
        # every state of depth <= 2, a seeded sample of the depth 3 ones
        shallow = [i for i in order if len(gens[i]["actions"]) <= 2]
        deep = [i for i in order if len(gens[i]["actions"]) > 2]
        rng.shuffle(deep)
        order = shallow + deep[:170]
    chk.cov["states_generated"] = len(gens)
    chk.cov["states_executed"] = len(order)
    for gi in order:
        gen = gens[gi]
        flags = gen["valid"]
        valid_idx = [i for i, f in enumerate(flags) if f == 1]
        valid_twins = {twin_key(universe[i]) for i in valid_idx}
        refuse = []
        for i, f in enumerate(flags):
            if f == 1:
                continue
            m = universe[i]
            if m["tam"] != "none" and twin_key(m) not in valid_twins:
                # tampered variants only of messages that would be valid
                continue
            refuse.append(i)
        probes = [dict(universe[i], a="Req") for i in valid_idx
                  if not foreign_issue(universe[i])]
        rng.shuffle(probes)
        if tier == "quick":
            probes = probes[:60]
        actions = list(gen["actions"])
        actions.append({"a": "Vectors", "idx": refuse})
        actions.extend(probes)
        actions.extend(update_tail(gen["reg"]))
        bid = len(behaviours)
        behaviours.append({"id": bid, "actions": actions,
                           "keyoff": (chk.seed * 131) % 1400})
        expected[bid] = {"refuse": len(refuse), "probes": len(probes),
                         "backbone": len(gen["actions"])}
    return behaviours, expected, index


NEXT_KEY = {"P": {"c1": "k3", "c2": "k4"}, "O": {"c1": "k6"},
            "R": {"p1": "q3", "p2": "q4"}}


def update_tail(reg):
    """Identity updates on either side AFTER the server has answered
    requests in this behaviour (the abstract state does not remember the
    order, the real code might), followed by requests under the new and
    the replaced identities."""
    base = {"ckey": "-", "lim": ["none"], "uri": "-", "val": "-",
            "tam": "none", "kind": "list", "a": "Req"}
    tail = [{"a": "ServerId", "srv": "P"}, {"a": "ServerId", "srv": "O"}]
    after = []
    for srv in ("P", "O", "R"):
        for handle, key in sorted(reg[srv].items()):
            new = NEXT_KEY[srv][handle]
            if key != new:
                if srv == "R":
                    tail.append({"a": "PubReReg", "c": handle, "key": new})
                else:
                    tail.append({"a": "ChildId", "srv": srv, "c": handle,
                                 "key": new})
            proto = "pub" if srv == "R" else "ud"
            for k in (new, key):
                after.append(dict(base, p=proto, key=k, snd=handle,
                                  rcp=srv, tgt=srv))
    return tail + after


OWNER = {"a1": "c1", "a2": "c1", "b1": "c2"}


def foreign_issue(m):
    """An issuance request for a certificate key that the model gives to
    the other child of P. These run in dedicated behaviours (see
    foreign_key_behaviours) so that what krill does with them cannot mask
    anything else."""
    return (m["p"] == "ud" and m["kind"] == "issue" and m["tgt"] == "P"
            and m["snd"] in ("c1", "c2") and OWNER[m["ckey"]] != m["snd"])


def foreign_key_behaviours(chk, first_id):
    """A child asks for a certificate for a key that the other child
    already holds a certificate for (it proves possession: the harness
    holds all private keys), and for the revocation of that key."""
    base = {"p": "ud", "rcp": "P", "tgt": "P", "lim": ["none"],
            "uri": "-", "val": "-", "tam": "none"}

    def req(key, snd, kind, ckey, lim=("none",)):
        return dict(base, a="Req", key=key, snd=snd, kind=kind, ckey=ckey,
                    lim=list(lim))

    setup = [req("k1", "c1", "issue", "a1"), req("k2", "c2", "issue", "b1")]
    cases = [
        [req("k1", "c1", "issue", "b1")],
        [req("k1", "c1", "issue", "b1", ["r1"])],
        [req("k2", "c2", "issue", "a1")],
        [req("k1", "c1", "revoke", "b1"), req("k2", "c2", "revoke", "a1"),
         req("k2", "c2", "list", "-"), req("k1", "c1", "list", "-")],
    ]
    return [{"id": first_id + k, "keyoff": (chk.seed * 131 + 300) % 1400,
             "actions": setup + case} for k, case in enumerate(cases)]


def bitflip_behaviours(chk, tier, first_id):
    n = 2000 if tier == "quick" else 0      # 0 = every bit
    base = {"rcp": "P", "tgt": "P", "ckey": "-", "lim": ["none"],
            "uri": "-", "val": "-", "tam": "none"}

    def ud(kind, **kw):
        m = dict(base, p="ud", key="k1", snd="c1", kind=kind)
        m.update(kw)
        return m

    def pb(kind, **kw):
        m = dict(base, p="pub", key="q1", snd="p1", rcp="R", tgt="R",
                 kind=kind)
        m.update(kw)
        return m

    issue = ud("issue", ckey="a1")
    publish = pb("publish", uri="p1/x", val="d1")
    cases = [
        ("ud-list", [dict(issue, a="Req")], ud("list")),
        ("ud-issue", [dict(issue, a="Req")], issue),
        ("ud-revoke", [dict(issue, a="Req")], ud("revoke", ckey="a1")),
        ("pub-list", [dict(publish, a="Req")], pb("list")),
        ("pub-publish", [dict(publish, a="Req")],
         pb("publish", uri="p1/x", val="d2")),
        ("pub-withdraw", [dict(publish, a="Req")],
         pb("withdraw", uri="p1/x")),
    ]
    res = []
    for k, (name, prefix, msg) in enumerate(cases):
        res.append({
            "id": first_id + k, "keyoff": (chk.seed * 131 + 700) % 1400,
            "actions": prefix + [{"a": "BitFlips", "name": name, "m": msg,
                                  "n": n, "seed": chk.seed * 1000 + k}],
        })
    return res


# --------------------------------------------------------------------------
# execution and validation
# --------------------------------------------------------------------------

def key_relation(ev, pre=None):
    """Stable description of how a request relates to the state before it
    (for violation signatures)."""
    res = f"{ev.get('p')}:{ev.get('kind')}:tam={ev.get('tam')}"
    if not pre:
        return res
    srv = ev.get("tgt") if ev.get("p") == "ud" else "R"
    reg = pre.get("reg", {}).get(srv, {})
    key, snd = ev.get("key"), ev.get("snd")
    if reg.get(snd) == key:
        rel = "registered-key"
    elif key in reg.values():
        rel = "other-senders-key"
    elif key in ("sP", "sO"):
        rel = "servers-own-key"
    elif key == "kr":
        rel = "unregistered-key"
    else:
        rel = "replaced-or-foreign-key"
    res += f":{rel}"
    if ev.get("p") == "ud":
        if ev.get("rcp") != ev.get("tgt"):
            res += ":other-recipient"
        if ev.get("kind") in ("issue", "revoke"):
            holders = [c for c, certs in pre.get("iss", {}).get(
                srv, {}).items() if any(x[0] == ev.get("ckey")
                                        for x in certs)]
            if snd in holders:
                res += ":own-cert-key"
            elif holders:
                res += ":cert-key-of-other-child"
            else:
                res += ":new-cert-key"
    elif ev.get("kind") in ("publish", "withdraw"):
        uri = ev.get("uri", "")
        res += ":own-base" if uri.startswith(f"{snd}/") else ":foreign-uri"
    return res


def pre_state(rej):
    seg, line = rej["segment"], rej["line"]
    if 0 < line <= len(seg) - 1:
        return seg[line - 1].get("st")
    return None


def signature(rej):
    ev = rej["event"] or {}
    if ev.get("ev") == "Req":
        return (f"{rej['violated'] or 'no-action-matches'}:"
                f"{key_relation(ev, pre_state(rej))}:{ev.get('verdict')}")
    return f"{rej['violated'] or 'no-action-matches'}:{ev.get('ev')}"


def run_and_validate(chk, behaviours, universe, tag, replay_of=None):
    upath = os.path.join(chk.out, f"universe_{tag}.json")
    with open(upath, "w") as f:
        json.dump(universe, f)
    by_id = {b["id"]: b for b in behaviours}
    t_h = time.time()
    trace = vlib.run_harness(
        "run-updown", behaviours, f"{chk.out}/{tag}", crate=CRATE,
        extra=["--universe", upath], timeout=3000,
        shards=min(14, len(behaviours)))
    vlib.log(f"harness executed {len(behaviours)} behaviours in "
             f"{time.time() - t_h:.0f}s, {len(trace)} trace lines")
    segs = vlib.split_behaviours(trace)
    # validate in chunks (TLC keeps the whole trace in memory)
    validated = 0
    rejections = []
    chunk = []
    size = 0
    chunks = []
    for seg in segs:
        chunk.append(seg)
        size += len(seg)
        if size > 12000:
            chunks.append(chunk)
            chunk, size = [], 0
    if chunk:
        chunks.append(chunk)
    for ci, chunk in enumerate(chunks):
        flat = [ev for seg in chunk for ev in seg]
        v, rej, states = vlib.validate_all(
            "UpDownAuthTrace", "UpDownAuthTrace.cfg", flat,
            f"{chk.out}/{tag}/val{ci}")
        validated += v
        rejections.extend(rej)
        chk.cov["trace_states"] = chk.cov.get("trace_states", 0) + states
    chk.cov["traces_validated_against_impl"] += validated
    for rej in rejections:
        ev = rej["event"] or {}
        bid = rej["segment"][0].get("behaviour")
        chk.report(
            signature(rej),
            f"real server leaves the specification at step {rej['line']} "
            f"of behaviour {bid} ({ev.get('ev')} "
            f"{key_relation(ev, pre_state(rej))}): "
            f"violated={rej['violated']} verdict={ev.get('verdict')} "
            f"chg={ev.get('chg')} rk={ev.get('rk')} "
            f"info={ev.get('info')}",
            {"driver": "run-updown", "behaviour": by_id.get(bid),
             "universe": universe, "trace": rej["segment"],
             "line": rej["line"]})
    return trace, segs, rejections


def account(chk, segs, expected):
    """Counts what was exercised; refuses to pass vacuously."""
    stats = chk.cov.setdefault("c12", {
        "vectors_refused_as_specified": 0, "vectors_deviating": 0,
        "vectors_skipped": 0, "requests_performed": {},
        "requests_declined": 0, "recipient_mismatch_accepted": 0,
        "identity_updates": {}, "bitflips": {}})
    for seg in segs:
        bid = seg[0].get("behaviour")
        exp = expected.get(bid)
        state_id = 0
        for ev in seg[1:]:
            e = ev.get("ev")
            if e == "Vectors":
                if exp is not None and ev.get("n") != exp["refuse"]:
                    raise vlib.ToolError(
                        f"behaviour {bid}: {ev.get('n')} vectors executed, "
                        f"{exp['refuse']} generated")
                if ev["refused"] + ev["deviating"] + ev["skipped"] != ev["n"]:
                    raise vlib.ToolError(
                        f"behaviour {bid}: vector counts do not add up")
                stats["vectors_refused_as_specified"] += ev["refused"]
                stats["vectors_deviating"] += ev["deviating"]
                stats["vectors_skipped"] += ev["skipped"]
                chk.cov["evaluations"] += ev["n"]
            elif e == "Req":
                if ev.get("verdict") == "skip":
                    continue
                chk.count_case(
                    [bid, state_id] + [ev.get(k) for k in (
                        "p", "key", "snd", "rcp", "tgt", "kind", "ckey",
                        "lim", "uri", "val", "tam")])
                if ev.get("verdict") == "ok":
                    k = f"{ev['p']}:{ev['kind']}"
                    stats["requests_performed"][k] = \
                        stats["requests_performed"].get(k, 0) + 1
                    if ev["p"] == "ud" and ev["rcp"] != ev["tgt"]:
                        stats["recipient_mismatch_accepted"] += 1
                elif not ev.get("vector"):
                    stats["requests_declined"] += 1
            elif e in ("ChildId", "ServerId", "PubReReg", "Suspend"):
                stats["identity_updates"][e] = \
                    stats["identity_updates"].get(e, 0) + 1
                state_id += 1
            elif e == "BitFlips":
                b = stats["bitflips"].setdefault(ev.get("name"), {
                    "bits": ev.get("bits"), "tried": 0, "refused": 0,
                    "accepted_equivalent": 0, "declined_equivalent": 0,
                    "bad": 0})
                b["tried"] += ev.get("tried", 0)
                b["refused"] += ev.get("refused", 0)
                b["accepted_equivalent"] += ev.get("accepted_equiv", 0)
                b["declined_equivalent"] += ev.get("declined_equiv", 0)
                b["bad"] += max(ev.get("bad", 0), 0)
                if ev.get("bad", 0) < 0:
                    raise vlib.ToolError(
                        f"bit flip message could not be built: "
                        f"{ev.get('info')}")
    return stats


def require_exercised(stats, tier):
    need = ["ud:list", "ud:issue", "ud:revoke", "pub:list", "pub:publish",
            "pub:withdraw"]
    missing = [k for k in need if stats["requests_performed"].get(k, 0) == 0]
    if missing:
        raise vlib.ToolError(
            f"honest requests of kinds {missing} were never accepted by the "
            f"real code: the property was not exercised")
    for k in ("ChildId", "ServerId", "PubReReg", "Suspend"):
        if stats["identity_updates"].get(k, 0) == 0:
            raise vlib.ToolError(f"administrative action {k} never executed")
    if stats["vectors_refused_as_specified"] < 1000:
        raise vlib.ToolError("too few refusal vectors executed")
    if stats["vectors_skipped"] > 0:
        raise vlib.ToolError(
            f"{stats['vectors_skipped']} vectors could not be built")
    for name, b in stats["bitflips"].items():
        if b["tried"] == 0:
            raise vlib.ToolError(f"no bit flips executed for {name}")
    if len(stats["bitflips"]) < 6:
        raise vlib.ToolError("bit flip batches missing")


def self_test(chk, segs):
    """Anti-vacuity: corrupted accepted traces must be rejected."""
    done = {}
    for seg in segs:
        for i, ev in enumerate(seg):
            if ev.get("ev") != "Req" or ev.get("vector"):
                continue
            # (a) a refused request that is claimed to have been accepted
            if "forged-accept" not in done and ev.get("verdict") == "ok" \
                    and ev.get("p") == "ud" and ev.get("kind") == "issue":
                bad = copy.deepcopy(seg[:i + 1])
                bad[i]["key"] = "kr"
                done["forged-accept"] = (bad, "RefusedUnchanged")
            # (b) an accepted request whose effect hits another child
            if "foreign-effect" not in done and ev.get("verdict") == "ok" \
                    and ev.get("p") == "ud" and ev.get("kind") == "issue" \
                    and ev.get("tgt") == "P" and ev.get("snd") == "c1":
                bad = copy.deepcopy(seg[:i + 1])
                bad[i]["st"]["iss"]["P"]["c2"] = \
                    bad[i]["st"]["iss"]["P"]["c2"] + [["a2", ["r3"]]]
                done["foreign-effect"] = (bad, "EffectsWithinSender")
            # (c) a reply signed with a stale server identity
            if "stale-reply-key" not in done and ev.get("verdict") == "ok":
                bad = copy.deepcopy(seg[:i + 1])
                bad[i]["rk"] = bad[i]["rk"][0] + "7"
                done["stale-reply-key"] = (
                    bad, "ReplySignedByCurrentServerKey")
            # (d) a refused request that touched something
            if "refused-touched" not in done and ev.get("verdict") == "err" \
                    and ev.get("chg") == []:
                bad = copy.deepcopy(seg[:i + 1])
                bad[i]["chg"] = ["disk"]
                if bad[i].get("key") != "kr":
                    bad[i]["key"] = "kr"
                done["refused-touched"] = (bad, "RefusedUnchanged")
        if len(done) == 4:
            break
    if len(done) < 4:
        raise vlib.ToolError(
            f"self-test could not find events to corrupt: {sorted(done)}")
    result = {}
    for name, (bad, prop) in done.items():
        v = vlib.validate_trace("UpDownAuthTrace", "UpDownAuthTrace.cfg",
                                bad, f"{chk.out}/selftest", tag=name)
        if v.accepted or v.violated != prop:
            raise vlib.ToolError(
                f"self-test {name}: corrupted trace accepted or wrong "
                f"property ({v.violated} instead of {prop})")
        result[name] = f"rejected by {prop}"
    chk.cov["selftest"] = result


ASSUMPTIONS = [
    "RSA/CMS signature strength is assumed; forged signatures are not "
    "attempted, only wrong keys and modified content",
    "the recipient handle of an RFC 6492 message is not part of the "
    "acceptance rule demanded by the statement (krill does not compare it; "
    "counted as recipient_mismatch_accepted)",
    "the publication server has no identity update operation; the server "
    "side update is exercised for the CA (ca_update_id) only",
    "single-bit corruption is enumerated for one valid message per kind "
    "(exploration, judged by the harness with the rpki crate's decoder and "
    "validator as trusted base); the key/handle/kind lattice is the model "
    "checked part",
    "identity updates: one per child/publisher, at most MaxGen-1 per server "
    "in the model; backbones up to the generator depth",
]


def run(tier, seed):
    chk = vlib.Check(PID, LEVEL, tier, seed)
    chk.assumptions = ASSUMPTIONS
    model_runs(chk, tier)
    vlib.log(f"model phase done at {time.time() - chk.t0:.0f}s")
    universe, gens = generate(chk, tier)
    vlib.log(f"universe {len(universe)} messages, {len(gens)} distinct "
             f"states with a backbone")
    behaviours, expected, _ = build_behaviours(chk, universe, gens, tier)
    flips = bitflip_behaviours(chk, tier, len(behaviours))
    flips += foreign_key_behaviours(chk, len(behaviours) + len(flips))
    for b in behaviours[1:3]:
        chk.sample({"backbone": b["actions"][:expected[b["id"]]["backbone"]],
                    "vectors": expected[b["id"]]["refuse"],
                    "valid_probes": expected[b["id"]]["probes"]})
    trace, segs, rej = run_and_validate(
        chk, behaviours + flips, universe, "lattice")
    vlib.log(f"harness + validation done at {time.time() - chk.t0:.0f}s")
    stats = account(chk, segs, expected)
    vlib.log(f"C12 stats: {json.dumps(stats)[:600]}")
    try:
        require_exercised(stats, tier)
        self_test(chk, segs)
    except vlib.ToolError as e:
        # with violations on the table they are the result of the run
        if not chk.violations:
            raise
        vlib.log(f"anti-vacuity step not completed after violations: {e}")
    # exhaustive: the TLC model check and, per executed state, the message
    # lattice; which states are executed is given by states_executed
    chk.cov["exhaustive"] = True
    chk.cov["conformance_all_states_up_to_depth"] = \
        1 if tier == "quick" else 2
    chk.cov["bitflips"] = {
        "level": "exploration",
        "what": "every single-bit flip (thorough) / seeded 2000 (quick) of "
                "one valid message per kind; not model checked",
        "per_message": stats["bitflips"]}
    chk.cov["rule"] = (
        "for every distinct abstract state reached by a backbone of honest "
        "requests, identity updates and suspension (TLC breadth first; "
        "quick: all states of depth <= 1 and a seeded sample of depth 2; "
        "thorough: all of depth <= 2 and 170 of depth 3) TLC evaluates Valid(m) for every message of the "
        "lattice signing key x claimed sender x recipient x end point x "
        "kind x payload x tamper class; all refused ones (tampered "
        "variants only of otherwise valid messages) are sent to the real "
        "code and must return an error without touching any stored state; "
        "the valid ones are sent afterwards and every step is validated "
        "by TLC against UpDownAuthTrace; evaluations = real requests; "
        "distinct = distinct (behaviour, identity state, message)")
    return chk.finish()


def replay(path, seed):
    with open(path) as f:
        data = json.load(f)
    rp = data["replay"]
    chk = vlib.Check(PID, LEVEL, "replay", seed)
    run_and_validate(chk, [rp["behaviour"]], rp["universe"], "replay")
    return chk.finish()
