//! kv-fault: crash / failing-write enumeration for C08 (spec/Pipeline.tla).
//! See /verif/DESIGN.md (C08) and src/fault.rs.
#![allow(dead_code)]

#[path = "../../harness/src/common.rs"]
mod common;
#[path = "../../harness/src/rp.rs"]
mod rp;
#[path = "../../harness/src/ca.rs"]
mod ca;
mod fault;

use std::path::PathBuf;

fn arg(args: &[String], name: &str) -> Option<String> {
    args.iter().position(|a| a == name).and_then(|i| args.get(i + 1)).cloned()
}

fn flag(args: &[String], name: &str) -> bool {
    args.iter().any(|a| a == name)
}

fn main() {
    common::install_panic_hook();
    let args: Vec<String> = std::env::args().collect();
    match args.get(1).map(|s| s.as_str()).unwrap_or("") {
        "run-fault" => {
            let inp = arg(&args, "--in").map(PathBuf::from).unwrap();
            let out = arg(&args, "--out").map(PathBuf::from).unwrap();
            let work = arg(&args, "--work").map(PathBuf::from).unwrap();
            fault::run(&inp, &out, &work, flag(&args, "--dry"));
        }
        _ => {
            eprintln!(
                "usage: kv-fault run-fault --in <scenarios.ndjson> \
                 --out <trace.ndjson> --work <dir> [--dry]"
            );
            std::process::exit(2);
        }
    }
}
