//! run-fault: enumerates the cuts of the operations of a scenario.
//!
//! A scenario is a set-up (top CA, prefix of actions) and a *chain* of
//! operations; `StepAll` in the chain stands for "run due background tasks
//! one by one until none is due". The fault-free *twin* run expands the
//! chain into operation instances and records for each the sequence of
//! storage / file-system mutations it performs (fault injector in Count
//! mode). A *case* is (instance i, cut k, mode): the scenario is re-run in
//! a fresh directory with the same keys, instances 0..i-1 run fault-free
//! and instance i runs with the fault at its k-th mutation, realised as a
//! crash (panic, runtime dropped, fresh runtime on the same directory, the
//! two start-up lines of `StartupManager::run_scheduler`) or as a failing
//! write (the instance keeps running, unless the scheduler would exit).
//! Then: pump, re-submission, the rest of the chain, settle. Every stage is
//! observed (projection) and written to the trace, which TLC validates
//! against spec/PipelineTrace.tla.

use std::collections::{BTreeMap, BTreeSet};
use std::fs;
use std::path::{Path, PathBuf};
use std::str::FromStr;
use krill::api::admin::{
    AddChildRequest, ParentCaReq, RepositoryContact,
};
use krill::commons::storage::Ident;
use krill::constants::TASK_QUEUE_NS;
use krill::server::mq::Task;
use krill::verif::{self, FaultMode};
use rpki::ca::idexchange::{CaHandle, ChildHandle, PublisherRequest};
use serde_json::{json, Map, Value};
use crate::ca::{apply_action, list_arg, resources, World};
use crate::common::*;
use crate::rp;

const RSYNC_BASE: &str = "rsync://krill.example.org/repo/";

//------------ labels --------------------------------------------------------

fn is_hex(s: &str, min: usize) -> bool {
    s.len() >= min && s.chars().all(|c| c.is_ascii_hexdigit())
}

fn is_uuid(s: &str) -> bool {
    s.len() == 36 && s.chars().all(|c| c.is_ascii_hexdigit() || c == '-')
}

fn task_name(key: &str) -> String {
    match key.split_once('-') {
        Some((ts, name)) if ts.chars().all(|c| c.is_ascii_digit()) => {
            name.to_string()
        }
        _ => key.to_string(),
    }
}

fn mutation(
    op: &str, k: [&str; 3], k2: [&str; 3], label: String
) -> Value {
    // the class of the mutation in the vocabulary of Pipeline.tla and the
    // entity (CA or task) it belongs to
    let (t, e) = match (op, k[0], k[1]) {
        ("put", "tasks", "pending") => ("QADD", k[2]),
        ("del", "tasks", "pending") => ("QDEL", k[2]),
        ("mv", "tasks", "pending") => ("CLAIM", k[2]),
        ("del", "tasks", "running") => ("FIN", k[2]),
        ("mv", "tasks", "running") => ("QRESCHED", k[2]),
        ("put", "ca_objects", _) => ("OBJS", k[2]),
        (_, "ca_objects", _) => ("OBJSDEL", k[2]),
        ("put", "cas", _) if k[2].starts_with("command-") => ("CMD", k[1]),
        (_, "cas", _) => ("AGGAUX", k[1]),
        (_, "status", _) => ("STATUS", k[1]),
        ("put", "pubd_objects", _) => ("WAL", ""),
        (_, "pubd_objects", _) => ("WALDEL", ""),
        ("put", "rrdp", _) if k[2] == "delta" => ("DELTA", ""),
        ("put", "rrdp", _) if k[2] == "snapshot" => ("SNAP", ""),
        ("put", "rrdp", _) => ("NEWNOTIF", ""),
        ("mv", "rrdp", _) => ("RENAME", ""),
        (_, "rrdp", _) => ("CLEAN", ""),
        ("put", "rsync", _) => ("RS_TMP", ""),
        ("mv", "rsync", _) if k[2] == "current" => ("RS_C2O", ""),
        ("mv", "rsync", _) => ("RS_N2C", ""),
        ("del", "rsync", _) => ("RS_RMOLD", ""),
        ("rmscope", _, _) => ("RMSCOPE", k[1]),
        _ if label.contains("/repo/rsync/tmp-") => ("RS_FILE", ""),
        _ => ("AUX", ""),
    };
    json!({"op": op, "k": k, "k2": k2, "l": label, "t": t, "e": e})
}

const NOKEY: [&str; 3] = ["", "", ""];

/// A normalised, stable form of the label (no time stamps, session ids,
/// random directory names, scratch paths, key identifiers).
pub fn stable_label(label: &str, root: &Path) -> String {
    let root = root.display().to_string();
    let l = label.replace(&root, "");
    let mut parts: Vec<String> = Vec::new();
    for (i, seg) in l.split('/').enumerate() {
        let seg = if is_uuid(seg) {
            "SESS".to_string()
        }
        else if i > 0 && is_hex(seg, 16) {
            "R".to_string()
        }
        else if let Some((stem, ext)) = seg.rsplit_once('.')
            && is_hex(stem, 24)
        {
            format!("OBJ.{ext}")
        }
        else if seg.contains('-')
            && seg.split('-').next().map(|t| {
                t.len() >= 10 && t.chars().all(|c| c.is_ascii_digit())
            }).unwrap_or(false)
        {
            task_name(seg)
        }
        else if let Some(n) = seg.strip_prefix("command-") {
            let _ = n;
            "command-N.json".to_string()
        }
        else if seg.starts_with("wal-") {
            "wal-N.json".to_string()
        }
        else if seg.starts_with("tmp-") {
            "tmp-N".to_string()
        }
        else if i > 0 && !seg.is_empty()
            && seg.chars().all(|c| c.is_ascii_digit())
        {
            "N".to_string()
        }
        else {
            seg.to_string()
        };
        parts.push(seg);
    }
    let res = parts.join("/");
    // the files of the rsync staging directory are one class
    if let Some(idx) = res.find("/repo/rsync/tmp-N/") {
        return format!("{}/repo/rsync/tmp-N/FILE", &res[..idx])
    }
    res
}

/// Translates a fault label into an abstract mutation of the key set.
pub fn classify(label: &str, root: &Path, cas: &[String]) -> Value {
    let stable = stable_label(label, root);
    let mut it = label.splitn(3, ':');
    let kind = it.next().unwrap_or("");
    let op = it.next().unwrap_or("");
    let rest = it.next().unwrap_or("");
    if kind == "kv" {
        let (scope, key) = rest.split_once('/').unwrap_or(("", rest));
        let key_noext = key.strip_suffix(".json").unwrap_or(key);
        if scope == "pending" || scope == "running" {
            let name = task_name(key);
            let other = if scope == "pending" { "running" } else { "pending" };
            return match op {
                "store" => mutation(
                    "put", ["tasks", scope, &name], NOKEY, stable
                ),
                "delete" => mutation(
                    "del", ["tasks", scope, &name], NOKEY, stable
                ),
                "move" => mutation(
                    "mv", ["tasks", scope, &name], ["tasks", other, &name],
                    stable
                ),
                _ => mutation("aux", NOKEY, NOKEY, stable),
            }
        }
        if scope.is_empty() {
            if key.ends_with(".json")
                && (cas.iter().any(|c| c == key_noext) || key_noext == "ta")
            {
                return match op {
                    "store" => mutation(
                        "put", ["ca_objects", "", key_noext], NOKEY, stable
                    ),
                    "delete" => mutation(
                        "del", ["ca_objects", "", key_noext], NOKEY, stable
                    ),
                    _ => mutation("aux", NOKEY, NOKEY, stable),
                }
            }
            return mutation("aux", NOKEY, NOKEY, stable)
        }
        if key.starts_with("wal-") {
            return match op {
                "store" => mutation(
                    "put", ["pubd_objects", scope, key_noext], NOKEY, stable
                ),
                "delete" => mutation(
                    "del", ["pubd_objects", scope, key_noext], NOKEY, stable
                ),
                _ => mutation("aux", NOKEY, NOKEY, stable),
            }
        }
        if (op == "delete_scope" || op == "move_scope") && key.is_empty()
            && cas.iter().any(|c| c == scope)
        {
            return mutation("rmscope", ["cas", scope, ""], NOKEY, stable)
        }
        if cas.iter().any(|c| c == scope) {
            let ns = if key.starts_with("command-") || key == "snapshot.json"
            {
                "cas"
            } else {
                "status"
            };
            return match op {
                "store" => mutation("put", [ns, scope, key_noext], NOKEY, stable),
                "delete" => mutation(
                    "del", [ns, scope, key_noext], NOKEY, stable
                ),
                _ => mutation("aux", NOKEY, NOKEY, stable),
            }
        }
        if (op == "delete_scope" || op == "move_scope")
            && cas.iter().any(|c| c == scope.trim_end_matches('/'))
        {
            // the scope of an aggregate or of a status entry
            return mutation(
                "rmscope", ["*", scope.trim_end_matches('/'), ""], NOKEY,
                stable
            )
        }
        return mutation("aux", NOKEY, NOKEY, stable)
    }
    // file system
    let root_s = root.display().to_string();
    let rel = rest.strip_prefix(&root_s).unwrap_or(rest)
        .trim_start_matches('/');
    let segs: Vec<&str> = rel.split('/').collect();
    if segs.first() == Some(&"repo") && segs.get(1) == Some(&"rrdp") {
        let tail = &segs[2..];
        match (op, tail) {
            ("create_file", [_sess, serial, _rnd, file]) => {
                let f = file.strip_suffix(".xml").unwrap_or(file);
                return mutation("put", ["rrdp", serial, f], NOKEY, stable)
            }
            ("create_file", ["new-notification.xml"]) => {
                return mutation(
                    "put", ["rrdp", "", "new-notification"], NOKEY, stable
                )
            }
            ("rename_notification", _) => {
                return mutation(
                    "mv", ["rrdp", "", "new-notification"],
                    ["rrdp", "", "notification"], stable
                )
            }
            ("rm_old_serial", [_sess, serial]) => {
                return mutation("rmscope", ["rrdp", serial, ""], NOKEY, stable)
            }
            ("rm_old_snapshot", [_sess, serial]) => {
                return mutation(
                    "del", ["rrdp", serial, "snapshot"], NOKEY, stable
                )
            }
            _ => return mutation("aux", NOKEY, NOKEY, stable),
        }
    }
    if segs.first() == Some(&"repo") && segs.get(1) == Some(&"rsync") {
        return match op {
            "rsync_create_tmp" => {
                mutation("put", ["rsync", "", "tmp"], NOKEY, stable)
            }
            "rsync_current_to_old" => mutation(
                "mv", ["rsync", "", "current"], ["rsync", "", "old"], stable
            ),
            "rsync_new_to_current" => mutation(
                "mv", ["rsync", "", "tmp"], ["rsync", "", "current"], stable
            ),
            "rsync_remove_old" => {
                mutation("del", ["rsync", "", "old"], NOKEY, stable)
            }
            _ => mutation("aux", NOKEY, NOKEY, stable),
        }
    }
    mutation("aux", NOKEY, NOKEY, stable)
}

//------------ observation ---------------------------------------------------

fn walk_files(dir: &Path, rel: &mut Vec<String>, out: &mut Vec<Vec<String>>) {
    let Ok(entries) = fs::read_dir(dir) else { return };
    for entry in entries.flatten() {
        let name = entry.file_name().to_string_lossy().to_string();
        if rel.is_empty() && name.starts_with('.') {
            continue
        }
        let path = entry.path();
        rel.push(name);
        if path.is_dir() {
            walk_files(&path, rel, out);
        }
        else {
            out.push(rel.clone());
        }
        rel.pop();
    }
}

/// The set of durable keys (those name spaces the label translation knows).
fn durable_keys(root: &Path) -> BTreeSet<Vec<String>> {
    let mut keys = BTreeSet::new();
    let mut files = Vec::new();
    walk_files(&root.join("data"), &mut Vec::new(), &mut files);
    for f in files {
        let ns = f[0].as_str();
        let (scope, key) = match f.len() {
            2 => ("".to_string(), f[1].clone()),
            3 => (f[1].clone(), f[2].clone()),
            _ => continue,
        };
        let key_noext = key.strip_suffix(".json").unwrap_or(&key).to_string();
        match ns {
            "tasks" => {
                keys.insert(vec![ns.into(), scope, task_name(&key)]);
            }
            "cas" | "status" | "ca_objects" => {
                keys.insert(vec![ns.into(), scope, key_noext]);
            }
            "pubd_objects" if key.starts_with("wal-") => {
                keys.insert(vec![ns.into(), scope, key_noext]);
            }
            _ => { }
        }
    }
    // RRDP
    let rrdp = root.join("repo").join("rrdp");
    let mut files = Vec::new();
    walk_files(&rrdp, &mut Vec::new(), &mut files);
    for f in files {
        match f.as_slice() {
            [name] => {
                let n = name.strip_suffix(".xml").unwrap_or(name);
                keys.insert(vec!["rrdp".into(), "".into(), n.into()]);
            }
            [_sess, serial, _rnd, name] => {
                let n = name.strip_suffix(".xml").unwrap_or(name);
                keys.insert(vec!["rrdp".into(), serial.clone(), n.into()]);
            }
            _ => { }
        }
    }
    // rsync: top-level directories
    if let Ok(entries) = fs::read_dir(root.join("repo").join("rsync")) {
        for entry in entries.flatten() {
            let name = entry.file_name().to_string_lossy().to_string();
            let name = if name.starts_with("tmp-") { "tmp".into() } else { name };
            keys.insert(vec!["rsync".into(), "".into(), name]);
        }
    }
    keys
}

fn collect_hashes(v: &Value, skip: &[&str], out: &mut BTreeSet<String>) {
    match v {
        Value::Object(m) => {
            if let (Some(Value::String(h)), Some(_)) =
                (m.get("hash"), m.get("serial"))
            {
                out.insert(h.clone());
            }
            for (k, x) in m {
                if skip.contains(&k.as_str()) {
                    continue
                }
                collect_hashes(x, skip, out);
            }
        }
        Value::Array(a) => {
            for x in a {
                collect_hashes(x, skip, out);
            }
        }
        _ => { }
    }
}

fn sha(data: &[u8]) -> String {
    let d = openssl::sha::sha256(data);
    hex::encode(&d[..8])
}

fn objects_digest(objs: &rp::Objects) -> BTreeMap<String, String> {
    objs.iter().map(|(k, v)| (k.clone(), sha(v))).collect()
}

/// Everything that is observed of the world at one stage.
pub fn observe(w: &mut World) -> Value {
    observe_rel(w, None)
}

/// `allowed`: problems of the relying-party walk that the fault-free twin
/// shows at the corresponding stage as well (e.g. a freshly certified CA
/// that has not published yet); they do not count against the fault.
pub fn observe_rel(
    w: &mut World, allowed: Option<&BTreeSet<String>>
) -> Value {
    let root = w.env.dir.clone();
    let krill = w.env.krill.clone();
    let mut load: Vec<String> = Vec::new();
    let mut log = Map::new();
    let mut logok = true;
    let mut mem = Map::new();
    let mut objsok = Map::new();
    let mut objsdiff = Map::new();
    let mut objh = Map::new();

    // every CA that has a scope in the store must load
    let cas_store = krill.storage().open(krill::constants::CASERVER_NS);
    let mut names: BTreeSet<String> = w.cas.iter().cloned().collect();
    match cas_store.as_ref().map(|s| s.scopes()) {
        Ok(Ok(scopes)) => {
            for s in scopes {
                names.insert(s.to_string());
            }
        }
        _ => load.push("cas: cannot list".into()),
    }
    let objs_store = krill.storage().open(krill::constants::CA_OBJECTS_NS);
    for name in &names {
        // the audit log
        let mut versions: Vec<u64> = Vec::new();
        if let Ok(store) = cas_store.as_ref()
            && let Ok(scope) = Ident::boxed_from_string(name.clone())
            && let Ok(keys) = store.keys(Some(&scope), "command-")
        {
            for k in keys {
                if let Some(n) = k.as_str().strip_prefix("command-")
                    .and_then(|x| x.strip_suffix(".json"))
                    .and_then(|x| x.parse::<u64>().ok())
                {
                    versions.push(n);
                }
            }
        }
        versions.sort();
        let count = versions.len() as u64;
        if versions.iter().enumerate().any(|(i, v)| *v != i as u64) {
            logok = false;
        }
        log.insert(name.clone(), json!(count));
        if count == 0 {
            mem.insert(name.clone(), json!(0));
            objsok.insert(name.clone(), json!(true));
            continue
        }
        let handle = CaHandle::from_str(name).unwrap();
        let ca = match guarded(|| krill.ca_manager().get_ca(&handle)) {
            Outcome::Ok(Ok(ca)) => ca,
            Outcome::Ok(Err(e)) => {
                load.push(format!("ca {name}: {e}"));
                mem.insert(name.clone(), json!(-1));
                continue
            }
            Outcome::Panic(m) | Outcome::Crash(m) => {
                load.push(format!("ca {name}: panic {m}"));
                mem.insert(name.clone(), json!(-1));
                continue
            }
        };
        use krill::commons::eventsourcing::Aggregate;
        mem.insert(name.clone(), json!(ca.version()));
        // the object set against the state
        let state = serde_json::to_value(ca.as_ref()).unwrap_or(Value::Null);
        let mut want = BTreeSet::new();
        collect_hashes(&state["resources"], &["suspended", "request"], &mut want);
        let mut have = BTreeSet::new();
        let key = Ident::boxed_from_string(format!("{name}.json")).unwrap();
        match objs_store.as_ref().map(|s| s.get::<Value>(None, &key)) {
            Ok(Ok(Some(objs))) => {
                // manifests and CRLs have no counterpart in the state
                let mut all = BTreeSet::new();
                collect_hashes(&objs["classes"], &["manifest", "crl"], &mut all);
                have = all;
                if serde_json::from_value::<krill::server::ca::publishing::CaObjects>(
                    objs
                ).is_err() {
                    load.push(format!("ca_objects {name}: does not parse"));
                }
            }
            Ok(Ok(None)) => { }
            _ => load.push(format!("ca_objects {name}: cannot read")),
        }
        objh.insert(name.clone(), json!(sha(
            have.iter().cloned().collect::<Vec<_>>().join(",").as_bytes()
        )));
        let only_objs: Vec<&String> = have.difference(&want).collect();
        let only_state: Vec<&String> = want.difference(&have).collect();
        objsok.insert(
            name.clone(),
            json!(only_objs.is_empty() && only_state.is_empty())
        );
        if !(only_objs.is_empty() && only_state.is_empty()) {
            objsdiff.insert(name.clone(), json!({
                "objs_only": only_objs.len(), "state_only": only_state.len(),
            }));
        }
        // status must load as well
        if let Outcome::Panic(m) | Outcome::Crash(m) = guarded(|| {
            krill.ca_manager().get_ca_status(&handle).map(|_| ())
        }) {
            load.push(format!("status {name}: panic {m}"));
        }
    }
    // TA, publication server
    match guarded(|| krill.ca_manager().get_trust_anchor_proxy().map(|_| ())) {
        Outcome::Ok(Ok(())) => { }
        Outcome::Ok(Err(e)) => load.push(format!("ta proxy: {e}")),
        Outcome::Panic(m) | Outcome::Crash(m) => {
            load.push(format!("ta proxy: panic {m}"))
        }
    }
    match guarded(|| krill.ca_manager().get_trust_anchor_signer().map(|_| ())) {
        Outcome::Ok(Ok(())) => { }
        Outcome::Ok(Err(e)) => load.push(format!("ta signer: {e}")),
        Outcome::Panic(m) | Outcome::Crash(m) => {
            load.push(format!("ta signer: panic {m}"))
        }
    }
    match guarded(|| {
        let repo = krill.repo_manager();
        let pubs = repo.publishers()?;
        for p in pubs {
            repo.get_publisher_details(p)?;
        }
        repo.repo_stats().map(|_| ())
    }) {
        Outcome::Ok(Ok(())) => { }
        Outcome::Ok(Err(e)) => load.push(format!("pubd: {e}")),
        Outcome::Panic(m) | Outcome::Crash(m) => {
            load.push(format!("pubd: panic {m}"))
        }
    }
    // tasks must parse
    if let Ok(store) = krill.storage().open(TASK_QUEUE_NS) {
        for scope in ["pending", "running"] {
            let scope = Ident::boxed_from_string(scope.to_string()).unwrap();
            for key in store.keys(Some(&scope), "").unwrap_or_default() {
                match store.get::<Value>(Some(&scope), &key) {
                    Ok(Some(v)) => {
                        if serde_json::from_value::<Task>(v).is_err() {
                            load.push(format!("task {key}: does not parse"));
                        }
                    }
                    _ => load.push(format!("task {key}: cannot read")),
                }
            }
        }
    }

    // the three views of the repository
    let (srv, _) = w.pubserver_objects();
    let ta = krill.ca_manager().get_trust_anchor_proxy().ok().and_then(|p| {
        p.get_ta_details().ok().map(|d| d.cert.to_bytes())
    });
    let mut rp_problems: Vec<String> = Vec::new();
    let foreign_points: Vec<String> = w.foreign_key_ids().iter().map(|k| {
        format!("ca {k}: manifest missing")
    }).collect();
    let srv_digest = objects_digest(&srv);
    let mut view = |name: &str, objs: Option<&rp::Objects>,
                    err: Option<String>| -> Value {
        let mut problems: Vec<String> = Vec::new();
        if let Some(e) = err {
            problems.push(e);
        }
        let mut eq = false;
        if let Some(objs) = objs {
            if let Some(ta) = ta.clone() {
                let res = match guarded(|| rp::walk(ta, objs)) {
                    // (the publication point of a child that is not
                    // hosted here is somewhere else)
                    Outcome::Ok(res) => res.problems.into_iter().filter(|p| {
                        !foreign_points.iter().any(|f| {
                            f.eq_ignore_ascii_case(p)
                        })
                    }).collect(),
                    Outcome::Panic(m) | Outcome::Crash(m) => {
                        vec![format!("rp walk panic {m}")]
                    }
                };
                problems.extend(res);
            }
            eq = objects_digest(objs) == srv_digest;
        }
        for p in &problems {
            rp_problems.push(format!("{name}: {p}"));
        }
        let clean = problems.iter().all(|p| {
            allowed.map(|a| a.contains(p)).unwrap_or(false)
        });
        json!({"clean": clean, "eqsrv": eq, "n": objs.map(|o| o.len())})
    };
    let v_srv = view("srv", Some(&srv), None);
    let v_rrdp = match rp::read_rrdp_snapshot(&root.join("repo")) {
        Ok((objs, _, _)) => view("rrdp", Some(&objs), None),
        Err(e) => view("rrdp", None, Some(e)),
    };
    let rsync_objs = rp::read_rsync_tree(&root.join("repo"), RSYNC_BASE);
    let v_rsync = if root.join("repo/rsync/current").is_dir() {
        view("rsync", Some(&rsync_objs), None)
    } else {
        view("rsync", None, Some("no current directory".into()))
    };

    let dk: Vec<Vec<String>> = durable_keys(&root).into_iter().filter(|k| {
        matches!(
            k[0].as_str(), "tasks" | "cas" | "pubd_objects" | "rrdp" | "rsync"
        )
    }).collect();
    let objsbad: Vec<String> = objsok.iter().filter(|(_, v)| {
        v.as_bool() == Some(false)
    }).map(|(k, _)| k.clone()).collect();
    json!({
        "load": load, "logok": logok, "memok": mem == log,
        "objsbad": objsbad, "objsdiff": objsdiff, "objh": objh,
        "dk": dk,
        "srvclean": v_srv["clean"], "rrdpclean": v_rrdp["clean"],
        "rsyncclean": v_rsync["clean"],
        "rrdpeq": v_rrdp["eqsrv"], "rsynceq": v_rsync["eqsrv"],
        "problems": rp_problems,
    })
}

/// The comparable (masked) final view: API views and repository content up
/// to fresh keys, serial numbers and class names.
pub fn final_view(w: &mut World) -> Value {
    let mut abs = match guarded(|| w.project_abs()) {
        Outcome::Ok(v) => v,
        Outcome::Panic(m) | Outcome::Crash(m) => json!({"panic": m}),
    };
    if let Some(m) = abs.as_object_mut() {
        for k in ["keys", "now", "tasks", "other_tasks", "kst"] {
            m.remove(k);
        }
        // The outcome of the most recent exchange depends on how many
        // exchanges there were (a restart queues one more synchronisation,
        // which fails e.g. for a CA whose publisher was removed): not part
        // of the comparison; what the status says is published, is.
        for view in ["pst", "rst"] {
            if let Some(per_ca) = m.get_mut(view).and_then(|v| {
                v.as_object_mut()
            }) {
                for (_, st) in per_ca.iter_mut() {
                    if let Some(st) = st.as_object_mut() {
                        st.remove("last");
                    }
                }
            }
        }
    }
    let rpv = match guarded(|| w.project_rp_abs()) {
        Outcome::Ok(v) => v,
        Outcome::Panic(m) | Outcome::Crash(m) => json!({"panic": m}),
    };
    // The publication server seen from its two stores and from what it
    // serves: publishers with access, objects per publisher in the
    // repository content (the stats view), objects per publisher directory
    // in the RRDP snapshot and the rsync tree on disk. Objects of a
    // publisher that no longer exists show up here (the views above go
    // through the list of publishers).
    let krill = w.env.krill.clone();
    let mut access: Vec<String> = krill.repo_manager().publishers()
        .unwrap_or_default().iter().map(|p| p.to_string()).collect();
    access.sort();
    let stats: BTreeMap<String, usize> = match guarded(|| {
        krill.repo_manager().repo_stats()
    }) {
        Outcome::Ok(Ok(st)) => st.publishers.iter().map(|(k, v)| {
            (k.to_string(), v.objects)
        }).collect(),
        _ => BTreeMap::from([("?".to_string(), 0)]),
    };
    let per_dir = |objs: &rp::Objects| -> BTreeMap<String, usize> {
        let mut res = BTreeMap::new();
        for uri in objs.keys() {
            let rel = uri.strip_prefix(RSYNC_BASE).unwrap_or(uri);
            let dir = match rel.split_once('/') {
                Some((d, _)) => d.to_string(),
                None => "".to_string(),
            };
            *res.entry(dir).or_insert(0) += 1;
        }
        res
    };
    let root = w.env.dir.clone();
    let rrdp = rp::read_rrdp_snapshot(&root.join("repo")).ok().map(|x| {
        per_dir(&x.0)
    });
    let rsync = per_dir(&rp::read_rsync_tree(&root.join("repo"), RSYNC_BASE));
    json!({
        "abs": abs, "rp": rpv,
        "pubd": {"access": access, "stats": stats, "rrdp": rrdp,
                 "rsync": rsync},
    })
}

//------------ operations ----------------------------------------------------

fn ca_handle(name: &str) -> CaHandle {
    CaHandle::from_str(name).unwrap()
}

/// Single API requests (the compound actions of run-ca are split so that
/// each operation under test is one request).
fn api(w: &mut World, op: &Value) -> Result<Value, String> {
    let a = str_arg(op, "a");
    let krill = w.env.krill.clone();
    let es = |e: krill::commons::error::Error| e.to_string();
    match a {
        "InitCa" => {
            let c = str_arg(op, "c");
            if !w.cas.contains(&c.to_string()) {
                w.cas.push(c.into());
            }
            krill.ca_manager().init_ca(ca_handle(c), &krill).map_err(es)?;
            Ok(json!("ok"))
        }
        "AddPublisher" => {
            let c = str_arg(op, "c");
            let ca = krill.ca_manager().get_ca(&ca_handle(c)).map_err(es)?;
            let req = PublisherRequest::new(
                ca.id_cert().base64.clone(), ca_handle(c).convert(), None,
            );
            krill.repo_manager().create_publisher(req, &w.actor)
                .map_err(es)?;
            Ok(json!("ok"))
        }
        "UpdateRepo" => {
            let c = str_arg(op, "c");
            let resp = krill.repo_manager().repository_response(
                &ca_handle(c).convert(), &krill
            ).map_err(es)?;
            let contact = RepositoryContact::try_from_response(resp)
                .map_err(|e| e.to_string())?;
            krill.ca_manager().update_repo(
                ca_handle(c), contact, false, &w.actor, &w.env.slow
            ).map_err(es)?;
            Ok(json!("ok"))
        }
        "AddChild" => {
            let (p, c) = (str_arg(op, "p"), str_arg(op, "c"));
            let ca = krill.ca_manager().get_ca(&ca_handle(c)).map_err(es)?;
            let id_cert = ca.child_request().validate()
                .map_err(|e| e.to_string())?;
            let req = AddChildRequest {
                handle: ca_handle(c).convert(),
                resources: resources(&list_arg(op, "res")),
                id_cert,
            };
            krill.ca_manager().ca_add_child(
                &ca_handle(p), req, &w.actor, &krill
            ).map_err(es)?;
            Ok(json!("ok"))
        }
        "AddParent" => {
            let (p, c) = (str_arg(op, "p"), str_arg(op, "c"));
            let response = krill.ca_manager().ca_parent_response(
                &ca_handle(p), ChildHandle::from_str(c).unwrap(),
                krill.service_uri()
            ).map_err(es)?;
            let req = ParentCaReq {
                handle: ca_handle(p).convert(), response
            };
            krill.ca_manager().ca_parent_add_or_update(
                ca_handle(c), req, &w.actor, &krill
            ).map_err(es)?;
            Ok(json!("ok"))
        }
        _ => apply_action(w, op),
    }
}

enum StepRes {
    None,
    Done(String),
    /// the scheduler thread would call process::exit here
    Exit(String, String),
}

/// One turn of scheduler::run's inner loop.
fn scheduler_step(w: &mut World) -> StepRes {
    let krill = w.env.krill.clone();
    let Some((key, value)) = krill.tasks().pop() else {
        return StepRes::None
    };
    let name = task_name(key.as_str());
    let task: Task = match serde_json::from_value(value) {
        Ok(t) => t,
        Err(e) => return StepRes::Exit(name, format!("task parse: {e}")),
    };
    let res = krill::server::scheduler::verif_process_task(
        &w.env.slow, task, w.env.started
    );
    use krill::server::mq::TaskResult;
    let res = match res {
        Ok(res) => res,
        Err(e) => return StepRes::Exit(name, format!("fatal: {e}")),
    };
    let tasks = krill.tasks();
    let fin = match res {
        TaskResult::Done => tasks.finish(&key),
        TaskResult::FollowUp(task, prio) => {
            tasks.schedule_and_finish_existing(task, prio)
        }
        TaskResult::Reschedule(prio) => tasks.reschedule(&key, prio),
    };
    match fin {
        Ok(()) => StepRes::Done(name),
        Err(e) => StepRes::Exit(name, format!("finish: {e}")),
    }
}

fn task_rank(name: &str) -> u32 {
    if name.starts_with("sync_") && name.contains("_with_parent_") { 1 }
    else if name.starts_with("resource_class_removed") { 2 }
    else if name.starts_with("unexpected_key") { 3 }
    else if name.starts_with("sync_repo_") { 4 }
    else if name.starts_with("update_rrdp") { 5 }
    else { 6 }
}

/// Gives the tasks that are due distinct
/// time stamps in a fixed order. The real queue breaks ties between equal
/// millisecond time stamps by directory listing order; a fixed order makes
/// the twin and the faulty runs comparable. Returns the number of due
/// tasks.
fn canonical_queue(w: &World) -> usize {
    let Ok(store) = w.env.krill.storage().open(TASK_QUEUE_NS) else {
        return 0
    };
    let now = chrono::Utc::now().timestamp_millis();
    let pending = Ident::make("pending");
    let mut due: Vec<(u32, String, Box<Ident>)> = Vec::new();
    for key in store.keys(Some(pending), "").unwrap_or_default() {
        let Some((ts, name)) = key.as_str().split_once('-') else { continue };
        let ts: i64 = ts.parse().unwrap_or(i64::MAX);
        if ts <= now {
            due.push((task_rank(name), name.to_string(), key.clone()));
        }
    }
    due.sort();
    let n = due.len() as i64;
    for (idx, (_, name, key)) in due.iter().enumerate() {
        let ts = now - 10 * (n - idx as i64);
        let new_key = Ident::boxed_from_string(format!("{ts}-{name}"))
            .unwrap();
        if new_key.as_str() == key.as_str() {
            continue
        }
        if let Ok(Some(value)) = store.get::<Value>(Some(pending), key) {
            let _ = store.store(Some(pending), &new_key, &value);
            let _ = store.drop_key(Some(pending), key);
        }
    }
    due.len()
}

fn has_due(w: &World) -> bool {
    canonical_queue(w) > 0
}

/// Runs due tasks (fault-free phases). An exit of the scheduler is an error.
fn pump(w: &mut World, max: usize) -> Result<Vec<String>, String> {
    let mut done = Vec::new();
    for _ in 0..max {
        canonical_queue(w);
        match scheduler_step(w) {
            StepRes::None => return Ok(done),
            StepRes::Done(n) => done.push(n),
            StepRes::Exit(n, e) => {
                return Err(format!("scheduler exit in {n}: {e}"))
            }
        }
    }
    Err(format!("tasks did not settle within {max} steps"))
}

/// Makes tasks due that were re-scheduled into the future after a failure
/// (stands in for the passing of time).
fn make_due(w: &mut World) -> Result<usize, String> {
    let store = w.env.krill.storage().open(TASK_QUEUE_NS).map_err(|e| {
        e.to_string()
    })?;
    let now = chrono::Utc::now().timestamp_millis();
    let pending = Ident::make("pending");
    let mut n = 0;
    for key in store.keys(Some(pending), "").map_err(|e| e.to_string())? {
        let Some((ts, name)) = key.as_str().split_once('-') else { continue };
        let ts: i64 = ts.parse().unwrap_or(0);
        let wanted = name.starts_with("sync_")
            || name.starts_with("update_rrdp")
            || name.starts_with("resource_class_removed")
            || name.starts_with("unexpected_key");
        if ts > now && wanted {
            let value: Value = store.get(Some(pending), &key)
                .map_err(|e| e.to_string())?.ok_or("task vanished")?;
            let new_key = Ident::boxed_from_string(
                format!("{}-{name}", now - 1)
            ).map_err(|e| e.to_string())?;
            store.store(Some(pending), &new_key, &value)
                .map_err(|e| e.to_string())?;
            store.drop_key(Some(pending), &key).map_err(|e| e.to_string())?;
            n += 1;
        }
    }
    Ok(n)
}

/// Background tasks run, including those waiting for a retry.
fn settle(w: &mut World) -> Result<Vec<String>, String> {
    let mut done = pump(w, 300)?;
    for _ in 0..2 {
        make_due(w)?;
        done.extend(pump(w, 300)?);
    }
    Ok(done)
}

/// A restart: fresh runtime on the same directory plus the first two lines
/// of StartupManager::run_scheduler.
fn restart(w: &mut World) -> Result<(), String> {
    w.restart(None)?;
    let tasks = w.env.krill.tasks();
    tasks.reschedule_tasks_at_startup().map_err(|e| e.to_string())?;
    tasks.schedule(Task::QueueStartTasks, krill::server::mq::now())
        .map_err(|e| e.to_string())
}

fn setup(dir: &Path, scen: &Value, offset: usize) -> Result<World, String> {
    refill_keys(offset);
    let opts = EnvOpts {
        memory: false,
        extra_toml: scen.get("toml").and_then(|x| x.as_str())
            .unwrap_or("").to_string(),
        timing_override: scen.get("timing").and_then(|t| t.as_object())
            .map(|m| m.iter().filter_map(|(k, v)| {
                v.as_u64().map(|v| (k.clone(), v as u32))
            }).collect()).unwrap_or_default(),
        ..Default::default()
    };
    let mut w = World::create(dir, opts)?;
    let topres: Vec<String> = list_arg(scen, "top");
    let top = w.top.clone();
    w.add_ca(&top)?;
    w.add_parent(&top, "ta", &topres)?;
    pump(&mut w, 300)?;
    for act in scen.get("prefix").and_then(|a| a.as_array()).cloned()
        .unwrap_or_default()
    {
        if str_arg(&act, "a") == "Pump" {
            pump(&mut w, 300)?;
        }
        else if str_arg(&act, "a") == "Settle" {
            settle(&mut w)?;
        }
        else if str_arg(&act, "a") == "Restart" {
            restart(&mut w)?;
        }
        else {
            api(&mut w, &act)?;
        }
    }
    Ok(w)
}

/// One operation instance of the expanded chain.
#[derive(Clone)]
struct Instance {
    /// the API action, or {"a":"Step"}
    op: Value,
    /// action name or task name (kind of the operation)
    kind: String,
    /// abstract mutations
    muts: Vec<Value>,
    /// "ok" | "err"
    res: String,
    /// class of the operation in Pipeline.tla
    cls: String,
    /// CAs whose set of signed objects the operation changes
    eff: Vec<String>,
    /// another publication request reaches the server later in the chain
    later: bool,
}

fn is_step(op: &Value) -> bool {
    str_arg(op, "a") == "Step"
}

fn cls_of(kind: &str) -> String {
    match kind {
        "task:sync_repo" => "sync_repo".into(),
        "task:sync_parent" => "sync_parent".into(),
        "task:update_rrdp_if_needed" => "update_rrdp".into(),
        k if k.starts_with("task:") => "task".into(),
        "api:Republish" | "api:Renew" => "republish".into(),
        _ => "api".into(),
    }
}

fn kind_of_task(name: &str) -> String {
    if name.starts_with("sync_repo_") {
        "task:sync_repo".into()
    }
    else if name.starts_with("sync_") && name.contains("_with_parent_") {
        "task:sync_parent".into()
    }
    else if name.starts_with("resource_class_removed") {
        "task:rc_removed".into()
    }
    else {
        format!("task:{name}")
    }
}

struct Exec {
    /// "ok" | "err" | "none" | "exit" | "crash" | "panic"
    outcome: String,
    msg: String,
    /// task name for steps
    name: String,
    labels: Vec<String>,
    fired: bool,
}

/// Executes one operation with the given fault mode.
fn execute(w: &mut World, op: &Value, mode: FaultMode) -> Exec {
    let step = is_step(op);
    if step {
        canonical_queue(w);
    }
    verif::set_fault_mode(mode, None);
    let mut name = String::new();
    let (outcome, msg) = if step {
        match guarded(|| scheduler_step(w)) {
            Outcome::Ok(StepRes::None) => ("none".to_string(), String::new()),
            Outcome::Ok(StepRes::Done(n)) => {
                name = n;
                ("ok".to_string(), String::new())
            }
            Outcome::Ok(StepRes::Exit(n, e)) => {
                name = n;
                ("exit".to_string(), e)
            }
            Outcome::Crash(m) => ("crash".to_string(), m),
            Outcome::Panic(m) => ("panic".to_string(), m),
        }
    }
    else {
        match guarded(|| api(w, op)) {
            Outcome::Ok(Ok(_)) => ("ok".to_string(), String::new()),
            Outcome::Ok(Err(e)) => ("err".to_string(), e),
            Outcome::Crash(m) => ("crash".to_string(), m),
            Outcome::Panic(m) => ("panic".to_string(), m),
        }
    };
    let labels = verif::fault_labels();
    let fired = verif::fault_fired();
    verif::set_fault_mode(FaultMode::Off, None);
    Exec { outcome, msg, name, labels, fired }
}

fn classify_all(labels: &[String], w: &World) -> Vec<Value> {
    let mut cas = w.cas.clone();
    cas.push("ta".into());
    let mut res: Vec<Value> = Vec::new();
    for l in labels {
        let mut m = classify(l, &w.env.dir, &cas);
        if m["t"] == "RMSCOPE" {
            let ca = m["e"].clone();
            let objs_gone = res.iter().any(|x: &Value| {
                x["t"] == "OBJSDEL" && x["e"] == ca
            });
            if objs_gone {
                m = mutation("aux", NOKEY, NOKEY, str_arg(&m, "l").to_string());
                m["t"] = json!("STATUS");
                m["e"] = ca;
            }
        }
        res.push(m);
    }
    res
}

/// The fault-free twin: expands the chain, records the mutation sequences.
fn run_twin(
    dir: &Path, scen: &Value, offset: usize,
) -> Result<(Vec<Instance>, Value, Vec<Value>), String> {
    let mut w = setup(dir, scen, offset)?;
    let chain = scen.get("chain").and_then(|a| a.as_array()).cloned()
        .unwrap_or_default();
    let mut instances = Vec::new();
    let mut obs = Vec::new();
    for op in &chain {
        if str_arg(op, "a") == "StepAll" {
            let mut n = 0;
            while has_due(&w) {
                let op = json!({"a": "Step"});
                obs.push(observe(&mut w));
                let ex = execute(&mut w, &op, FaultMode::Count);
                if ex.outcome != "ok" {
                    return Err(format!(
                        "twin: step {} ended {}: {}", ex.name, ex.outcome,
                        ex.msg
                    ))
                }
                let kind = kind_of_task(&ex.name);
                instances.push(Instance {
                    op, cls: cls_of(&kind), kind,
                    muts: classify_all(&ex.labels, &w), res: "ok".into(),
                    eff: Vec::new(), later: false,
                });
                n += 1;
                if n > 80 {
                    return Err("twin: tasks do not settle".into())
                }
            }
        }
        else {
            obs.push(observe(&mut w));
            let ex = execute(&mut w, op, FaultMode::Count);
            if ex.outcome != "ok" && ex.outcome != "err" {
                return Err(format!(
                    "twin: {} ended {}: {}", op, ex.outcome, ex.msg
                ))
            }
            let kind = format!("api:{}", str_arg(op, "a"));
            instances.push(Instance {
                op: op.clone(), cls: cls_of(&kind), kind,
                muts: classify_all(&ex.labels, &w), res: ex.outcome,
                eff: Vec::new(), later: false,
            });
        }
    }
    obs.push(observe(&mut w));
    // which object sets each instance changes; whether a publication follows
    let n = instances.len();
    for i in 0..n {
        let (a, b) = (&obs[i]["objh"], &obs[i + 1]["objh"]);
        let mut eff: Vec<String> = Vec::new();
        let names: BTreeSet<&String> = a.as_object().into_iter().flatten()
            .chain(b.as_object().into_iter().flatten()).map(|x| x.0).collect();
        for c in names {
            if a.get(c) != b.get(c) {
                eff.push(c.clone());
            }
        }
        instances[i].eff = eff;
        instances[i].later = (i + 1..n).any(|j| {
            instances[j].muts.iter().any(|m| m["t"] == "WAL")
            && instances[j].cls != "update_rrdp"
        });
    }
    settle(&mut w)?;
    let fin = json!({"view": final_view(&mut w), "obs": observe(&mut w)});
    // the yardstick itself must be sound
    let fo = &fin["obs"];
    if fo["rrdpeq"] != json!(true) || fo["rsynceq"] != json!(true)
        || !fo["objsbad"].as_array().map(|a| a.is_empty()).unwrap_or(false)
        || !fo["load"].as_array().map(|a| a.is_empty()).unwrap_or(false)
    {
        return Err(format!(
            "twin: the fault-free run does not end in a consistent state: \
             rrdpeq={} rsynceq={} objsbad={} load={}",
            fo["rrdpeq"], fo["rsynceq"], fo["objsbad"], fo["load"]
        ))
    }
    Ok((instances, fin, obs))
}

fn problems_of(obs: &[&Value]) -> BTreeSet<String> {
    let mut res = BTreeSet::new();
    for o in obs {
        for p in o["problems"].as_array().into_iter().flatten() {
            let p = p.as_str().unwrap_or("");
            let p = p.split_once(": ").map(|x| x.1).unwrap_or(p);
            res.insert(p.to_string());
        }
    }
    res
}

fn same_kind(a: &Value, b: &Value) -> bool {
    a["op"] == b["op"] && a["k"] == b["k"] && a["k2"] == b["k2"]
}

/// One case. Returns the trace events.
fn run_case(
    dir: &Path, scen: &Value, offset: usize, instances: &[Instance],
    twin_final: &Value, twin_obs: &[Value], i: usize, k: u64, mode: &str,
) -> Vec<Value> {
    // what the relying party may complain about at each stage without it
    // being the fault's doing
    let allow_pre = problems_of(&[&twin_obs[i]]);
    let allow_cut = problems_of(&[&twin_obs[i], &twin_obs[i + 1]]);
    let mut later_obs: Vec<&Value> = twin_obs[i..].iter().collect();
    later_obs.push(&twin_final["obs"]);
    let allow_later = problems_of(&later_obs);
    let allow_final = problems_of(&[&twin_final["obs"]]);
    let id = json!({
        "scen": scen.get("id"), "i": i, "k": k, "mode": mode,
    });
    let inst = &instances[i];
    let mut events = Vec::new();
    let skip = |why: String| -> Vec<Value> {
        vec![json!({"ev": "skip", "case": id, "why": why})]
    };
    let mut w = match guarded(|| setup(dir, scen, offset)) {
        Outcome::Ok(Ok(w)) => w,
        Outcome::Ok(Err(e)) => return skip(format!("setup: {e}")),
        Outcome::Panic(m) | Outcome::Crash(m) => {
            return skip(format!("setup panic: {m}"))
        }
    };
    // the instances before the one under test, fault-free
    for (j, prev) in instances[..i].iter().enumerate() {
        let ex = execute(&mut w, &prev.op, FaultMode::Off);
        let kind = if is_step(&prev.op) {
            kind_of_task(&ex.name)
        } else {
            prev.kind.clone()
        };
        if ex.outcome != prev.res || kind != prev.kind {
            return skip(format!(
                "instance {j} differs from the twin: {} {} / {} {}",
                kind, ex.outcome, prev.kind, prev.res
            ))
        }
    }
    let pre = observe_rel(&mut w, Some(&allow_pre));
    let fault = if mode == "crash" {
        FaultMode::CrashAt(k)
    } else {
        FaultMode::ErrorAt(k)
    };
    let ex = execute(&mut w, &inst.op, fault);
    let muts = classify_all(&ex.labels, &w);
    // The run must have followed the twin up to the cut.
    let upto = (k as usize).min(muts.len());
    if !ex.fired || upto < k as usize
        || (0..upto).any(|x| {
            inst.muts.get(x).map(|m| !same_kind(m, &muts[x])).unwrap_or(true)
        })
    {
        let first = (0..upto).find(|x| {
            inst.muts.get(*x).map(|m| !same_kind(m, &muts[*x])).unwrap_or(true)
        });
        return skip(format!(
            "mutation sequence differs from the twin before the cut \
             (fired={}, {} labels, first difference {:?}: twin {} run {})",
            ex.fired, muts.len(), first,
            first.and_then(|x| inst.muts.get(x)).cloned().unwrap_or_default(),
            first.and_then(|x| muts.get(x)).cloned().unwrap_or_default(),
        ))
    }
    // which mutations took effect: all but the k-th (crash: those before)
    let executed: Vec<Value> = muts.iter().enumerate().filter(|(x, _)| {
        if mode == "crash" { x + 1 < k as usize } else { x + 1 != k as usize }
    }).map(|(_, m)| m.clone()).collect();
    let cut = inst.muts[k as usize - 1].clone();
    let acked = ex.outcome == "ok" && !is_step(&inst.op);
    let down = ex.outcome == "crash" || ex.outcome == "exit";
    events.push(json!({
        "ev": "reset", "case": id, "kind": inst.kind, "op": inst.op,
        "cls": inst.cls, "task": is_step(&inst.op), "eff": inst.eff,
        "later": inst.later,
        // with everything due, the maintenance tasks that start-up queues
        // publish again
        "later_restart": inst.later || scen.get("timing").is_some(),
        "seq": inst.muts, "n": inst.muts.len(), "pre": pre,
        "twinres": inst.res,
    }));
    let mut restart_err = Value::Null;
    if down {
        if let Err(e) = match guarded(|| restart(&mut w)) {
            Outcome::Ok(r) => r,
            Outcome::Panic(m) | Outcome::Crash(m) => Err(format!("panic {m}")),
        } {
            restart_err = json!(e);
        }
    }
    let obs = observe_rel(&mut w, Some(&allow_cut));
    events.push(json!({
        "ev": "Fault", "case": id, "k": k, "mode": mode, "cut": cut,
        "outcome": ex.outcome, "msg": ex.msg, "acked": acked,
        "executed": executed, "restarted": down,
        "restart_ok": restart_err.is_null(),
        "restart_err": restart_err, "obs": obs,
    }));
    // background tasks
    let pumped = match guarded(|| settle(&mut w)) {
        Outcome::Ok(Ok(done)) => json!({"ok": done}),
        Outcome::Ok(Err(e)) => json!({"err": e}),
        Outcome::Panic(m) | Outcome::Crash(m) => json!({"panic": m}),
    };
    events.push(json!({
        "ev": "Pump", "case": id, "ok": pumped.get("ok").is_some(),
        "res": pumped, "obs": observe_rel(&mut w, Some(&allow_later)),
    }));
    // the interrupted request is submitted again
    let mut resub = json!("not-needed");
    if !acked && !is_step(&inst.op) {
        let ex2 = execute(&mut w, &inst.op, FaultMode::Off);
        resub = json!({"outcome": ex2.outcome, "msg": ex2.msg});
    }
    // the rest of the chain
    let mut rest_res = Vec::new();
    for next in &instances[i + 1..] {
        if is_step(&next.op) {
            continue
        }
        let _ = guarded(|| settle(&mut w));
        let ex3 = execute(&mut w, &next.op, FaultMode::Off);
        rest_res.push(json!({
            "op": next.op, "outcome": ex3.outcome, "msg": ex3.msg,
            "twin": next.res,
        }));
    }
    let settled = match guarded(|| settle(&mut w)) {
        Outcome::Ok(Ok(done)) => json!({"ok": done}),
        Outcome::Ok(Err(e)) => json!({"err": e}),
        Outcome::Panic(m) | Outcome::Crash(m) => json!({"panic": m}),
    };
    let view = final_view(&mut w);
    let equal = view == twin_final["view"];
    let mut diff = Vec::new();
    if !equal {
        diff_json("", &twin_final["view"], &view, &mut diff);
    }
    // What the still-running instance shows must also be what is stored: a
    // fresh runtime on the same directory (nothing pumped) shows the same
    // views -- an acknowledged command is not lost, a failed one does not
    // live on in memory only.
    let mut equal_restart = true;
    let mut diff_restart = Vec::new();
    let mut restart2_err = Value::Null;
    if !down {
        match guarded(|| restart(&mut w)) {
            Outcome::Ok(Ok(())) => {
                let view2 = final_view(&mut w);
                equal_restart = view2 == twin_final["view"];
                if !equal_restart {
                    diff_json(
                        "", &twin_final["view"], &view2, &mut diff_restart
                    );
                }
            }
            Outcome::Ok(Err(e)) => {
                equal_restart = false;
                restart2_err = json!(e);
            }
            Outcome::Panic(m) | Outcome::Crash(m) => {
                equal_restart = false;
                restart2_err = json!(format!("panic {m}"));
            }
        }
    }
    events.push(json!({
        "ev": "Final", "case": id, "resubmit": resub, "rest": rest_res,
        "settled": settled, "settledok": settled.get("ok").is_some(),
        "equal": equal, "diff": diff,
        "equalrestart": equal_restart, "diffrestart": diff_restart,
        "restart2_err": restart2_err,
        "obs": observe_rel(&mut w, Some(&allow_final)),
    }));
    events
}

fn diff_json(path: &str, a: &Value, b: &Value, out: &mut Vec<String>) {
    if out.len() > 12 {
        return
    }
    match (a, b) {
        (Value::Object(x), Value::Object(y)) => {
            let keys: BTreeSet<&String> = x.keys().chain(y.keys()).collect();
            for k in keys {
                diff_json(
                    &format!("{path}/{k}"),
                    x.get(k).unwrap_or(&Value::Null),
                    y.get(k).unwrap_or(&Value::Null), out
                );
            }
        }
        _ if a != b => {
            let sa = a.to_string();
            let sb = b.to_string();
            out.push(format!(
                "{path}: twin={} run={}",
                &sa[..sa.len().min(160)], &sb[..sb.len().min(160)]
            ));
        }
        _ => { }
    }
}

pub fn run(inp: &Path, out: &Path, work: &Path, dry: bool) {
    let scens = read_ndjson(inp);
    let mut trace = TraceOut::create(out);
    for scen in scens.iter() {
        let offset = int_arg(scen, "keys") as usize;
        let dir: PathBuf = work.join("w");
        let twin = guarded(|| run_twin(&dir, scen, offset));
        let (instances, twin_final, twin_obs) = match twin {
            Outcome::Ok(Ok(t)) => t,
            Outcome::Ok(Err(e)) => {
                trace.push(&json!({
                    "ev": "twin", "scen": scen.get("id"), "error": e
                }));
                continue
            }
            Outcome::Panic(m) | Outcome::Crash(m) => {
                trace.push(&json!({
                    "ev": "twin", "scen": scen.get("id"),
                    "error": format!("panic {m}")
                }));
                continue
            }
        };
        trace.push(&json!({
            "ev": "twin", "scen": scen.get("id"),
            "instances": instances.iter().map(|x| json!({
                "kind": x.kind, "op": x.op, "n": x.muts.len(),
                "res": x.res, "seq": x.muts, "cls": x.cls, "eff": x.eff,
                "later": x.later,
            })).collect::<Vec<_>>(),
            "final": twin_final,
            "obs": if dry { json!(twin_obs) } else { Value::Null },
        }));
        if dry {
            continue
        }
        // cases: explicit list [[i,k,mode],..] or all
        let cases: Vec<(usize, u64, String)> = match scen.get("cases")
            .and_then(|c| c.as_array())
        {
            Some(list) => list.iter().filter_map(|c| {
                Some((
                    c.get(0)?.as_u64()? as usize, c.get(1)?.as_u64()?,
                    c.get(2)?.as_str()?.to_string()
                ))
            }).collect(),
            None => {
                let mut all = Vec::new();
                for (i, inst) in instances.iter().enumerate() {
                    for k in 1..=inst.muts.len() as u64 {
                        all.push((i, k, "crash".to_string()));
                        all.push((i, k, "error".to_string()));
                    }
                }
                all
            }
        };
        for (i, k, mode) in cases {
            if i >= instances.len() || k == 0
                || k as usize > instances[i].muts.len()
            {
                trace.push(&json!({
                    "ev": "skip", "case": {"scen": scen.get("id"), "i": i,
                    "k": k, "mode": mode}, "why": "no such cut",
                }));
                continue
            }
            for ev in run_case(
                &dir, scen, offset, &instances, &twin_final, &twin_obs, i, k,
                &mode
            ) {
                trace.push(&ev);
            }
        }
    }
    trace.finish();
}
