//! run-pub: replays PubServer.tla / RepoFiles.tla behaviours on the real
//! publication server (RepositoryManager inside a KrillRuntime).
//!
//! After every action the real state is projected onto the variables of
//! the specifications:
//!
//!  * the list reply and the publisher details of every publisher,
//!  * repo_stats (session, serial),
//!  * FROM DISK: notification.xml, every snapshot.xml / delta.xml under
//!    repo_dir/rrdp parsed with rpki::rrdp and hashed, new-notification.xml,
//!    the rsync directories current / old / tmp-N.
//!
//! Writes of the repository can be cut at the k-th file system mutation
//! (krill::verif fault points, labels "fs:..."), as a crash (unwinding
//! panic, runtime dropped, fresh runtime on the surviving directory) or as
//! an I/O error.

use std::collections::HashMap;
use std::fs;
use std::path::{Path, PathBuf};
use std::str::FromStr;
use krill::api::admin::PublicationServerUris;
use krill::commons::actor::Actor;
use krill::constants::ACTOR_DEF_KRILL;
use krill::server::mq::{Task, TaskResult};
use krill::server::scheduler::verif_process_task;
use krill::verif::{self, FaultMode};
use rpki::ca::idexchange::{PublisherHandle, PublisherRequest};
use rpki::ca::publication::{
    self, Base64, Publish, PublishDelta, Update, Withdraw,
};
use rpki::crypto::KeyIdentifier;
use rpki::rrdp::Hash;
use rpki::uri;
use serde_json::{json, Value};
use crate::common::*;

const BASE: &str = "rsync://localhost/repo/";
const RRDP_BASE: &str = "https://localhost/rrdp/";

//------------ contents ------------------------------------------------------

/// Model contents: "c1" is short, "c2" three times as long
/// (Base64::size_approx 3 and 9), "c3" in between.
fn content_bytes(c: &str) -> Vec<u8> {
    match c {
        "c1" => b"one".to_vec(),
        "c2" => b"twotwotwo".to_vec(),
        "c3" => b"three3".to_vec(),
        other => other.as_bytes().to_vec(),
    }
}

fn content_name(bytes: &[u8]) -> String {
    for c in ["c1", "c2", "c3"] {
        if content_bytes(c) == bytes {
            return c.into()
        }
    }
    "?".into()
}

fn hash_name(hash: &Hash) -> String {
    for c in ["c1", "c2", "c3"] {
        if Hash::from_data(&content_bytes(c)) == *hash {
            return c.into()
        }
    }
    "?".into()
}

//------------ URIs ----------------------------------------------------------

struct Rng(u64);

impl Rng {
    fn next(&mut self) -> u64 {
        let mut x = self.0;
        x ^= x << 13;
        x ^= x >> 7;
        x ^= x << 17;
        self.0 = x;
        x
    }
}

/// Spellings of the same base URI (scheme and host are case-insensitive).
fn base_variant(name: &str) -> &'static str {
    match name {
        "host" => "rsync://LocalHost/repo/",
        "scheme" => "RSYNC://localhost/repo/",
        "mixed" => "Rsync://LOCALHOST/repo/",
        _ => BASE,
    }
}

fn segs(v: &Value) -> Vec<String> {
    v.as_array().map(|a| {
        a.iter().map(|s| s.as_str().unwrap_or("?").to_string()).collect()
    }).unwrap_or_default()
}

fn concrete_uri(u: &Value, variant: &str) -> Result<uri::Rsync, String> {
    let s = format!("{}{}", base_variant(variant), segs(u).join("/"));
    uri::Rsync::from_str(&s).map_err(|e| format!("bad uri {s}: {e}"))
}

/// The abstract URI: the path segments below the base URI, with scheme and
/// host compared case-insensitively (that is the identity of a URI).
fn abstract_uri(uri: &str) -> Value {
    let lower = uri.to_ascii_lowercase();
    let prefix_len = "rsync://localhost/".len();
    if lower.starts_with("rsync://localhost/")
        && uri[prefix_len..].starts_with("repo/")
    {
        let path = &uri[prefix_len + "repo/".len()..];
        json!(path.split('/').collect::<Vec<_>>())
    }
    else {
        json!(["?", uri])
    }
}

fn handle_of(p: &Value) -> Result<PublisherHandle, String> {
    PublisherHandle::from_str(&segs(p).join("/")).map_err(|e| {
        format!("bad handle: {e}")
    })
}

//------------ the driver ----------------------------------------------------

struct Ident {
    key: KeyIdentifier,
    cert_b64: Base64,
}

struct Run {
    dir: PathBuf,
    opts: EnvOpts,
    mem_seed: u64,
    env: Option<Env>,
    /// UUIDs of the RRDP sessions in order of first appearance.
    sessions: Vec<String>,
    idents: HashMap<String, Ident>,
    signed: bool,
    rng: Rng,
}

impl Run {
    fn env(&self) -> &Env {
        self.env.as_ref().unwrap()
    }

    fn session_index(&mut self, uuid: &str) -> usize {
        if let Some(i) = self.sessions.iter().position(|s| s == uuid) {
            return i + 1
        }
        self.sessions.push(uuid.into());
        self.sessions.len()
    }

    fn ident(&mut self, handle: &str) -> Result<&Ident, String> {
        if !self.idents.contains_key(handle) {
            let cert = self.env().krill.signer().create_self_signed_id_cert()
                .map_err(|e| format!("id cert: {e}"))?;
            let key = cert.public_key().key_identifier();
            let cert_b64 = Base64::from_content(&cert.to_bytes());
            self.idents.insert(handle.into(), Ident { key, cert_b64 });
        }
        Ok(self.idents.get(handle).unwrap())
    }

    fn restart(&mut self) -> Result<(), String> {
        self.env = None;
        verif::set_fault_mode(FaultMode::Off, None);
        self.env = Some(Env::open(&self.dir, self.opts.clone(), self.mem_seed)?);
        Ok(())
    }
}

fn config_toml(cfg: &Value) -> String {
    // "inf" ages: ten days, far beyond the run time of a behaviour.
    let age = |v: &str, zero: u32| -> u32 {
        match v { "inf" => 864_000, _ => zero }
    };
    let min_age = age(str_arg(cfg, "min_age"), 0);
    let max_age = age(str_arg(cfg, "max_age"), 0);
    format!(
        "bgp_riswhois_enabled = false\n\
         rrdp_delta_files_min_nr = {}\n\
         rrdp_delta_files_max_nr = {}\n\
         rrdp_delta_files_min_seconds = {}\n\
         rrdp_delta_files_max_seconds = {}\n\
         rrdp_delta_interval_min_seconds = 0\n\
         rrdp_files_archive = {}\n",
        int_arg(cfg, "min_nr"), int_arg(cfg, "max_nr").max(1),
        min_age, max_age,
        cfg.get("archive").and_then(|v| v.as_bool()).unwrap_or(false),
    )
}

pub fn run(behaviours: &Path, out: &Path, workdir: &Path, signed: bool) {
    let behaviours = read_ndjson(behaviours);
    let mut trace = TraceOut::create(out);
    for (idx, beh) in behaviours.iter().enumerate() {
        let id = beh.get("id").cloned().unwrap_or(json!(idx));
        refill_keys(idx * 97);
        let cfg = beh.get("cfg").cloned().unwrap_or(json!({
            "min_nr": 0, "max_nr": 2, "min_age": "zero", "max_age": "inf"
        }));
        trace.push(&json!({
            "ev": "reset", "behaviour": if id.is_null() { json!(idx) } else { id.clone() }, "cfg": cfg,
            "case": beh.get("case").cloned().unwrap_or(json!(["canon"])),
            "seed": beh.get("seed").cloned().unwrap_or(json!(1)),
        }));
        if let Err(e) = run_one(beh, &cfg, workdir, signed, &mut trace) {
            eprintln!("behaviour {id}: harness failure: {e}");
            trace.finish();
            std::process::exit(3);
        }
    }
    trace.finish();
}

fn run_one(
    beh: &Value, cfg: &Value, workdir: &Path, signed: bool,
    trace: &mut TraceOut,
) -> Result<(), String> {
    let opts = EnvOpts {
        extra_toml: config_toml(cfg), ..Default::default()
    };
    verif::set_fault_mode(FaultMode::Off, None);
    let env = Env::create(workdir, opts.clone())?;
    let mem_seed = env.mem_seed;
    let seed = beh.get("seed").and_then(|v| v.as_u64()).unwrap_or(1);
    let mut run = Run {
        dir: workdir.into(), opts, mem_seed, env: Some(env),
        sessions: Vec::new(), idents: HashMap::new(), signed,
        rng: Rng(seed.wrapping_mul(0x9E37_79B9_7F4A_7C15) | 1),
    };
    let cases: Vec<String> = beh.get("case").and_then(|c| c.as_array()).map(
        |a| a.iter().filter_map(|s| s.as_str().map(String::from)).collect()
    ).unwrap_or_else(|| vec!["canon".into()]);

    let mut actions = beh.get("actions").and_then(|a| a.as_array()).cloned()
        .unwrap_or_default();
    // Init: RepositoryManager::init writes the first notification. It is
    // the first action of every behaviour (implicitly without a cut).
    let init_cut = if actions.first().map(|a| str_arg(a, "a")) == Some("Init")
    {
        actions.remove(0)
    }
    else {
        json!({"a": "Init", "cut": 0, "mode": "none"})
    };
    let mut line = init_cut.clone();
    line["ev"] = json!("Init");
    let res = with_cut(&mut run, &init_cut, &mut line, |run| {
        let uris = PublicationServerUris {
            rrdp_base_uri: uri::Https::from_str(RRDP_BASE).unwrap(),
            rsync_jail: uri::Rsync::from_str(BASE).unwrap(),
        };
        let e = run.env();
        e.krill.repo_manager().init(uris, &e.krill).map_err(|e| e.to_string())
    })?;
    finish_line(&mut run, &mut line, res, &[]);
    emit(trace, line);

    // every handle that occurs
    let mut handles: Vec<Value> = Vec::new();
    if let Some(ps) = beh.get("pubs").and_then(|p| p.as_array()) {
        handles = ps.clone();
    }
    for a in &actions {
        if let Some(p) = a.get("p") && !handles.contains(p)
            && p.as_array().map(|x| !x.is_empty()).unwrap_or(false)
        {
            handles.push(p.clone());
        }
    }

    for action in &actions {
        let a = str_arg(action, "a");
        let mut line = action.clone();
        line["ev"] = json!(a);
        let cut = action.clone();
        let res: StepResult = match a {
            "Add" => {
                let h = handle_of(&action["p"])?;
                let cert = run.ident(h.as_str())?.cert_b64.clone();
                let req = PublisherRequest::new(cert, h, None);
                let e = run.env();
                step(guarded(|| {
                    e.krill.repo_manager().create_publisher(
                        req, &actor()
                    ).map_err(|e| e.to_string())
                }))
            }
            "Remove" => {
                let h = handle_of(&action["p"])?;
                let e = run.env();
                step(guarded(|| {
                    e.krill.repo_manager().remove_publisher(
                        h, &actor(), &e.krill
                    ).map_err(|e| e.to_string())
                }))
            }
            "Delta" => {
                let h = handle_of(&action["p"])?;
                let (delta, variants) = build_delta(
                    &action["elems"], &cases, action.get("variants"),
                    &mut run.rng,
                )?;
                line["variants"] = json!(variants);
                request(&mut run, &h, publication::Message::delta(delta))
                    .map(|_| ())
            }
            "List" => {
                let h = handle_of(&action["p"])?;
                match request(
                    &mut run, &h, publication::Message::list_query()
                ) {
                    StepResult::Ok(Some(listed)) => {
                        line["listed"] = listed;
                        StepResult::Ok(())
                    }
                    other => other.map(|_| ()),
                }
            }
            "Update" => {
                with_cut(&mut run, &cut, &mut line, |run| {
                    let e = run.env();
                    // scheduler::update_rrdp_if_needed through the real
                    // task processing
                    match verif_process_task(
                        &e.slow, Task::RrdpUpdateIfNeeded, e.started
                    ) {
                        Ok(TaskResult::Done) => Ok(()),
                        Ok(TaskResult::Reschedule(_)) => {
                            Err("rescheduled".into())
                        }
                        Ok(TaskResult::FollowUp(..)) => {
                            Err("unexpected follow-up".into())
                        }
                        Err(e) => Err(format!("fatal: {e}")),
                    }
                })?
            }
            "Reset" => {
                with_cut(&mut run, &cut, &mut line, |run| {
                    run.env().krill.repo_manager().rrdp_session_reset()
                        .map_err(|e| e.to_string())
                })?
            }
            "Rewrite" => {
                with_cut(&mut run, &cut, &mut line, |run| {
                    run.env().krill.repo_manager().write_repository()
                        .map_err(|e| e.to_string())
                })?
            }
            "Restart" => {
                run.restart()?;
                StepResult::Ok(())
            }
            other => return Err(format!("unknown action {other}")),
        };
        finish_line(&mut run, &mut line, res, &handles);
        emit(trace, line);
    }
    verif::set_fault_mode(FaultMode::Off, None);
    Ok(())
}

fn actor() -> Actor {
    ACTOR_DEF_KRILL
}

/// Emits the line: the logical event, then one "fs" event per file system
/// mutation the code performed, then "wend" with the projected disk.
fn denull(v: &mut Value) {
    match v {
        Value::Null => *v = json!("none"),
        Value::Array(a) => a.iter_mut().for_each(denull),
        Value::Object(o) => o.values_mut().for_each(denull),
        _ => { }
    }
}

fn emit(trace: &mut TraceOut, mut line: Value) {
    denull(&mut line);
    let ops = line.as_object_mut().and_then(|o| o.remove("ops"));
    let disk = line.as_object_mut().and_then(|o| o.remove("disk"));
    let wres = line.as_object_mut().and_then(|o| o.remove("wres"));
    let is_write = matches!(
        str_arg(&line, "ev"), "Init" | "Update" | "Reset" | "Rewrite"
    );
    trace.push(&line);
    if is_write {
        for op in ops.as_ref().and_then(|o| o.as_array()).cloned()
            .unwrap_or_default()
        {
            trace.push(&op);
        }
        trace.push(&json!({
            "ev": "wend", "of": str_arg(&line, "ev"),
            "cut_at": line.get("cut_at").cloned().unwrap_or(json!(["none"])),
            "wres": wres.unwrap_or(json!("ok")),
            "disk": disk.unwrap_or(json!({})),
            "stats": line.get("stats").cloned().unwrap_or(json!({})),
        }));
    }
}

//------------ results -------------------------------------------------------

enum StepResult<T = ()> {
    Ok(T),
    Refused(String),
    Panic(String),
    Crash(String),
}

impl<T> StepResult<T> {
    fn map<U>(self, f: impl FnOnce(T) -> U) -> StepResult<U> {
        match self {
            StepResult::Ok(t) => StepResult::Ok(f(t)),
            StepResult::Refused(s) => StepResult::Refused(s),
            StepResult::Panic(s) => StepResult::Panic(s),
            StepResult::Crash(s) => StepResult::Crash(s),
        }
    }
}

fn step<T>(o: Outcome<Result<T, String>>) -> StepResult<T> {
    match o {
        Outcome::Ok(Ok(t)) => StepResult::Ok(t),
        Outcome::Ok(Err(e)) => StepResult::Refused(e),
        Outcome::Panic(m) => StepResult::Panic(m),
        Outcome::Crash(m) => StepResult::Crash(m),
    }
}

/// Runs a repository write with the requested cut.
///
/// `cut` holds "cut" (k, 0 = none) and "mode" ("crash" | "error").  The
/// executed file system mutations are recorded in line["ops"], the outcome
/// of the write in line["wres"]: "ok", "crash" (cut fired as a crash),
/// "ioerr" (cut fired as an error), or "fail" (the code reported an error
/// without an injected fault).
fn with_cut(
    run: &mut Run, cut: &Value, line: &mut Value,
    op: impl FnOnce(&Run) -> Result<(), String>,
) -> Result<StepResult, String> {
    let k = int_arg(cut, "cut").max(0) as u64;
    let mode = str_arg(cut, "mode");
    let fault = match (k, mode) {
        (0, _) => FaultMode::Count,
        (k, "crash") => FaultMode::CrashAt(k),
        (k, "error") => FaultMode::ErrorAt(k),
        _ => FaultMode::Count,
    };
    verif::set_fault_mode(fault, Some("fs:".into()));
    let res = guarded(|| op(run));
    let labels = verif::fault_labels();
    let fired = verif::fault_fired();
    verif::set_fault_mode(FaultMode::Off, None);
    // The mutation in front of which the fault fired was not executed; if
    // the code swallowed the injected error (best-effort clean-up) later
    // mutations follow it.
    let fired_idx = if fired { k as usize - 1 } else { labels.len() };
    let mut ops = Vec::new();
    for (i, l) in labels.iter().enumerate() {
        let op = abstract_op(run, l);
        if i == fired_idx {
            line["cut_at"] = op.clone();
            if mode == "error" && i + 1 < labels.len() {
                ops.push(json!({"ev": "fserr", "op": op}));
            }
        }
        else {
            ops.push(json!({"ev": "fs", "op": op}));
        }
    }
    if line.get("cut_at").is_none() {
        line["cut_at"] = json!(["none"]);
    }
    // The code reported an error although nothing was injected: the
    // mutation behind the last fault point is the one that failed.
    if !fired && matches!(res, Outcome::Ok(Err(_)))
        && let Some(last) = ops.last_mut()
    {
        last["ev"] = json!("fsfail");
    }
    line["ops"] = json!(ops);
    let res = step(res);
    let wres = match &res {
        StepResult::Ok(()) => "ok",
        StepResult::Crash(_) => "crash",
        StepResult::Refused(_) if fired && mode == "error" => "ioerr",
        StepResult::Refused(_) => "fail",
        StepResult::Panic(_) => "panic",
    };
    // an injected error in the best-effort clean-up is swallowed
    let wres = if wres == "ok" && fired { "ioerr-ignored" } else { wres };
    line["wres"] = json!(wres);
    if matches!(res, StepResult::Crash(_)) {
        run.restart()?;
    }
    Ok(res)
}

fn abstract_op(run: &mut Run, label: &str) -> Value {
    let rest = label.strip_prefix("fs:").unwrap_or(label);
    let (op, path) = rest.split_once(':').unwrap_or((rest, ""));
    let repo = run.dir.join("repo");
    let rrdp = repo.join("rrdp");
    let rsync = repo.join("rsync");
    let p = Path::new(path);
    if let Ok(rel) = p.strip_prefix(&rrdp) {
        let parts: Vec<String> = rel.iter().map(|s| {
            s.to_string_lossy().to_string()
        }).collect();
        let serial = |i: usize| -> Value {
            parts.get(i).and_then(|s| s.parse::<u64>().ok()).map(|n| {
                json!(n)
            }).unwrap_or(json!(-1))
        };
        return match (op, parts.len()) {
            ("create_file", 1) if parts[0] == "new-notification.xml" => {
                json!(["newnotif"])
            }
            ("rename_notification", _) => json!(["rename"]),
            ("create_file", 4) if parts[3] == "delta.xml" => {
                json!(["delta", run.session_index(&parts[0]), serial(1)])
            }
            ("create_file", 4) if parts[3] == "snapshot.xml" => {
                json!(["snap", run.session_index(&parts[0]), serial(1)])
            }
            ("rm_old_session", 1) => {
                json!(["rmsession", run.session_index(&parts[0])])
            }
            ("rm_old_serial", 2) => json!(["rmserial", serial(1)]),
            ("rm_old_snapshot", 2) => json!(["rmsnap", serial(1)]),
            ("archive_serial", 2) => json!(["archive", serial(1)]),
            _ => json!(["?", label]),
        }
    }
    if let Ok(rel) = p.strip_prefix(&rsync) {
        let parts: Vec<String> = rel.iter().map(|s| {
            s.to_string_lossy().to_string()
        }).collect();
        let tmp = |s: &str| -> Value {
            s.strip_prefix("tmp-").and_then(|n| n.parse::<u64>().ok())
                .map(|n| json!(n)).unwrap_or(json!(-1))
        };
        return match op {
            "rsync_create_tmp" if parts.len() == 1 => {
                json!(["tmp", tmp(&parts[0])])
            }
            "rsync_remove_tmp" if parts.len() == 1 => {
                json!(["rmtmp", tmp(&parts[0])])
            }
            "create_file" if parts.len() >= 2 => {
                json!(["tmpfile", tmp(&parts[0]), parts[1..].to_vec()])
            }
            "rsync_current_to_old" => json!(["cur2old"]),
            "rsync_new_to_current" => json!(["new2cur", tmp(&parts[0])]),
            "rsync_remove_old" => json!(["rmold"]),
            _ => json!(["?", label]),
        }
    }
    json!(["?", label])
}

//------------ requests ------------------------------------------------------

fn build_delta(
    elems: &Value, cases: &[String], fixed: Option<&Value>, rng: &mut Rng,
) -> Result<(PublishDelta, Vec<String>), String> {
    let mut delta = PublishDelta::empty();
    let mut variants = Vec::new();
    let elems = elems.as_array().cloned().unwrap_or_default();
    for (i, e) in elems.iter().enumerate() {
        let variant = match fixed.and_then(|f| f.get(i)).and_then(|v| {
            v.as_str()
        }) {
            Some(v) => v.to_string(),
            None => cases[(rng.next() % cases.len() as u64) as usize].clone(),
        };
        let uri = concrete_uri(&e["u"], &variant)?;
        variants.push(variant);
        let content = || Base64::from_content(&content_bytes(str_arg(e, "c")));
        let hash = || Hash::from_data(&content_bytes(str_arg(e, "h")));
        match str_arg(e, "k") {
            "P" => delta.add_publish(Publish::new(None, uri, content())),
            "U" => delta.add_update(Update::new(None, uri, content(), hash())),
            "W" => delta.add_withdraw(Withdraw::new(None, uri, hash())),
            k => return Err(format!("unknown element kind {k}")),
        }
    }
    Ok((delta, variants))
}

/// Sends a publication protocol query as the publisher.
///
/// Signed mode: an RFC 8181 CMS signed with the publisher's identity key
/// through RepositoryManager::rfc8181 (the path of the HTTP end point);
/// otherwise RepositoryManager::rfc8181_message with the access check of
/// the signed path replicated (the publisher must be known).
///
/// Returns the list reply for list queries.
fn request(
    run: &mut Run, handle: &PublisherHandle, msg: publication::Message,
) -> StepResult<Option<Value>> {
    let signed = run.signed;
    let key = match run.ident(handle.as_str()) {
        Ok(id) => id.key,
        Err(e) => return StepResult::Refused(e),
    };
    let e = run.env();
    let reply = guarded(|| -> Result<publication::Message, String> {
        let repo = e.krill.repo_manager();
        if signed {
            let cms = e.krill.signer().create_rfc8181_cms(msg, &key)
                .map_err(|e| format!("harness: cannot sign: {e}"))?;
            let bytes = repo.rfc8181(
                handle.clone(), cms.to_bytes(), &e.krill
            ).map_err(|e| e.to_string())?;
            let cms = publication::PublicationCms::decode(&bytes)
                .map_err(|e| format!("reply does not decode: {e}"))?;
            Ok(cms.into_message())
        }
        else {
            repo.get_publisher_details(handle.clone())
                .map_err(|e| e.to_string())?;
            let query = msg.as_query().map_err(|e| e.to_string())?;
            repo.rfc8181_message(handle, query, &e.krill)
                .map_err(|e| e.to_string())
        }
    });
    match step(reply) {
        StepResult::Ok(msg) => match msg.as_reply() {
            Ok(publication::Reply::Success) => StepResult::Ok(None),
            Ok(publication::Reply::List(list)) => {
                StepResult::Ok(Some(list_value(list.elements().iter().map(
                    |el| (el.uri().to_string(), hash_name(el.hash()))
                ))))
            }
            Ok(publication::Reply::ErrorReply(err)) => {
                StepResult::Refused(format!("error reply: {err:?}"))
            }
            Err(e) => StepResult::Refused(format!("not a reply: {e}")),
        },
        StepResult::Refused(s) => StepResult::Refused(s),
        StepResult::Panic(s) => StepResult::Panic(s),
        StepResult::Crash(s) => StepResult::Crash(s),
    }
}

fn list_value(items: impl Iterator<Item = (String, String)>) -> Value {
    let mut v: Vec<(Value, String, String)> = items.map(|(uri, c)| {
        (abstract_uri(&uri), c, uri)
    }).collect();
    v.sort_by(|a, b| {
        (a.0.to_string(), &a.1, &a.2).cmp(&(b.0.to_string(), &b.1, &b.2))
    });
    Value::Array(v.into_iter().map(|(u, c, _)| json!([u, c])).collect())
}

//------------ projection ----------------------------------------------------

fn finish_line(
    run: &mut Run, line: &mut Value, res: StepResult, handles: &[Value],
) {
    let (ok, detail) = match res {
        StepResult::Ok(()) => (true, "ok".to_string()),
        StepResult::Refused(s) => (false, format!("refused: {s}")),
        StepResult::Panic(s) => (false, format!("panic: {s}")),
        StepResult::Crash(s) => (false, format!("crash: {s}")),
    };
    line["ok"] = json!(ok);
    line["res"] = json!(detail.chars().take(300).collect::<String>());
    line["panic"] = json!(detail.starts_with("panic"));
    if line.get("listed").is_none() {
        line["listed"] = json!([]);
    }
    // list replies and details of every publisher
    let mut lists = Vec::new();
    let mut raw = Vec::new();
    for p in handles {
        let Ok(h) = handle_of(p) else { continue };
        let e = run.env();
        let repo = e.krill.repo_manager();
        let list = guarded(|| repo.list(&h));
        let objs = match list {
            Outcome::Ok(Ok(reply)) => {
                for el in reply.elements() {
                    raw.push(json!(el.uri().to_string()));
                }
                list_value(reply.elements().iter().map(|el| {
                    (el.uri().to_string(), hash_name(el.hash()))
                }))
            }
            Outcome::Ok(Err(e)) => json!([[["!", e.to_string()], "?"]]),
            _ => json!([[["!", "panic"], "?"]]),
        };
        // get_publisher_details: only for registered publishers
        let details = match guarded(|| repo.get_publisher_details(h.clone())) {
            Outcome::Ok(Ok(d)) => {
                let jail_ok = d.base_uri.as_str()
                    == format!("{}{}/", BASE, h.as_str());
                json!({
                    "known": true,
                    "jail_ok": jail_ok,
                    "files": list_value(d.current_files.iter().map(|f| {
                        (f.uri.to_string(),
                         content_name(&f.base64.to_bytes()))
                    })),
                })
            }
            Outcome::Ok(Err(_)) => json!({"known": false}),
            _ => json!({"known": false, "panic": true}),
        };
        lists.push(json!({"p": p, "objs": objs, "details": details}));
    }
    line["lists"] = json!(lists);
    line["raw_uris"] = json!(raw);
    // repo_stats
    let stats = {
        let e = run.env();
        match guarded(|| e.krill.repo_manager().repo_stats()) {
            Outcome::Ok(Ok(s)) => Some((s.session.to_string(), s.serial)),
            _ => None,
        }
    };
    line["stats"] = match stats {
        Some((uuid, serial)) => {
            json!({
                "known": true, "session": run.session_index(&uuid),
                "serial": serial
            })
        }
        None => json!({"known": false, "session": 0, "serial": 0}),
    };
    line["disk"] = project_disk(run);
}

fn sha256_hex(data: &[u8]) -> String {
    Hash::from_data(data).to_string()
}

/// Splits an RRDP file URI into (session uuid, serial, random, name).
fn split_rrdp_uri(uri: &str) -> Option<(String, u64, String, String)> {
    let rest = uri.strip_prefix(RRDP_BASE)?;
    let parts: Vec<&str> = rest.split('/').collect();
    if parts.len() != 4 {
        return None
    }
    Some((
        parts[0].into(), parts[1].parse().ok()?, parts[2].into(),
        parts[3].into(),
    ))
}

fn project_disk(run: &mut Run) -> Value {
    let repo = run.dir.join("repo");
    let rrdp = repo.join("rrdp");
    let rsync = repo.join("rsync");
    let mut extra: Vec<String> = Vec::new();

    // --- RRDP files: <session>/<serial>/<random>/{snapshot,delta}.xml
    let mut files = Vec::new();
    let mut session_dirs = Vec::new();
    let mut paths: HashMap<String, (String, Value)> = HashMap::new();
    for entry in read_dir_sorted(&rrdp) {
        let name = entry.file_name().unwrap().to_string_lossy().to_string();
        if name == "notification.xml" || name == "new-notification.xml" {
            continue
        }
        if !entry.is_dir() || uuid::Uuid::parse_str(&name).is_err() {
            extra.push(format!("rrdp/{name}"));
            continue
        }
        let sidx = run.session_index(&name);
        session_dirs.push(json!(sidx));
        for sdir in read_dir_sorted(&entry) {
            let sname = sdir.file_name().unwrap().to_string_lossy()
                .to_string();
            let Ok(serial) = sname.parse::<u64>() else {
                extra.push(format!("rrdp/{name}/{sname}"));
                continue
            };
            for rdir in read_dir_sorted(&sdir) {
                for f in read_dir_sorted(&rdir) {
                    let fname = f.file_name().unwrap().to_string_lossy()
                        .to_string();
                    let rel = f.strip_prefix(&rrdp).unwrap().to_string_lossy()
                        .to_string();
                    let data = fs::read(&f).unwrap_or_default();
                    let h = sha256_hex(&data);
                    let file = match fname.as_str() {
                        "snapshot.xml" => {
                            project_snapshot(run, sidx, serial, &h, &data)
                        }
                        "delta.xml" => {
                            project_delta(run, sidx, serial, &h, &data)
                        }
                        _ => {
                            extra.push(format!("rrdp/{rel}"));
                            continue
                        }
                    };
                    paths.insert(rel, (h, file.clone()));
                    files.push(file);
                }
            }
        }
    }

    // --- notification.xml
    let notif_path = rrdp.join("notification.xml");
    let no_ref = json!({
        "s": 0, "n": 0, "k": "?", "h": "", "exists": false, "hashok": false,
    });
    let notif = if !notif_path.exists() {
        json!({"state": "none", "s": 0, "n": 0, "snap": no_ref, "deltas": []})
    }
    else {
        let data = fs::read(&notif_path).unwrap_or_default();
        match rpki::rrdp::NotificationFile::parse(data.as_slice()) {
            Ok(n) if n.delta_status().is_ok() => {
                let refer = |run: &mut Run, uri: &str, hash: Hash| {
                    match split_rrdp_uri(uri) {
                        Some((s, n, r, name)) => {
                            let rel = format!("{s}/{n}/{r}/{name}");
                            let found = paths.get(&rel);
                            json!({
                                "s": run.session_index(&s), "n": n,
                                "k": if name == "snapshot.xml" { "snap" }
                                     else if name == "delta.xml" { "delta" }
                                     else { "?" },
                                "h": hash.to_string(),
                                "exists": found.is_some(),
                                // the hash stated in the notification is
                                // the hash of the file on disk
                                "hashok": found.map(|f| {
                                    f.0 == hash.to_string()
                                }).unwrap_or(false),
                            })
                        }
                        None => json!({
                            "s": 0, "n": 0, "k": "?", "h": hash.to_string(),
                            "exists": false, "hashok": false,
                        }),
                    }
                };
                let snap = refer(
                    run, n.snapshot().uri().as_str(), n.snapshot().hash()
                );
                let mut deltas = Vec::new();
                for d in n.deltas() {
                    let mut r = refer(run, d.uri().as_str(), d.hash());
                    r["dn"] = json!(d.serial());
                    deltas.push(r);
                }
                // newest first (the order in the file carries no meaning)
                deltas.sort_by_key(|d| {
                    std::cmp::Reverse(d["dn"].as_u64().unwrap_or(0))
                });
                json!({
                    "state": "ok",
                    "s": run.session_index(&n.session_id().to_string()),
                    "n": n.serial(), "snap": snap, "deltas": deltas,
                })
            }
            _ => json!({
                "state": "corrupt", "s": 0, "n": 0, "snap": no_ref,
                "deltas": [],
            }),
        }
    };

    // --- rsync
    let tree = |dir: &Path| -> Value {
        if !dir.is_dir() {
            return json!({"exists": false, "objs": []})
        }
        let mut objs = Vec::new();
        walk(dir, dir, &mut objs);
        objs.sort_by_key(|o| o.to_string());
        json!({"exists": true, "objs": objs})
    };
    let mut tmps = Vec::new();
    for entry in read_dir_sorted(&rsync) {
        let name = entry.file_name().unwrap().to_string_lossy().to_string();
        match name.as_str() {
            "current" | "old" => { }
            n if n.starts_with("tmp-") => {
                let serial = n[4..].parse::<i64>().unwrap_or(-1);
                tmps.push(json!({"n": serial, "objs": tree(&entry)["objs"]}));
            }
            _ => extra.push(format!("rsync/{name}")),
        }
    }

    json!({
        "notif": notif,
        "newnotif": rrdp.join("new-notification.xml").exists(),
        "sessions": session_dirs,
        "files": files,
        "rs": {
            "cur": tree(&rsync.join("current")),
            "old": tree(&rsync.join("old")),
            "tmp": tmps,
        },
        "extra": extra,
    })
}

fn walk(root: &Path, dir: &Path, out: &mut Vec<Value>) {
    for entry in read_dir_sorted(dir) {
        if entry.is_dir() {
            walk(root, &entry, out);
        }
        else {
            let rel: Vec<String> = entry.strip_prefix(root).unwrap().iter()
                .map(|s| s.to_string_lossy().to_string()).collect();
            let data = fs::read(&entry).unwrap_or_default();
            out.push(json!([rel, content_name(&data)]));
        }
    }
}

fn read_dir_sorted(dir: &Path) -> Vec<PathBuf> {
    let mut res: Vec<PathBuf> = match fs::read_dir(dir) {
        Ok(rd) => rd.filter_map(|e| e.ok().map(|e| e.path())).collect(),
        Err(_) => Vec::new(),
    };
    res.sort();
    res
}

fn project_snapshot(
    run: &mut Run, sidx: usize, serial: u64, h: &str, data: &[u8],
) -> Value {
    match rpki::rrdp::Snapshot::parse(data) {
        Ok(snap) => {
            let body = list_value(snap.elements().iter().map(|el| {
                (el.uri().to_string(), content_name(el.data()))
            }));
            let n = snap.elements().len();
            let distinct = body.as_array().map(|a| {
                let mut u: Vec<String> = a.iter().map(|x| {
                    x[0].to_string()
                }).collect();
                u.sort();
                u.dedup();
                u.len()
            }).unwrap_or(0);
            json!({
                "s": sidx, "n": serial, "k": "snap", "h": h,
                "xs": run.session_index(&snap.session_id().to_string()),
                "xn": snap.serial(),
                "body": body, "dup": distinct != n,
            })
        }
        Err(_) => json!({
            "s": sidx, "n": serial, "k": "snap", "h": h, "xs": 0, "xn": 0,
            "body": [[["!", "unparsable"], "?"]], "dup": false,
        }),
    }
}

fn project_delta(
    run: &mut Run, sidx: usize, serial: u64, h: &str, data: &[u8],
) -> Value {
    match rpki::rrdp::Delta::parse(data) {
        Ok(delta) => {
            let mut body = Vec::new();
            for el in delta.elements() {
                use rpki::rrdp::DeltaElement as E;
                body.push(match el {
                    E::Publish(p) => json!({
                        "k": "P", "u": abstract_uri(p.uri().as_str()),
                        "c": content_name(p.data()), "h": "-",
                    }),
                    E::Update(u) => json!({
                        "k": "U", "u": abstract_uri(u.uri().as_str()),
                        "c": content_name(u.data()),
                        "h": hash_name(u.hash()),
                    }),
                    E::Withdraw(w) => json!({
                        "k": "W", "u": abstract_uri(w.uri().as_str()),
                        "c": "-", "h": hash_name(w.hash()),
                    }),
                });
            }
            body.sort_by_key(|b| b.to_string());
            let n = body.len();
            let mut uris: Vec<String> = body.iter().map(|b| {
                b["u"].to_string()
            }).collect();
            uris.sort();
            uris.dedup();
            json!({
                "s": sidx, "n": serial, "k": "delta", "h": h,
                "xs": run.session_index(&delta.session_id().to_string()),
                "xn": delta.serial(),
                "body": body, "dup": uris.len() != n,
            })
        }
        Err(_) => json!({
            "s": sidx, "n": serial, "k": "delta", "h": h, "xs": 0, "xn": 0,
            "body": [{"k": "?", "u": ["!"], "c": "?", "h": "?"}],
            "dup": false,
        }),
    }
}
