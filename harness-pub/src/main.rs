//! kv-pub: conformance harness for the publication server (C10, C11).
//! See /verif/DESIGN.md and src/pubd.rs.
#![allow(dead_code)]

#[path = "../../harness/src/common.rs"]
mod common;
mod pubd;

use std::path::PathBuf;

fn arg(args: &[String], name: &str) -> Option<String> {
    args.iter().position(|a| a == name).and_then(|i| args.get(i + 1)).cloned()
}

fn flag(args: &[String], name: &str) -> bool {
    args.iter().any(|a| a == name)
}

fn main() {
    common::install_panic_hook();
    let args: Vec<String> = std::env::args().collect();
    match args.get(1).map(|s| s.as_str()).unwrap_or("") {
        "run-pub" => {
            let inp = arg(&args, "--in").map(PathBuf::from).unwrap();
            let out = arg(&args, "--out").map(PathBuf::from).unwrap();
            let work = arg(&args, "--work").map(PathBuf::from).unwrap();
            pubd::run(&inp, &out, &work, !flag(&args, "--unsigned"));
        }
        _ => {
            eprintln!("usage: kv-pub run-pub --in <behaviours.ndjson> --out <trace.ndjson> --work <dir> [--unsigned]");
            std::process::exit(2);
        }
    }
}
