//! The real HTTP front end (krill::daemon::http::server::HttpServer: the
//! authentication, the dispatcher, the thread pool behind KrillManager)
//! on a Unix socket, started without the scheduler so that nothing but
//! the requests of the harness changes the state.
//!
//! This mirrors what krill::daemon::start::start_krill_daemon does between
//! StartupManager::new and the listener loops, minus run_scheduler().

use std::path::{Path, PathBuf};
use std::sync::Arc;
use hyper_util::rt::{TokioExecutor, TokioIo};
use hyper_util::server::conn;
use krill::commons::storage::StorageSystem;
use krill::config::Config;
use krill::daemon::http::server::HttpServer;
use krill::server::manager::StartupManager;
use krill::server::runtime::ThreadPool;
use tokio::sync::watch;
use crate::common::tokio_runtime;

pub struct MiniServer {
    pub sock: PathBuf,
    exit: watch::Sender<bool>,
    server: Option<Arc<HttpServer>>,
    pool: Option<ThreadPool>,
}

impl MiniServer {
    pub fn start(dir: &Path, config: Config) -> Result<Self, String> {
        let tokio = tokio_runtime();
        let storage = StorageSystem::new(config.storage_uri.clone());
        let startup = StartupManager::new(
            config, storage, tokio.handle().clone()
        ).map_err(|e| format!("startup manager: {e}"))?;
        let (krill, pool) = startup.promote().map_err(|e| {
            format!("promote: {e}")
        })?;
        let server = HttpServer::new(krill, tokio.handle()).map_err(|e| {
            format!("http server: {e}")
        })?;
        let sock = dir.join("fuzz.sock");
        let _ = std::fs::remove_file(&sock);
        let listener = std::os::unix::net::UnixListener::bind(&sock)
            .map_err(|e| format!("bind {}: {e}", sock.display()))?;
        listener.set_nonblocking(true).map_err(|e| e.to_string())?;
        let (exit_tx, mut exit_rx) = watch::channel(false);
        let weak = Arc::downgrade(&server);
        tokio.spawn(async move {
            let listener = match tokio::net::UnixListener::from_std(listener)
            {
                Ok(l) => l,
                Err(_) => return,
            };
            let builder = conn::auto::Builder::new(TokioExecutor::new());
            loop {
                tokio::select! {
                    conn = listener.accept() => {
                        let Ok((stream, _)) = conn else { continue };
                        let server = weak.clone();
                        let builder = builder.clone();
                        tokio::spawn(async move {
                            let conn = builder
                                .serve_connection_with_upgrades(
                                    TokioIo::new(stream),
                                    hyper::service::service_fn(move |req| {
                                        HttpServer::process_request(
                                            server.clone(), req
                                        )
                                    })
                                );
                            let _ = conn.await;
                        });
                    }
                    res = exit_rx.changed() => {
                        if res.is_err() || *exit_rx.borrow() {
                            break
                        }
                    }
                }
            }
        });
        Ok(MiniServer {
            sock, exit: exit_tx, server: Some(server), pool: Some(pool),
        })
    }
}

impl Drop for MiniServer {
    fn drop(&mut self) {
        let _ = self.exit.send(true);
        self.server.take();
        if let Some(pool) = self.pool.take() {
            // worker threads that panicked are joined as well
            let _ = std::thread::spawn(move || pool.terminate()).join();
        }
        let _ = std::fs::remove_file(&self.sock);
    }
}
