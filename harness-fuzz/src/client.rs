//! A minimal HTTP/1.1 client over a Unix socket or TLS over TCP.
//! (Copy of harness-http/src/client.rs; the only change: an answer the
//! server gave before the whole body was written is still read.)
//!
//! Deliberately dumb: it sends exactly the bytes it is given as header
//! values (the C20 cases need damaged `Authorization` values) and keeps one
//! connection open.

use std::io::{Read, Write};
use std::net::TcpStream;
use std::os::unix::net::UnixStream;
use std::path::PathBuf;
use std::time::Duration;
use openssl::ssl::{SslConnector, SslMethod, SslStream, SslVerifyMode};

#[derive(Clone, Debug)]
pub enum Target {
    Unix(PathBuf),
    Tls(u16),
}

enum Conn {
    Unix(UnixStream),
    Tls(Box<SslStream<TcpStream>>),
}

impl Read for Conn {
    fn read(&mut self, buf: &mut [u8]) -> std::io::Result<usize> {
        match self {
            Conn::Unix(s) => s.read(buf),
            Conn::Tls(s) => s.read(buf),
        }
    }
}

impl Write for Conn {
    fn write(&mut self, buf: &[u8]) -> std::io::Result<usize> {
        match self {
            Conn::Unix(s) => s.write(buf),
            Conn::Tls(s) => s.write(buf),
        }
    }
    fn flush(&mut self) -> std::io::Result<()> {
        match self {
            Conn::Unix(s) => s.flush(),
            Conn::Tls(s) => s.flush(),
        }
    }
}

#[derive(Clone, Debug, Default)]
pub struct Resp {
    pub status: u16,
    pub headers: Vec<(String, String)>,
    pub body: Vec<u8>,
}

impl Resp {
    pub fn header(&self, name: &str) -> Option<&str> {
        self.headers.iter().find(|(k, _)| k.eq_ignore_ascii_case(name))
            .map(|(_, v)| v.as_str())
    }

    pub fn json(&self) -> Option<serde_json::Value> {
        serde_json::from_slice(&self.body).ok()
    }

    pub fn text(&self) -> String {
        String::from_utf8_lossy(&self.body).into_owned()
    }
}

pub struct Client {
    target: Target,
    conn: Option<Conn>,
    pub requests: usize,
    pub connects: usize,
}

impl Client {
    pub fn new(target: Target) -> Self {
        Client { target, conn: None, requests: 0, connects: 0 }
    }

    pub fn is_unix(&self) -> bool {
        matches!(self.target, Target::Unix(_))
    }

    fn connect(&mut self) -> Result<(), String> {
        let timeout = Some(Duration::from_secs(60));
        let mut last = String::new();
        // The listener may not be accepting yet right after start-up.
        for _ in 0..1800 {
            let res = match &self.target {
                Target::Unix(path) => {
                    UnixStream::connect(path).map_err(|e| e.to_string())
                        .map(|s| {
                            let _ = s.set_read_timeout(timeout);
                            let _ = s.set_write_timeout(timeout);
                            Conn::Unix(s)
                        })
                }
                Target::Tls(port) => {
                    TcpStream::connect(("127.0.0.1", *port))
                        .map_err(|e| e.to_string())
                        .and_then(|s| {
                            let _ = s.set_read_timeout(timeout);
                            let _ = s.set_write_timeout(timeout);
                            let _ = s.set_nodelay(true);
                            let mut b = SslConnector::builder(
                                SslMethod::tls()
                            ).map_err(|e| e.to_string())?;
                            // self-signed certificate of the test daemon
                            b.set_verify(SslVerifyMode::NONE);
                            let c = b.build();
                            let mut cfg = c.configure()
                                .map_err(|e| e.to_string())?;
                            cfg.set_verify_hostname(false);
                            cfg.connect("localhost", s)
                                .map_err(|e| e.to_string())
                                .map(|s| Conn::Tls(Box::new(s)))
                        })
                }
            };
            match res {
                Ok(conn) => {
                    self.conn = Some(conn);
                    self.connects += 1;
                    return Ok(())
                }
                Err(err) => {
                    last = err;
                    std::thread::sleep(Duration::from_millis(50));
                }
            }
        }
        Err(format!("cannot connect to {:?}: {last}", self.target))
    }

    /// Sends a request; header values are raw bytes.
    pub fn request(
        &mut self, method: &str, path: &str,
        headers: &[(&str, Vec<u8>)], body: Option<&[u8]>,
    ) -> Result<Resp, String> {
        self.requests += 1;
        let mut msg = Vec::new();
        msg.extend_from_slice(
            format!("{method} {path} HTTP/1.1\r\nHost: localhost\r\n")
                .as_bytes()
        );
        for (k, v) in headers {
            msg.extend_from_slice(k.as_bytes());
            msg.extend_from_slice(b": ");
            msg.extend_from_slice(v);
            msg.extend_from_slice(b"\r\n");
        }
        match body {
            Some(b) => {
                msg.extend_from_slice(
                    format!("Content-Length: {}\r\n", b.len()).as_bytes()
                );
            }
            None => {
                if method != "GET" {
                    msg.extend_from_slice(b"Content-Length: 0\r\n");
                }
            }
        }
        msg.extend_from_slice(b"\r\n");
        if let Some(b) = body {
            msg.extend_from_slice(b);
        }

        // One retry on a stale kept-alive connection, only if nothing of
        // the response was read.
        for attempt in 0..2 {
            let fresh = self.conn.is_none();
            if fresh {
                self.connect()?;
            }
            let conn = self.conn.as_mut().unwrap();
            let sent = conn.write_all(&msg).and_then(|_| conn.flush());
            if let Err(err) = sent {
                // The server may have answered (413, 400) and closed while
                // the body was still being written: take that answer.
                let early = Self::read_response(conn);
                self.conn = None;
                if let Ok(resp) = early {
                    return Ok(resp)
                }
                if fresh || attempt == 1 {
                    return Err(format!("write failed: {err}"))
                }
                continue
            }
            match Self::read_response(conn) {
                Ok(resp) => {
                    let close = resp.header("connection")
                        .map(|v| v.eq_ignore_ascii_case("close"))
                        .unwrap_or(false);
                    if close {
                        self.conn = None;
                    }
                    return Ok(resp)
                }
                Err((nothing_read, err)) => {
                    self.conn = None;
                    if nothing_read && !fresh && attempt == 0 {
                        continue
                    }
                    return Err(format!("read failed: {err}"))
                }
            }
        }
        Err("request failed".into())
    }

    fn read_response(conn: &mut Conn) -> Result<Resp, (bool, String)> {
        let mut buf: Vec<u8> = Vec::new();
        let mut tmp = [0u8; 8192];
        let head_end;
        loop {
            if let Some(pos) = find(&buf, b"\r\n\r\n") {
                head_end = pos;
                break
            }
            let n = conn.read(&mut tmp).map_err(|e| {
                (buf.is_empty(), e.to_string())
            })?;
            if n == 0 {
                return Err((buf.is_empty(), "eof in head".into()))
            }
            buf.extend_from_slice(&tmp[..n]);
        }
        let head = String::from_utf8_lossy(&buf[..head_end]).into_owned();
        let mut rest = buf[head_end + 4..].to_vec();
        let mut lines = head.split("\r\n");
        let status_line = lines.next().unwrap_or("");
        let status = status_line.split(' ').nth(1)
            .and_then(|s| s.parse::<u16>().ok())
            .ok_or((false, format!("bad status line {status_line:?}")))?;
        let mut headers = Vec::new();
        for line in lines {
            if let Some((k, v)) = line.split_once(':') {
                headers.push((k.trim().to_string(), v.trim().to_string()));
            }
        }
        let mut resp = Resp { status, headers, body: Vec::new() };
        let chunked = resp.header("transfer-encoding")
            .map(|v| v.to_ascii_lowercase().contains("chunked"))
            .unwrap_or(false);
        let length = resp.header("content-length")
            .and_then(|v| v.parse::<usize>().ok());
        let mut more = |rest: &mut Vec<u8>| -> Result<(), (bool, String)> {
            let n = conn.read(&mut tmp).map_err(|e| (false, e.to_string()))?;
            if n == 0 {
                return Err((false, "eof in body".into()))
            }
            rest.extend_from_slice(&tmp[..n]);
            Ok(())
        };
        if chunked {
            let mut body = Vec::new();
            loop {
                let pos = loop {
                    if let Some(pos) = find(&rest, b"\r\n") {
                        break pos
                    }
                    more(&mut rest)?;
                };
                let size_str = String::from_utf8_lossy(&rest[..pos])
                    .into_owned();
                let size = usize::from_str_radix(
                    size_str.split(';').next().unwrap_or("").trim(), 16
                ).map_err(|_| (false, "bad chunk size".to_string()))?;
                rest.drain(..pos + 2);
                while rest.len() < size + 2 {
                    more(&mut rest)?;
                }
                body.extend_from_slice(&rest[..size]);
                rest.drain(..size + 2);
                if size == 0 {
                    break
                }
            }
            resp.body = body;
        }
        else if let Some(len) = length {
            while rest.len() < len {
                more(&mut rest)?;
            }
            rest.truncate(len);
            resp.body = rest;
        }
        else if status == 204 || status == 304 || status / 100 == 1 {
            // no body
        }
        else {
            // read to end of stream
            loop {
                match conn.read(&mut tmp) {
                    Ok(0) | Err(_) => break,
                    Ok(n) => rest.extend_from_slice(&tmp[..n]),
                }
            }
            resp.body = rest;
            resp.headers.push(("connection".into(), "close".into()));
        }
        Ok(resp)
    }
}

fn find(hay: &[u8], needle: &[u8]) -> Option<usize> {
    hay.windows(needle.len()).position(|w| w == needle)
}
