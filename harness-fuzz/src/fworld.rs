//! The server under test in one of the contexts of Malformed.tla, and the
//! client side identities the harness signs with.

use std::path::{Path, PathBuf};
use std::str::FromStr;
use bytes::Bytes;
use krill::api::admin::AddChildRequest;
use rpki::ca::idcert::IdCert;
use rpki::ca::idexchange::{
    CaHandle, ChildHandle, PublisherHandle, PublisherRequest, RepoInfo,
};
use rpki::ca::provisioning::{
    self, IssuanceRequest, RequestResourceLimit, ResourceClassName,
};
use rpki::ca::publication::Base64;
use rpki::crypto::KeyIdentifier;
use rpki::uri;
use serde_json::{json, Value};
use crate::aworld;
use crate::common::*;

pub const CA: &str = "ca";
pub const CHILD: &str = "child";
pub const PUBLISHER: &str = "pub";
pub const NOBODY: &str = "nobody";

pub const CA_ASN: &str = "AS64496-AS64511";
pub const CA_V4: &str = "10.0.0.0/8, 192.168.0.0/16";
pub const CA_V6: &str = "2001:db8::/32";
pub const CHILD_ASN: &str = "AS64500";
pub const CHILD_V4: &str = "10.1.0.0/16";
pub const CHILD_V6: &str = "2001:db8:1::/48";


//------------ Ctx -----------------------------------------------------------

#[derive(Clone, Copy, Debug, PartialEq, Eq)]
pub struct Ctx {
    pub repo: bool,
    pub ca: bool,
    pub child: bool,
    pub publ: bool,
}

impl Ctx {
    pub const FULL: Ctx = Ctx {
        repo: true, ca: true, child: true, publ: true
    };

    pub fn from_json(v: &Value) -> Self {
        let b = |k: &str| v.get(k).and_then(|x| x.as_bool()).unwrap_or(false);
        Ctx { repo: b("repo"), ca: b("ca"), child: b("child"), publ: b("pub") }
    }

    pub fn to_json(self) -> Value {
        json!({
            "repo": self.repo, "ca": self.ca, "child": self.child,
            "pub": self.publ
        })
    }
}


//------------ Client --------------------------------------------------------

/// Identities held by the harness (one set per process).
pub struct Client {
    pub env: Env,
    pub child_cert: IdCert,
    pub child_ki: KeyIdentifier,
    pub pub_cert: IdCert,
    pub pub_ki: KeyIdentifier,
    pub stranger_cert: IdCert,
    pub stranger_ki: KeyIdentifier,
    /// the CA key of the child (certificate requests)
    pub child_ca_key: KeyIdentifier,
    pub spare_ca_key: KeyIdentifier,
}

impl Client {
    pub fn create(dir: &Path) -> Result<Self, String> {
        refill_keys(7);
        let env = Env::create(
            dir, EnvOpts { memory: true, ..Default::default() }
        )?;
        let signer = env.krill.signer();
        let mk = || -> Result<(IdCert, KeyIdentifier), String> {
            let cert = signer.create_self_signed_id_cert().map_err(|e| {
                format!("id cert: {e}")
            })?;
            let ki = cert.public_key().key_identifier();
            Ok((cert, ki))
        };
        let (child_cert, child_ki) = mk()?;
        let (pub_cert, pub_ki) = mk()?;
        let (stranger_cert, stranger_ki) = mk()?;
        let child_ca_key = signer.create_key().map_err(|e| e.to_string())?;
        let spare_ca_key = signer.create_key().map_err(|e| e.to_string())?;
        Ok(Client {
            env, child_cert, child_ki, pub_cert, pub_ki, stranger_cert,
            stranger_ki, child_ca_key, spare_ca_key,
        })
    }

    pub fn signer(&self) -> &krill::commons::crypto::KrillSigner {
        self.env.krill.signer()
    }

    /// Makes sure one-off keys can be taken from the pool.
    pub fn ensure_keys(&self, salt: usize) {
        if krill::verif::key_pool_len() < 8 {
            refill_keys(salt % 1400);
        }
    }

    pub fn cert_b64(cert: &IdCert) -> String {
        Base64::from_content(cert.to_bytes().as_ref()).to_string()
    }

    pub fn csr(&self, key: &KeyIdentifier, who: &str)
        -> Result<rpki::ca::csr::RpkiCaCsr, String>
    {
        let repo = RepoInfo::new(
            uri::Rsync::from_str(&format!(
                "{}{}/", aworld::RSYNC_BASE, who
            )).unwrap(),
            Some(uri::Https::from_str(&format!(
                "{}notification.xml", aworld::RRDP_BASE
            )).unwrap()),
        );
        self.signer().sign_csr(&repo, "0", key).map_err(|e| {
            format!("csr: {e}")
        })
    }

    /// A signed provisioning message from `sender` to CA `recipient`.
    pub fn cms_6492(
        &self, msg: provisioning::Message, key: &KeyIdentifier
    ) -> Result<Bytes, String> {
        self.signer().create_rfc6492_cms(msg, key)
            .map(|cms| cms.to_bytes())
            .map_err(|e| format!("sign 6492: {e}"))
    }

    pub fn cms_8181(
        &self, msg: rpki::ca::publication::Message, key: &KeyIdentifier
    ) -> Result<Bytes, String> {
        self.signer().create_rfc8181_cms(msg, key)
            .map(|cms| cms.to_bytes())
            .map_err(|e| format!("sign 8181: {e}"))
    }

    /// A validly signed protocol CMS around arbitrary content.
    pub fn cms_raw(
        &self, content: Vec<u8>, key: &KeyIdentifier
    ) -> Result<Bytes, String> {
        self.signer().create_ta_signed_message(
            Bytes::from(content), 1, key
        ).map(|m| m.to_captured().into_bytes())
            .map_err(|e| format!("sign raw: {e}"))
    }
}


//------------ World ---------------------------------------------------------

pub struct World {
    pub dir: PathBuf,
    pub ctx: Ctx,
    pub env: Env,
    /// name of the resource class the child is entitled in
    pub class_name: String,
}

impl World {
    pub fn create(
        dir: &Path, ctx: Ctx, client: &Client, key_offset: usize,
    ) -> Result<Self, String> {
        refill_keys(key_offset % 1400);
        let env = Env::create(dir, EnvOpts::default())?;
        let mut world = World {
            dir: dir.into(), ctx, env, class_name: "0".into(),
        };
        if ctx.repo {
            aworld::init_repo(&world.env)?;
        }
        if ctx.ca {
            aworld::init_embedded_ta(&world.env)?;
            aworld::import_ca(
                &world.env, &aworld::ca_handle(CA), &aworld::ca_handle("ta"),
                aworld::resources(CA_ASN, CA_V4, CA_V6),
            )?;
        }
        if ctx.child {
            world.add_child(client, CHILD)?;
        }
        if ctx.publ {
            let req = PublisherRequest::new(
                Base64::from_content(client.pub_cert.to_bytes().as_ref()),
                PublisherHandle::from_str(PUBLISHER).unwrap(), None,
            );
            let actor = aworld::actor(&world.env);
            world.env.krill.repo_manager().create_publisher(
                req, &actor
            ).map_err(|e| format!("create publisher: {e}"))?;
        }
        Ok(world)
    }

    /// Registers the harness' child identity under "ca" and has a
    /// certificate issued to its CA key.
    pub fn add_child(
        &mut self, client: &Client, name: &str
    ) -> Result<(), String> {
        let actor = aworld::actor(&self.env);
        let cam = self.env.krill.ca_manager();
        let ca = aworld::ca_handle(CA);
        let child = ChildHandle::from_str(name).unwrap();
        cam.ca_add_child(
            &ca,
            AddChildRequest {
                handle: child.clone(),
                resources: aworld::resources(CHILD_ASN, CHILD_V4, CHILD_V6),
                id_cert: client.child_cert.clone(),
            },
            &actor, &self.env.krill,
        ).map_err(|e| format!("add child: {e}"))?;
        let list = cam.get_ca(&ca).map_err(|e| e.to_string())?.list(
            &child, &self.env.krill.config().issuance_timing
        ).map_err(|e| format!("list: {e}"))?;
        let class = list.classes().first().ok_or(
            "no resource class for the child"
        )?.class_name().clone();
        self.class_name = class.to_string();
        let msg = provisioning::Message::issue(
            child.convert(), ca.convert(),
            IssuanceRequest::new(
                class, RequestResourceLimit::new(),
                client.csr(&client.child_ca_key, name)?,
            )
        );
        let bytes = client.cms_6492(msg, &client.child_ki)?;
        cam.rfc6492(
            &ca, bytes, None, &actor, &self.env.krill
        ).map_err(|e| format!("issue to child: {e}"))?;
        Ok(())
    }

    /// The operator removes the parent of "ca" and adds it again: the
    /// resource class of "ca" is dropped and a new one (under the next
    /// name) comes into being. The children of "ca" keep their records.
    pub fn renumber_class(&self) -> Result<(), String> {
        use krill::api::admin::ParentCaReq;
        let env = &self.env;
        let actor = aworld::actor(env);
        let cam = env.krill.ca_manager();
        let ca = aworld::ca_handle(CA);
        let ta = aworld::ca_handle("ta");
        cam.ca_parent_remove(
            ca.clone(), ta.convert(), &actor, &env.slow
        ).map_err(|e| format!("parent remove: {e}"))?;
        let response = cam.ca_parent_response(
            &ta, ca.convert(), env.krill.service_uri()
        ).map_err(|e| format!("parent response: {e}"))?;
        cam.ca_parent_add_or_update(
            ca.clone(), ParentCaReq { handle: ta.convert(), response },
            &actor, &env.krill,
        ).map_err(|e| format!("parent add: {e}"))?;
        for _ in 0..2 {
            aworld::sync_parent(env, &ca, &ta)?;
        }
        cam.sync_ta_proxy_signer_if_possible(&env.krill)
            .map_err(|e| format!("ta sync: {e}"))?;
        for _ in 0..2 {
            aworld::sync_parent(env, &ca, &ta)?;
        }
        Ok(())
    }

    /// The name of the resource class the child is entitled in right now.
    pub fn current_class(&self) -> Option<String> {
        let ca = self.env.krill.ca_manager().get_ca(
            &aworld::ca_handle(CA)
        ).ok()?;
        let list = ca.list(
            &ChildHandle::from_str(CHILD).unwrap(),
            &self.env.krill.config().issuance_timing,
        ).ok()?;
        list.classes().first().map(|c| c.class_name().to_string())
    }

    pub fn class(&self) -> ResourceClassName {
        ResourceClassName::from(self.class_name.as_str())
    }

    /// Whether the facts of the context (still) hold.
    pub fn facts(&self) -> Ctx {
        let krill = &self.env.krill;
        let repo = krill.repo_manager().is_initialized().unwrap_or(false);
        let ca_handle = aworld::ca_handle(CA);
        let ca = krill.ca_manager().get_ca(&ca_handle).ok();
        let child = ca.as_ref().map(|ca| {
            ca.get_child(&ChildHandle::from_str(CHILD).unwrap()).is_ok()
        }).unwrap_or(false);
        let publ = krill.repo_manager().get_publisher_details(
            PublisherHandle::from_str(PUBLISHER).unwrap()
        ).is_ok();
        Ctx { repo, ca: ca.is_some(), child, publ }
    }
}

pub fn handle_ca(name: &str) -> Option<CaHandle> {
    CaHandle::from_str(name).ok()
}
