//! Valid messages per endpoint: what the structured mutations start from.

use std::str::FromStr;
use bytes::Bytes;
use krill::api::admin::{
    AddChildRequest, ApiRepositoryContact, CertAuthInit, ParentCaReq,
    PublicationServerUris, RepoFileDeleteCriteria, UpdateChildRequest,
};
use krill::api::aspa::{
    AspaDefinition, AspaDefinitionUpdates, AspaProvidersUpdate,
};
use krill::api::bgpsec::{BgpSecDefinition, BgpSecDefinitionUpdates};
use rpki::ca::csr::BgpsecCsr;
use rpki::ca::idexchange::{
    ChildHandle, ParentHandle, PublisherHandle, PublisherRequest,
};
use rpki::ca::provisioning::{
    self, IssuanceRequest, RequestResourceLimit, ResourceClassName,
    RevocationRequest,
};
use rpki::ca::publication::{
    self, Base64, Publish, PublishDelta, Withdraw,
};
use rpki::repository::resources::Asn;
use rpki::uri;
use serde_json::{json, Value};
use crate::aworld;
use crate::fworld::{self, Client, World};
use crate::rng::Rng;

const ROUTER_CSR: &[u8]
    = include_bytes!("/repo/test-resources/bgpsec/router-csr.der");


//------------ Harvest -------------------------------------------------------

/// Values that can only be obtained from a server with a CA and a child.
#[derive(Clone)]
pub struct Harvest {
    pub import_child: Value,
    pub parent_response: Value,
    pub parent_response_xml: Vec<u8>,
    pub repo_response: Value,
    pub repo_response_xml: Vec<u8>,
    pub class_name: String,
}

impl Harvest {
    pub fn collect(world: &World) -> Result<Self, String> {
        let krill = &world.env.krill;
        let cam = krill.ca_manager();
        let ca = aworld::ca_handle(fworld::CA);
        let child = ChildHandle::from_str(fworld::CHILD).unwrap();
        let import = cam.ca_child_export(&ca, &child).map_err(|e| {
            format!("child export: {e}")
        })?;
        let parent_response = cam.ca_parent_response(
            &aworld::ca_handle("ta"), ca.convert(), krill.service_uri()
        ).map_err(|e| format!("parent response: {e}"))?;
        let repo_response = krill.repo_manager().repository_response(
            &ca.convert(), krill
        ).map_err(|e| format!("repository response: {e}"))?;
        Ok(Harvest {
            import_child: serde_json::to_value(&import).unwrap(),
            parent_response_xml: parent_response.to_xml_vec(),
            parent_response: serde_json::to_value(&parent_response).unwrap(),
            repo_response_xml: repo_response.to_xml_vec(),
            repo_response: serde_json::to_value(&repo_response).unwrap(),
            class_name: world.class_name.clone(),
        })
    }
}


//------------ routes --------------------------------------------------------

/// Method and path of an endpoint at the HTTP interface.
pub fn route(e: &str, ca: &str, sub: &str) -> (String, String) {
    let p = match e {
        "rfc6492" => format!("/rfc6492/{ca}"),
        "rfc8181" => format!("/rfc8181/{sub}"),
        "roa_update" => format!("/api/v1/cas/{ca}/routes"),
        "roa_try" => format!("/api/v1/cas/{ca}/routes/try"),
        "roa_dryrun" => format!("/api/v1/cas/{ca}/routes/analysis/dryrun"),
        "roa_suggest" => format!("/api/v1/cas/{ca}/routes/analysis/suggest"),
        "aspa_update" => format!("/api/v1/cas/{ca}/aspas"),
        "aspa_single" => format!("/api/v1/cas/{ca}/aspas/as/{sub}"),
        "bgpsec_update" => format!("/api/v1/cas/{ca}/bgpsec"),
        "child_add" => format!("/api/v1/cas/{ca}/children"),
        "child_update" => format!("/api/v1/cas/{ca}/children/{sub}"),
        "child_import" => format!("/api/v1/cas/{ca}/children/{sub}/import"),
        "parent_add" => format!("/api/v1/cas/{ca}/parents"),
        "repo_update" => format!("/api/v1/cas/{ca}/repo"),
        "ca_init" => "/api/v1/cas".to_string(),
        "pub_add" => "/api/v1/pubd/publishers".to_string(),
        "pubd_init" => "/api/v1/pubd/init".to_string(),
        "pubd_delete" => "/api/v1/pubd/delete".to_string(),
        "import" => "/api/v1/bulk/cas/import".to_string(),
        _ => String::new(),
    };
    ("POST".into(), p)
}


//------------ JSON seeds ----------------------------------------------------

fn roa(rng: &mut Rng) -> Value {
    // within the resources of "ca" (10/8, 192.168/16, 2001:db8::/32)
    let asn = 64496 + rng.below(16) as u32;
    match rng.below(4) {
        0 => json!({
            "asn": asn,
            "prefix": format!("10.{}.{}.0/24", rng.below(256), rng.below(256)),
        }),
        1 => json!({
            "asn": asn,
            "prefix": format!("10.{}.0.0/16", rng.below(256)),
            "max_length": 16 + rng.below(9),
            "comment": "seeded",
        }),
        2 => json!({
            "asn": asn,
            "prefix": format!("2001:db8:{:x}::/48", rng.below(65536)),
            "max_length": 48 + rng.below(17),
        }),
        _ => json!({
            "asn": asn,
            "prefix": format!("192.168.{}.0/24", rng.below(256)),
            "max_length": 24,
            "comment": null,
        }),
    }
}

fn roa_updates(rng: &mut Rng) -> Value {
    let added: Vec<Value> = (0..1 + rng.below(3)).map(|_| roa(rng)).collect();
    let removed: Vec<Value> = if rng.below(4) == 0 {
        vec![{
            let mut r = roa(rng);
            r.as_object_mut().unwrap().remove("comment");
            r
        }]
    } else { vec![] };
    json!({"added": added, "removed": removed})
}

fn resource_set(rng: &mut Rng) -> Value {
    match rng.below(3) {
        0 => json!({
            "asn": "AS64500", "ipv4": "10.1.0.0/16", "ipv6": "2001:db8:1::/48"
        }),
        1 => json!({
            "asn": "AS64501-AS64503",
            "ipv4": format!(
                "10.{}.0.0/16, 10.200.0.0-10.200.3.255", 2 + rng.below(100)
            ),
            "ipv6": ""
        }),
        _ => json!({
            "asn": "", "ipv4": "192.168.0.0/24",
            "ipv6": "2001:db8:2::/48, 2001:db8:3::-2001:db8:3:ffff:ffff:ffff:ffff:ffff"
        }),
    }
}

fn asn(rng: &mut Rng, base: u32) -> Asn {
    Asn::from_u32(base + rng.below(8) as u32)
}

/// A valid body for a JSON endpoint, or None if it is not a JSON endpoint.
pub fn json_seed(
    e: &str, rng: &mut Rng, client: &Client, harvest: &Harvest, ctx_ca: bool,
) -> Option<Value> {
    let fresh = format!("n{:08x}", rng.next() as u32);
    let v = match e {
        "roa_update" | "roa_try" | "roa_dryrun" => roa_updates(rng),
        "roa_suggest" => resource_set(rng),
        "aspa_update" => {
            let cust = asn(rng, 64496);
            let def = AspaDefinition {
                customer: cust,
                providers: vec![asn(rng, 65000), asn(rng, 65010)],
            };
            serde_json::to_value(AspaDefinitionUpdates {
                add_or_replace: vec![def],
                remove: if rng.below(4) == 0 {
                    vec![asn(rng, 64504)]
                } else { vec![] },
            }).unwrap()
        }
        "aspa_single" => {
            serde_json::to_value(AspaProvidersUpdate {
                added: vec![asn(rng, 65000)],
                removed: if rng.below(3) == 0 {
                    vec![asn(rng, 65010)]
                } else { vec![] },
            }).unwrap()
        }
        "bgpsec_update" => {
            let csr = BgpsecCsr::decode(ROUTER_CSR).ok()?;
            serde_json::to_value(BgpSecDefinitionUpdates {
                add: vec![BgpSecDefinition { asn: asn(rng, 64496), csr }],
                remove: vec![],
            }).unwrap()
        }
        "child_add" => {
            serde_json::to_value(AddChildRequest {
                handle: ChildHandle::from_str(&fresh).unwrap(),
                resources: aworld::resources(
                    "AS64510", &format!("10.{}.0.0/16", 100 + rng.below(100)),
                    ""
                ),
                id_cert: client.stranger_cert.clone(),
            }).unwrap()
        }
        "child_update" => {
            let req = match rng.below(5) {
                3 | 4 => {
                    // everything at once (processed as several commands)
                    let mut req = UpdateChildRequest::resources(
                        aworld::resources(
                            fworld::CHILD_ASN,
                            &format!("10.1.0.0/16, 10.{}.0.0/16",
                                     2 + rng.below(90)),
                            fworld::CHILD_V6,
                        )
                    );
                    req.id_cert = Some(if rng.coin() {
                        client.child_cert.clone()
                    } else { client.stranger_cert.clone() });
                    req.suspend = Some(false);
                    req
                }
                0 => UpdateChildRequest::resources(aworld::resources(
                    fworld::CHILD_ASN,
                    &format!("10.1.0.0/16, 10.{}.0.0/16", 2 + rng.below(90)),
                    fworld::CHILD_V6,
                )),
                1 => UpdateChildRequest::id_cert(client.child_cert.clone()),
                _ => UpdateChildRequest::unsuspend(),
            };
            serde_json::to_value(req).unwrap()
        }
        "child_import" => {
            let mut v = harvest.import_child.clone();
            v["name"] = json!(fresh);
            v
        }
        "parent_add" => {
            let handle = if rng.coin() { "ta".to_string() } else { fresh };
            let mut resp = harvest.parent_response.clone();
            if handle != "ta" {
                // a second parent with the same contact
                if let Some(o) = resp.as_object_mut() {
                    if o.contains_key("parent_handle") {
                        o.insert("parent_handle".into(), json!(handle));
                    }
                }
            }
            json!({"handle": handle, "response": resp})
        }
        "repo_update" => {
            json!({"repository_response": harvest.repo_response.clone()})
        }
        "ca_init" => {
            serde_json::to_value(CertAuthInit {
                handle: aworld::ca_handle(&fresh)
            }).unwrap()
        }
        "pub_add" => {
            serde_json::to_value(PublisherRequest::new(
                Base64::from_content(
                    client.stranger_cert.to_bytes().as_ref()
                ),
                PublisherHandle::from_str(&fresh).unwrap(),
                if rng.coin() { Some("tag".into()) } else { None },
            )).unwrap()
        }
        "pubd_init" => {
            serde_json::to_value(PublicationServerUris {
                rrdp_base_uri: uri::Https::from_str(aworld::RRDP_BASE)
                    .unwrap(),
                rsync_jail: uri::Rsync::from_str(aworld::RSYNC_BASE).unwrap(),
            }).unwrap()
        }
        "pubd_delete" => {
            serde_json::to_value(RepoFileDeleteCriteria {
                base_uri: uri::Rsync::from_str(&format!(
                    "{}{}/", aworld::RSYNC_BASE, fresh
                )).unwrap(),
            }).unwrap()
        }
        "import" => {
            let roas: Vec<Value> = vec![json!({
                "asn": 64510, "prefix": "10.250.0.0/24", "max_length": 24
            })];
            if ctx_ca && rng.below(3) != 0 {
                // a new CA below the existing one
                json!({"cas": [{
                    "handle": fresh,
                    "parent": [{
                        "handle": fworld::CA,
                        "resources": {
                            "asn": "AS64510", "ipv4": "10.250.0.0/16",
                            "ipv6": ""
                        }
                    }],
                    "roas": roas,
                }]})
            }
            else {
                json!({
                    "ta": {
                        "ta_aia": "rsync://repo.example.net/ta/ta.cer",
                        "ta_uri": "https://repo.example.net/ta/ta.cer",
                    },
                    "publication_server": {
                        "rrdp_base_uri": aworld::RRDP_BASE,
                        "rsync_jail": aworld::RSYNC_BASE,
                    },
                    "cas": [{
                        "handle": fresh,
                        "parent": {
                            "handle": "ta",
                            "resources": {
                                "asn": "AS64510", "ipv4": "10.250.0.0/16",
                                "ipv6": "2001:db8:fa::/48"
                            }
                        },
                        "roas": roas,
                    }]
                })
            }
        }
        _ => return None,
    };
    Some(v)
}

/// The alternative XML form of a body (parent response, repository
/// response).
pub fn xml_seed(e: &str, harvest: &Harvest) -> Option<Vec<u8>> {
    match e {
        "parent_add" => Some(harvest.parent_response_xml.clone()),
        "repo_update" => Some(harvest.repo_response_xml.clone()),
        _ => None,
    }
}

/// Typed view used by the direct channel: parent request from JSON or XML,
/// the way the dispatcher does it.
pub fn parent_req_from_value(v: Value) -> Result<ParentCaReq, String> {
    serde_json::from_value(v).map_err(|e| e.to_string())
}

pub fn repo_contact_from_value(v: Value)
    -> Result<ApiRepositoryContact, String>
{
    serde_json::from_value(v).map_err(|e| e.to_string())
}


//------------ CMS seeds -----------------------------------------------------

/// An RFC 6492 request of the harness' child to "ca".
pub fn msg_6492(
    rng: &mut Rng, client: &Client, sender: &str, class_name: &str,
) -> Result<provisioning::Message, String> {
    let sender = rpki::ca::idexchange::SenderHandle::from_str(sender)
        .map_err(|e| e.to_string())?;
    let recipient = rpki::ca::idexchange::RecipientHandle::from_str(
        fworld::CA
    ).unwrap();
    let class = ResourceClassName::from(class_name);
    Ok(match rng.below(4) {
        0 => provisioning::Message::list(sender, recipient),
        1 => {
            let key = if rng.coin() {
                client.child_ca_key
            } else { client.spare_ca_key };
            let mut limit = RequestResourceLimit::new();
            if rng.coin() {
                limit.with_ipv4(
                    aworld::resources("", "10.1.0.0/24", "").ipv4().clone()
                );
            }
            provisioning::Message::issue(
                sender, recipient,
                IssuanceRequest::new(
                    class, limit, client.csr(&key, fworld::CHILD)?
                ),
            )
        }
        2 => provisioning::Message::revoke(
            sender, recipient,
            RevocationRequest::new(class, client.spare_ca_key),
        ),
        _ => provisioning::Message::list(sender, recipient),
    })
}

/// An issue or revoke request of the harness' child for one given key.
pub fn msg_6492_for_key(
    kind: &str, client: &Client, sender: &str, class_name: &str,
    key: &rpki::crypto::KeyIdentifier,
) -> Result<provisioning::Message, String> {
    let sender = rpki::ca::idexchange::SenderHandle::from_str(sender)
        .map_err(|e| e.to_string())?;
    let recipient = rpki::ca::idexchange::RecipientHandle::from_str(
        fworld::CA
    ).unwrap();
    let class = ResourceClassName::from(class_name);
    Ok(match kind {
        "issue" => provisioning::Message::issue(
            sender, recipient,
            IssuanceRequest::new(
                class, RequestResourceLimit::new(),
                client.csr(key, fworld::CHILD)?,
            ),
        ),
        _ => provisioning::Message::revoke(
            sender, recipient, RevocationRequest::new(class, *key),
        ),
    })
}

/// An RFC 8181 query of the harness' publisher.
pub fn msg_8181(rng: &mut Rng, publisher: &str) -> publication::Message {
    let base = format!("{}{}/", aworld::RSYNC_BASE, publisher);
    match rng.below(4) {
        3 => {
            // several elements in one delta
            let mut delta = PublishDelta::empty();
            for _ in 0..2 + rng.below(3) {
                let uri = uri::Rsync::from_str(&format!(
                    "{base}d/g{:06x}.roa", rng.below(1 << 24)
                )).unwrap();
                let content = rng.some_bytes(60);
                delta.add_publish(Publish::new(
                    None, uri, Base64::from_content(&content)
                ));
            }
            publication::Message::delta(delta)
        }
        0 => publication::Message::list_query(),
        1 => {
            let mut delta = PublishDelta::empty();
            let uri = uri::Rsync::from_str(&format!(
                "{base}f{:06x}.cer", rng.below(1 << 24)
            )).unwrap();
            delta.add_publish(Publish::new(
                None, uri, Base64::from_content(&rng.bytes(40))
            ));
            publication::Message::delta(delta)
        }
        _ => {
            let mut delta = PublishDelta::empty();
            let uri = uri::Rsync::from_str(&format!(
                "{base}f{:06x}.cer", rng.below(1 << 24)
            )).unwrap();
            delta.add_withdraw(Withdraw::new(
                None, uri, Base64::from_content(b"none").to_hash()
            ));
            publication::Message::delta(delta)
        }
    }
}

pub fn parent_handle(s: &str) -> Option<ParentHandle> {
    ParentHandle::from_str(s).ok()
}

pub fn bytes(v: Vec<u8>) -> Bytes {
    Bytes::from(v)
}


//------------ text seeds ----------------------------------------------------

pub fn text_seed(e: &str, rng: &mut Rng) -> String {
    match e {
        "text_roa" => {
            match rng.below(3) {
                0 => format!("10.{}.0.0/16-24 => {}", rng.below(256),
                             64496 + rng.below(16)),
                1 => format!("192.168.{}.0/24 => AS{}", rng.below(256),
                             64496 + rng.below(16)),
                _ => format!("2001:db8:{:x}::/48-64 => {}",
                             rng.below(65536), 64496 + rng.below(16)),
            }
        }
        "text_prefix" => {
            if rng.coin() {
                format!("10.{}.{}.0/24", rng.below(256), rng.below(256))
            } else {
                format!("2001:db8:{:x}::/48", rng.below(65536))
            }
        }
        "text_asn" => {
            if rng.coin() {
                format!("AS{}", rng.below(70000))
            } else { format!("{}", rng.below(70000)) }
        }
        // asn | ipv4 | ipv6
        "text_resources" => {
            match rng.below(3) {
                0 => "AS64496-AS64511|10.0.0.0/8, 192.168.0.0/16|2001:db8::/32"
                    .to_string(),
                1 => format!("AS1, AS3-AS7||2001:db8:{:x}::/48",
                             rng.below(65536)),
                _ => format!("|10.{}.0.0-10.{}.255.255|", rng.below(100),
                             100 + rng.below(100)),
            }
        }
        "text_handle" => {
            rng.some_text("abcdefghijklmnopqrstuvwxyzABCXYZ0123456789-_", 40)
        }
        "text_aspa" => {
            format!("AS{} => AS{}, AS{}", 64496 + rng.below(16),
                    65000 + rng.below(8), 65010 + rng.below(8))
        }
        "text_uri" => {
            if rng.coin() {
                format!("rsync://repo.example.net/repo/x{}/", rng.below(100))
            } else {
                format!("https://repo.example.net/rrdp/{}/notification.xml",
                        rng.below(100))
            }
        }
        "text_ris" => {
            let mut s = String::from("% comment line\n\n");
            for _ in 0..1 + rng.below(6) {
                if rng.coin() {
                    s.push_str(&format!(
                        "{}\t10.{}.{}.0/24\t{}\n", 64496 + rng.below(16),
                        rng.below(256), rng.below(256), 5 + rng.below(400)
                    ));
                }
                else {
                    s.push_str(&format!(
                        "{}\t2001:db8:{:x}::/48\t{}\n", 64496 + rng.below(16),
                        rng.below(65536), 5 + rng.below(400)
                    ));
                }
            }
            s.push_str("{64496,64497}\t10.9.0.0/16\t50\n");
            s
        }
        _ => String::new(),
    }
}
