//! kv-fuzz: conformance harness for C16 (Malformed.tla), see
//! /verif/DESIGN.md.
//!
//!   kv-fuzz run --in <behaviours.ndjson> --out <trace.ndjson> --work <dir>
//!
//! A behaviour is one context of the specification (which entities exist),
//! one channel and a list of vectors (endpoint, class, addressed entity);
//! every vector is concretised `n` times from the seed (or carries an
//! explicit input: replay). The trace has, per vector and distinct
//! observed outcome, a `reset` line (the context) and a `req` line (the
//! kind of reply, whether the digests of configuration and published
//! content changed, how many instances behaved that way, a sample).
#![allow(dead_code)]

#[path = "../../harness/src/common.rs"]
mod common;
#[path = "../../harness-auth/src/world.rs"]
mod aworld;
mod client;
mod rng;
mod fworld;
mod seeds;
mod mutate;
mod exec;
mod server;

use std::collections::BTreeMap;
use std::io::Write;
use std::path::{Path, PathBuf};
use serde_json::{json, Value};
use common::*;
use exec::{Digests, Direct, Http, Obs};
use fworld::{Client, Ctx, World};
use mutate::{Gen, Input, Vector};
use seeds::Harvest;

fn arg(args: &[String], name: &str) -> Option<String> {
    args.iter().position(|a| a == name).and_then(|i| args.get(i + 1)).cloned()
}

/// Like common::install_panic_hook, plus the innermost frames of krill and
/// rpki code (the location of a panic raised inside the standard library
/// says nothing about who asked for it).
fn install_hook() {
    std::panic::set_hook(Box::new(|info| {
        let msg = if let Some(s) = info.payload().downcast_ref::<&str>() {
            s.to_string()
        }
        else if let Some(s) = info.payload().downcast_ref::<String>() {
            s.clone()
        }
        else if let Some(c)
            = info.payload().downcast_ref::<krill::verif::VerifCrash>()
        {
            format!("VERIF_CRASH {}", c.0)
        }
        else {
            "unknown panic".to_string()
        };
        let loc = info.location().map(|l| {
            format!("{}:{}", l.file(), l.line())
        }).unwrap_or_default();
        let bt = std::backtrace::Backtrace::force_capture().to_string();
        let frames: Vec<String> = bt.lines().map(|l| l.trim()).filter(|l| {
            (l.contains("krill::") || l.contains("rpki::"))
                && !l.contains("kv_fuzz") && !l.contains("krill::verif")
        }).map(|l| {
            // "12: krill::a::b::c" -> "krill::a::b::c"
            let l = l.split_once(": ").map(|x| x.1).unwrap_or(l);
            l.split("::h").next().unwrap_or(l).to_string()
        }).take(3).collect();
        *LAST_PANIC.lock().unwrap_or_else(|e| e.into_inner())
            = Some(format!("{msg} [in {}] @ {loc}", frames.join(" < ")));
    }));
}

fn main() {
    install_hook();
    let args: Vec<String> = std::env::args().collect();
    match args.get(1).map(|s| s.as_str()).unwrap_or("") {
        "run" => {
            let inp = PathBuf::from(arg(&args, "--in").expect("--in"));
            let out = PathBuf::from(arg(&args, "--out").expect("--out"));
            let work = PathBuf::from(arg(&args, "--work").expect("--work"));
            std::process::exit(run(&inp, &out, &work));
        }
        _ => {
            eprintln!(
                "usage: kv-fuzz run --in <behaviours.ndjson> \
                 --out <trace.ndjson> --work <dir>"
            );
            std::process::exit(2);
        }
    }
}


//------------ Backend -------------------------------------------------------

enum Backend {
    Direct(Direct),
    Http(Box<Http>),
}

impl Backend {
    fn digest(&mut self) -> Digests {
        match self {
            Backend::Direct(d) => d.digest(),
            Backend::Http(h) => h.digest(),
        }
    }

    fn facts(&mut self) -> Ctx {
        match self {
            Backend::Direct(d) => d.facts(),
            Backend::Http(h) => h.facts(),
        }
    }

    fn exec(&mut self, v: &Vector, input: &Input) -> Obs {
        match self {
            Backend::Direct(d) => d.exec(v, input),
            Backend::Http(h) => h.exec(v, input),
        }
    }

    fn prelude(&mut self, v: &Vector, input: &Input) -> Option<Obs> {
        match self {
            Backend::Direct(d) => d.prelude(v, input),
            Backend::Http(h) => h.prelude(v, input),
        }
    }
}

struct Site {
    backend: Backend,
    ctx: Ctx,
    class_name: String,
    harvest: Harvest,
}

struct Driver {
    work: PathBuf,
    client: Client,
    donor: Option<Harvest>,
    worlds: usize,
    stats: BTreeMap<String, u64>,
    problems: Vec<String>,
}

impl Driver {
    fn bump(&mut self, key: &str, by: u64) {
        *self.stats.entry(key.into()).or_default() += by;
    }

    /// The harvest of a complete world, made once per process.
    fn donor(&mut self) -> Result<Harvest, String> {
        if let Some(h) = &self.donor {
            return Ok(h.clone())
        }
        let dir = self.work.join("donor");
        let world = World::create(&dir, Ctx::FULL, &self.client, 101)?;
        let harvest = Harvest::collect(&world)?;
        drop(world);
        let _ = std::fs::remove_dir_all(&dir);
        self.donor = Some(harvest.clone());
        Ok(harvest)
    }

    fn site(&mut self, ctx: Ctx, chan: &str) -> Result<Site, String> {
        self.worlds += 1;
        let dir = self.work.join(format!("w{}", self.worlds));
        let world = World::create(
            &dir, ctx, &self.client, 200 + self.worlds * 61
        )?;
        let harvest = if ctx.ca && ctx.child {
            Harvest::collect(&world)?
        } else { self.donor()? };
        let class_name = world.class_name.clone();
        let backend = match chan {
            "direct" => Backend::Direct(Direct { world }),
            "http" => Backend::Http(Box::new(Http::start(world)?)),
            other => return Err(format!("unknown channel {other}")),
        };
        self.bump("worlds", 1);
        Ok(Site { backend, ctx, class_name, harvest })
    }
}


//------------ run -----------------------------------------------------------

/// Trace writer that is flushed after every behaviour (what was recorded
/// must survive the death of the process).
struct Out {
    file: std::io::BufWriter<std::fs::File>,
}

impl Out {
    fn create(path: &Path) -> Self {
        if let Some(parent) = path.parent() {
            let _ = std::fs::create_dir_all(parent);
        }
        Out {
            file: std::io::BufWriter::new(
                std::fs::File::create(path).unwrap()
            ),
        }
    }

    fn push(&mut self, value: &Value) {
        serde_json::to_writer(&mut self.file, value).unwrap();
        self.file.write_all(b"\n").unwrap();
    }

    fn flush(&mut self) {
        self.file.flush().unwrap();
    }
}

struct Group {
    n: u64,
    first_inst: u64,
    obs: Obs,
    changed: Vec<String>,
    input: Input,
    rebuilt: bool,
}

fn run(inp: &Path, out: &Path, work: &Path) -> i32 {
    let behaviours = read_ndjson(inp);
    let mut trace = Out::create(out);
    let current = PathBuf::from(format!("{}.current", out.display()));
    let _ = std::fs::create_dir_all(work);
    let client = match Client::create(&work.join("client")) {
        Ok(c) => c,
        Err(e) => {
            eprintln!("client set-up failed: {e}");
            return 2
        }
    };
    let mut driver = Driver {
        work: work.into(), client, donor: None, worlds: 0,
        stats: BTreeMap::new(), problems: Vec::new(),
    };
    for (idx, beh) in behaviours.iter().enumerate() {
        let id = beh.get("id").cloned().unwrap_or(json!(idx));
        if let Err(e) = run_behaviour(
            &mut driver, beh, &id, &mut trace, &current
        ) {
            eprintln!("behaviour {id}: {e}");
            return 2
        }
        trace.flush();
    }
    trace.flush();
    let _ = std::fs::remove_file(&current);
    let stats = json!({
        "stats": driver.stats, "problems": driver.problems,
    });
    let _ = std::fs::write(
        format!("{}.stats", out.display()), stats.to_string()
    );
    0
}

fn run_behaviour(
    driver: &mut Driver, beh: &Value, id: &Value, trace: &mut Out,
    current: &Path,
) -> Result<(), String> {
    let ctx = Ctx::from_json(beh.get("ctx").unwrap_or(&Value::Null));
    let chan = str_arg(beh, "chan").to_string();
    let seed = beh.get("seed").and_then(|s| s.as_u64()).unwrap_or(1);
    let n = beh.get("n").and_then(|s| s.as_u64()).unwrap_or(1);
    let vectors = beh.get("vectors").and_then(|v| v.as_array()).cloned()
        .unwrap_or_default();
    let mut site = driver.site(ctx, &chan)?;
    let mut before = site.backend.digest();
    for item in &vectors {
        let v: Vector = serde_json::from_value(item.clone()).map_err(|e| {
            format!("bad vector {item}: {e}")
        })?;
        if v.chan != chan {
            return Err(format!("vector {item} in a {chan} behaviour"))
        }
        let explicit: Option<Input> = item.get("input").and_then(|i| {
            if i.is_null() { None } else {
                serde_json::from_value(i.clone()).ok()
            }
        });
        let first = item.get("inst").and_then(|i| i.as_u64()).unwrap_or(0);
        let count = if explicit.is_some() { 1 } else {
            item.get("n").and_then(|i| i.as_u64()).unwrap_or(n)
        };
        let mut groups: BTreeMap<String, Group> = BTreeMap::new();
        for inst in first..first + count {
            let input = match &explicit {
                Some(i) => i.clone(),
                None => {
                    let world_info = mutate::WorldInfo {
                        ctx: site.ctx, class_name: site.class_name.clone(),
                    };
                    let generator = Gen {
                        world: &world_info, client: &driver.client,
                        harvest: &site.harvest,
                    };
                    match guarded(|| generator.generate(&v, seed, inst)) {
                        Outcome::Ok(Ok(i)) => i,
                        Outcome::Ok(Err(e)) => {
                            driver.problems.push(format!(
                                "generate {}/{}/{}: {e}", v.e, v.c, v.t
                            ));
                            continue
                        }
                        Outcome::Panic(m) | Outcome::Crash(m) => {
                            driver.problems.push(format!(
                                "generate {}/{}/{} panicked: {m}",
                                v.e, v.c, v.t
                            ));
                            continue
                        }
                    }
                }
            };
            // what is being executed, should the process die of it
            if let Ok(mut f) = std::fs::File::create(current) {
                let _ = f.write_all(json!({
                    "behaviour": id, "ctx": ctx.to_json(), "chan": chan,
                    "vector": item, "inst": inst, "seed": seed,
                    "input": input,
                }).to_string().as_bytes());
            }
            // test of the machinery only: what happens when the process
            // dies in the middle of an input
            if let Ok(at) = std::env::var("KV_FUZZ_DIE_AT")
                && at == format!("{}:{}:{}", v.e, v.c, v.t)
            {
                std::process::abort();
            }
            let t0 = std::time::Instant::now();
            // requests that set the scene are not judged (unless one of
            // them kills the process); the state they leave is where the
            // judged request starts from
            let early = if input.prelude.is_empty() { None } else {
                let res = site.backend.prelude(&v, &input);
                if res.is_none() {
                    before = site.backend.digest();
                }
                res
            };
            let obs = match early {
                Some(obs) => obs,
                None => site.backend.exec(&v, &input),
            };
            if input.prelude.iter().any(|s| s.kind == "renumber")
                && let Backend::Direct(d) = &site.backend
                && let Some(name) = d.world.current_class()
            {
                // (the class has a new name from here on)
                site.class_name = name;
            }
            driver.bump("exec_us", t0.elapsed().as_micros() as u64);
            driver.bump("inputs", 1);
            let dead = matches!(obs.out.as_str(), "panic" | "exit");
            let t1 = std::time::Instant::now();
            let after = if dead {
                // locks may be poisoned: what the state is now is read
                // from a fresh process image below
                before.clone()
            } else { site.backend.digest() };
            driver.bump("digest_us", t1.elapsed().as_micros() as u64);
            let cfgchg = after.cfg != before.cfg;
            let pubchg = after.publ != before.publ;
            let changed = before.changed(&after);
            let mut rebuilt = false;
            if dead {
                site = driver.site(ctx, &chan)?;
                before = site.backend.digest();
                rebuilt = true;
                driver.bump("rebuilt_after_panic", 1);
            }
            else {
                if (cfgchg || pubchg) && site.backend.facts() != ctx {
                    // an accepted request changed which entities exist
                    site = driver.site(ctx, &chan)?;
                    before = site.backend.digest();
                    rebuilt = true;
                    driver.bump("rebuilt_facts", 1);
                }
                else {
                    before = after;
                }
            }
            let key = format!(
                "{}|{}|{}|{}", obs.out, cfgchg, pubchg, obs.loc
            );
            match groups.get_mut(&key) {
                Some(g) => { g.n += 1; }
                None => {
                    groups.insert(key, Group {
                        n: 1, first_inst: inst, obs, changed, input,
                        rebuilt,
                    });
                }
            }
        }
        for (key, g) in groups {
            let mut parts = key.split('|');
            let _ = parts.next();
            let cfgchg = parts.next() == Some("true");
            let pubchg = parts.next() == Some("true");
            let suspicious = g.obs.out != "ok"
                && (g.obs.out != "error" || cfgchg || pubchg);
            let keep_input = suspicious || g.input.body.len() <= 4096;
            trace.push(&json!({
                "ev": "reset", "behaviour": id, "ctx": ctx.to_json(),
                "chan": chan,
            }));
            trace.push(&json!({
                "ev": "req", "behaviour": id, "ctx": ctx.to_json(),
                "e": v.e, "c": v.c, "t": v.t, "chan": v.chan,
                "kind": v.kind, "strict": v.strict,
                "out": g.obs.out, "cfgchg": cfgchg, "pubchg": pubchg,
                "changed": g.changed, "n": g.n, "loc": g.obs.loc,
                "detail": g.obs.detail, "inst": g.first_inst, "seed": seed,
                "note": g.input.note,
                "input": if keep_input { json!(g.input) } else { Value::Null },
                "rebuilt": g.rebuilt,
            }));
        }
    }
    Ok(())
}
