//! Executes one input against the code under test, either directly
//! (catch_unwind around the manager calls) or through the HTTP dispatcher,
//! and observes: kind of reply, digests of configuration and published
//! content.

use std::collections::BTreeMap;
use std::path::{Path, PathBuf};
use std::str::FromStr;
use bytes::Bytes;
use krill::api::admin::{
    AddChildRequest, ApiRepositoryContact, CertAuthInit, ParentCaReq,
    PublicationServerUris, RepoFileDeleteCriteria, RepositoryContact,
    UpdateChildRequest,
};
use krill::api::aspa::{AspaDefinition, AspaDefinitionUpdates, AspaProvidersUpdate};
use krill::api::bgpsec::BgpSecDefinitionUpdates;
use krill::api::import::{ImportChild, Structure};
use krill::api::roa::{
    AsNumber, RoaConfigurationUpdates, RoaPayload, TypedPrefix,
};
use krill::commons::error::Error as KrillError;
use rpki::ca::idcert::IdCert;
use rpki::ca::idexchange::{
    CaHandle, ChildHandle, ParentResponse, PublisherHandle,
    PublisherRequest, RepositoryResponse,
};
use rpki::ca::provisioning::{self, ProvisioningCms};
use rpki::ca::publication::{self, PublicationCms};
use rpki::repository::resources::{Asn, ResourceSet};
use rpki::uri;
use serde_json::Value;
use crate::aworld;
use crate::client::Client as HttpClient;
use crate::common::*;
use crate::fworld::{self, Ctx, World};
use crate::mutate::{Input, Vector};
use crate::server::MiniServer;


//------------ Obs -----------------------------------------------------------

#[derive(Clone, Debug)]
pub struct Obs {
    /// error | ok | panic | exit | garbled
    pub out: String,
    /// short description of the reply
    pub detail: String,
    /// for panics: file:line
    pub loc: String,
}

impl Obs {
    fn error(detail: impl std::fmt::Display) -> Self {
        Obs { out: "error".into(), detail: short(&detail.to_string()),
              loc: String::new() }
    }

    fn ok(detail: impl std::fmt::Display) -> Self {
        Obs { out: "ok".into(), detail: short(&detail.to_string()),
              loc: String::new() }
    }

    fn garbled(detail: impl std::fmt::Display) -> Self {
        Obs { out: "garbled".into(), detail: short(&detail.to_string()),
              loc: String::new() }
    }

    pub fn panic(msg: &str) -> Self {
        // "<message> [in <frames>] @ <file>:<line>"
        let (text, loc) = msg.rsplit_once(" @ ").unwrap_or((msg, ""));
        let mut loc = norm_loc(loc);
        if loc.starts_with("std:") {
            // raised inside the standard library: name the caller
            if let Some(frames) = text.rsplit_once(" [in ").map(|x| x.1) {
                let first = frames.trim_end_matches(']').split(" < ")
                    .next().unwrap_or("");
                if !first.is_empty() {
                    loc = format!("{loc}:{first}");
                }
            }
        }
        let out = if text.contains("krill_verif: process::exit") {
            "exit"
        } else { "panic" };
        Obs { out: out.into(), detail: long(text), loc }
    }
}

pub fn short(s: &str) -> String {
    let s: String = s.chars().map(|c| {
        if c.is_control() { ' ' } else { c }
    }).take(160).collect();
    s
}

fn long(s: &str) -> String {
    let s: String = s.chars().map(|c| {
        if c.is_control() { ' ' } else { c }
    }).collect();
    if s.chars().count() <= 420 {
        return s
    }
    // keep the head of the message and the frames at the end
    let head: String = s.chars().take(200).collect();
    let tail: String = {
        let cs: Vec<char> = s.chars().collect();
        cs[cs.len() - 200..].iter().collect()
    };
    format!("{head} ... {tail}")
}

/// Source location relative to the crate it is in.
fn norm_loc(loc: &str) -> String {
    // (/repo, or a private copy of it somewhere else)
    let loc = match loc.find("/repo/src/") {
        Some(pos) => &loc[pos + "/repo/".len()..],
        None => loc,
    };
    if let Some(rest) = loc.strip_prefix("/rustc/") {
        // /rustc/<hash>/library/alloc/src/...
        let rest = rest.split_once("/library/").map(|x| x.1).unwrap_or(rest);
        return format!("std:{rest}")
    }
    match loc.find("/registry/src/") {
        Some(pos) => {
            let rest = &loc[pos + "/registry/src/".len()..];
            rest.split_once('/').map(|x| x.1).unwrap_or(rest).to_string()
        }
        None => loc.to_string(),
    }
}

fn krill_err(e: KrillError) -> Obs {
    Obs::error(e)
}


//------------ canonical JSON ------------------------------------------------

fn canon_value(v: Value) -> Value {
    match v {
        Value::Array(items) => {
            let mut items: Vec<Value> = items.into_iter().map(canon_value)
                .collect();
            items.sort_by_key(|i| i.to_string());
            Value::Array(items)
        }
        Value::Object(map) => {
            let mut sorted: Vec<(String, Value)> = map.into_iter().map(
                |(k, v)| (k, canon_value(v))
            ).collect();
            sorted.sort_by(|a, b| a.0.cmp(&b.0));
            Value::Object(sorted.into_iter().collect())
        }
        other => other,
    }
}

fn canon<T: serde::Serialize>(value: &T, drop: &[&str]) -> String {
    let mut v = serde_json::to_value(value).unwrap_or(Value::Null);
    if let Some(o) = v.as_object_mut() {
        for k in drop {
            o.remove(*k);
        }
    }
    canon_value(v).to_string()
}

pub fn hash_str(s: &str) -> String {
    let digest = openssl::sha::sha256(s.as_bytes());
    hex::encode(&digest[..12])
}

fn walk(dir: &Path, base: &Path, out: &mut Vec<String>) {
    let Ok(rd) = std::fs::read_dir(dir) else { return };
    for entry in rd.flatten() {
        let path = entry.path();
        let Ok(meta) = entry.metadata() else { continue };
        if meta.is_dir() {
            walk(&path, base, out);
        }
        else {
            out.push(format!(
                "{}:{}",
                path.strip_prefix(base).unwrap_or(&path).display(),
                meta.len(),
            ));
        }
    }
}

/// Names and sizes of everything in the served repository directory.
fn repo_dir_listing(dir: &Path) -> String {
    let mut files = Vec::new();
    let repo = dir.join("repo");
    walk(&repo, &repo, &mut files);
    files.sort();
    files.join("\n")
}


//------------ Digests -------------------------------------------------------

#[derive(Clone, Debug, PartialEq, Eq)]
pub struct Digests {
    pub cfg: String,
    pub publ: String,
    /// per part, to say what changed
    pub parts: BTreeMap<String, String>,
}

impl Digests {
    fn from_parts(parts: BTreeMap<String, String>) -> Self {
        let mut cfg = String::new();
        let mut publ = String::new();
        for (k, v) in &parts {
            if k.starts_with("pub:") {
                publ.push_str(k); publ.push('='); publ.push_str(v);
                publ.push(';');
            }
            else {
                cfg.push_str(k); cfg.push('='); cfg.push_str(v);
                cfg.push(';');
            }
        }
        Digests { cfg: hash_str(&cfg), publ: hash_str(&publ), parts }
    }

    pub fn changed(&self, other: &Digests) -> Vec<String> {
        let mut res = Vec::new();
        for (k, v) in &other.parts {
            if self.parts.get(k) != Some(v) {
                res.push(k.clone());
            }
        }
        for k in self.parts.keys() {
            if !other.parts.contains_key(k) {
                res.push(k.clone());
            }
        }
        res
    }
}


//============ Direct ========================================================

pub struct Direct {
    pub world: World,
}

impl Direct {
    /// Configuration: every CA (without its version counter), the trust
    /// anchor proxy, the publishers with their identity. Published content:
    /// the files of every publisher, RRDP session and serial, the files in
    /// the served directory.
    pub fn digest(&self) -> Digests {
        let krill = &self.world.env.krill;
        let cam = krill.ca_manager();
        let mut parts = BTreeMap::new();
        let mut handles = cam.ca_handles().unwrap_or_default();
        handles.sort_by_key(|h| h.to_string());
        parts.insert("cfg:cas".into(), hash_str(
            &handles.iter().map(|h| h.to_string()).collect::<Vec<_>>()
                .join(",")
        ));
        for h in &handles {
            if h.as_str() == "ta" {
                continue
            }
            let text = cam.get_ca(h).map(|ca| canon(&*ca, &["version"]))
                .unwrap_or_else(|e| format!("error {e}"));
            parts.insert(format!("cfg:ca:{h}"), hash_str(&text));
        }
        let ta = cam.get_trust_anchor_proxy().map(|p| {
            canon(&*p, &["version"])
        }).unwrap_or_default();
        parts.insert("cfg:ta".into(), hash_str(&ta));
        let rm = krill.repo_manager();
        parts.insert("cfg:repo-init".into(), format!(
            "{}", rm.is_initialized().unwrap_or(false)
        ));
        let mut pubs = rm.publishers().unwrap_or_default();
        pubs.sort_by_key(|p| p.to_string());
        let mut pub_cfg = String::new();
        for p in pubs {
            pub_cfg.push_str(p.as_str());
            match rm.get_publisher_details(p.clone()) {
                Ok(d) => {
                    pub_cfg.push_str(&canon(&d, &["current_files"]));
                    let mut files: Vec<String> = d.current_files.iter().map(
                        |f| format!("{}:{}", f.uri, f.base64.to_hash())
                    ).collect();
                    files.sort();
                    parts.insert(
                        format!("pub:files:{p}"), hash_str(&files.join("\n"))
                    );
                }
                Err(e) => pub_cfg.push_str(&format!("error {e}")),
            }
        }
        parts.insert("cfg:publishers".into(), hash_str(&pub_cfg));
        if let Ok(stats) = rm.repo_stats() {
            let v = serde_json::to_value(&stats).unwrap_or(Value::Null);
            parts.insert("pub:rrdp".into(), format!(
                "{}:{}", v["session"], v["serial"]
            ));
            // the publishers as the content side knows them
            let mut names: Vec<String> = stats.publishers.keys().map(|p| {
                p.to_string()
            }).collect();
            names.sort();
            parts.insert("pub:content-publishers".into(), names.join(","));
        }
        parts.insert("pub:dir".into(), hash_str(
            &repo_dir_listing(&self.world.dir)
        ));
        Digests::from_parts(parts)
    }

    pub fn facts(&self) -> Ctx {
        self.world.facts()
    }

    pub fn exec(&self, v: &Vector, input: &Input) -> Obs {
        match guarded(|| self.exec_inner(v, input)) {
            Outcome::Ok(obs) => obs,
            Outcome::Panic(msg) | Outcome::Crash(msg) => Obs::panic(&msg),
        }
    }

    /// Executes the requests that set the scene; a panic among them is
    /// the outcome of the instance.
    pub fn prelude(&self, v: &Vector, input: &Input) -> Option<Obs> {
        for step in &input.prelude {
            let res = guarded(|| {
                if step.kind == "flush" {
                    let _ = self.world.env.krill.repo_manager()
                        .update_rrdp_if_needed();
                }
                else if step.kind == "renumber" {
                    let _ = self.world.renumber_class();
                }
                else {
                    let mut one = input.clone();
                    one.body = step.body.clone();
                    let _ = self.exec_inner(v, &one);
                }
            });
            if let Outcome::Panic(msg) | Outcome::Crash(msg) = res {
                return Some(Obs::panic(&msg))
            }
        }
        None
    }

    fn exec_inner(&self, v: &Vector, input: &Input) -> Obs {
        match v.kind.as_str() {
            "cms" => self.exec_cms(v, input),
            "json" => self.exec_json(v, input),
            "text" => self.exec_text(v, input),
            other => Obs::garbled(format!("no direct channel for {other}")),
        }
    }

    fn exec_cms(&self, v: &Vector, input: &Input) -> Obs {
        let krill = &self.world.env.krill;
        let actor = aworld::actor(&self.world.env);
        let body = Bytes::from(input.body.clone());
        if v.e == "rfc6492" {
            let Ok(ca) = CaHandle::from_str(&input.ca) else {
                return Obs::error("handle in path not valid")
            };
            match krill.ca_manager().rfc6492(
                &ca, body, Some("kv-fuzz".into()), &actor, krill
            ) {
                Ok(reply) => classify_6492(&reply),
                Err(e) => krill_err(e),
            }
        }
        else {
            let Ok(publisher) = PublisherHandle::from_str(&input.sub) else {
                return Obs::error("handle in path not valid")
            };
            match krill.repo_manager().rfc8181(publisher, body, krill) {
                Ok(reply) => classify_8181(&reply),
                Err(e) => krill_err(e),
            }
        }
    }

    /// serde decoding of the request type, then the manager call the
    /// dispatcher makes (src/daemon/http/dispatch, src/server/manager.rs).
    fn exec_json(&self, v: &Vector, input: &Input) -> Obs {
        let env = &self.world.env;
        let krill = &env.krill;
        let cam = krill.ca_manager();
        let actor = aworld::actor(env);
        let body = &input.body[..];
        let Ok(ca) = CaHandle::from_str(&input.ca) else {
            return Obs::error("handle in path not valid")
        };
        macro_rules! decode {
            ($t:ty) => {
                match serde_json::from_slice::<$t>(body) {
                    Ok(x) => x,
                    Err(e) => return Obs::error(format!("json: {e}")),
                }
            }
        }
        macro_rules! done {
            ($res:expr) => {
                match $res {
                    Ok(x) => { let _ = x; Obs::ok("ok") }
                    Err(e) => krill_err(e),
                }
            }
        }
        match v.e.as_str() {
            "roa_update" => {
                let u = decode!(RoaConfigurationUpdates);
                done!(cam.ca_routes_update(ca, u, &actor, krill))
            }
            "roa_try" => {
                let mut u = decode!(RoaConfigurationUpdates);
                let effect = match self.dry_run(&ca, u.clone()) {
                    Ok(e) => e,
                    Err(e) => return krill_err(e),
                };
                if effect.contains_invalids() {
                    u.set_explicit_max_length();
                    let resources = u.affected_prefixes();
                    match self.suggest(&ca, Some(resources)) {
                        Ok(s) => {
                            let _ = serde_json::to_string(&s);
                            Obs::ok("advice")
                        }
                        Err(e) => krill_err(e),
                    }
                }
                else {
                    done!(cam.ca_routes_update(ca, u, &actor, krill))
                }
            }
            "roa_dryrun" => {
                let u = decode!(RoaConfigurationUpdates);
                match self.dry_run(&ca, u) {
                    Ok(report) => {
                        let _ = serde_json::to_string(&report);
                        let _ = report.to_string();
                        Obs::ok("report")
                    }
                    Err(e) => krill_err(e),
                }
            }
            "roa_suggest" => {
                let r = decode!(ResourceSet);
                match self.suggest(&ca, Some(r)) {
                    Ok(s) => {
                        let _ = serde_json::to_string(&s);
                        Obs::ok("suggestion")
                    }
                    Err(e) => krill_err(e),
                }
            }
            "aspa_update" => {
                let u = decode!(AspaDefinitionUpdates);
                done!(cam.ca_aspas_definitions_update(ca, u, &actor, krill))
            }
            "aspa_single" => {
                let Ok(customer) = Asn::from_str(&input.sub) else {
                    return Obs::error("customer in path not valid")
                };
                let u = decode!(AspaProvidersUpdate);
                done!(cam.ca_aspas_update_aspa_providers(
                    ca, customer, u, &actor, krill
                ))
            }
            "bgpsec_update" => {
                let u = decode!(BgpSecDefinitionUpdates);
                done!(cam.ca_bgpsec_definitions_update(ca, u, &actor, krill))
            }
            "child_add" => {
                let r = decode!(AddChildRequest);
                done!(cam.ca_add_child(&ca, r, &actor, krill))
            }
            "child_update" => {
                let Ok(child) = ChildHandle::from_str(&input.sub) else {
                    return Obs::error("child in path not valid")
                };
                let r = decode!(UpdateChildRequest);
                done!(cam.ca_child_update(&ca, child, r, &actor, krill))
            }
            "child_import" => {
                let Ok(child) = ChildHandle::from_str(&input.sub) else {
                    return Obs::error("child in path not valid")
                };
                let r = decode!(ImportChild);
                if r.name != child {
                    return Obs::error("handle mismatch")
                }
                done!(cam.ca_child_import(&ca, r, &actor, krill))
            }
            "parent_add" => {
                // dispatch/cas.rs extract_parent_ca_req
                let trimmed = body.trim_ascii_start();
                let req = if trimmed.first().copied() == Some(b'<') {
                    match ParentResponse::parse(trimmed) {
                        Ok(response) => ParentCaReq {
                            handle: response.parent_handle().clone(),
                            response,
                        },
                        Err(e) => return Obs::error(format!("xml: {e}")),
                    }
                }
                else {
                    match serde_json::from_slice::<ParentCaReq>(trimmed) {
                        Ok(x) => x,
                        Err(e) => return Obs::error(format!("json: {e}")),
                    }
                };
                // server/manager.rs ca_parent_add_or_update
                let contact = match krill::api::admin::ParentCaContact
                    ::try_from_rfc8183_parent_response(req.response.clone())
                {
                    Ok(c) => c,
                    Err(e) => return Obs::error(format!("response: {e}")),
                };
                if let Err(e) = cam.get_entitlements_from_contact(
                    &ca, &req.handle, &contact, false, &env.slow
                ) {
                    return krill_err(e)
                }
                done!(cam.ca_parent_add_or_update(ca, req, &actor, krill))
            }
            "repo_update" => {
                // dispatch/cas.rs extract_repository_contact
                let trimmed = body.trim_ascii_start();
                let contact = if trimmed.first().copied() == Some(b'<') {
                    match RepositoryResponse::parse(trimmed) {
                        Ok(r) => RepositoryContact::try_from_response(r),
                        Err(e) => return Obs::error(format!("xml: {e}")),
                    }
                }
                else {
                    match serde_json::from_slice::<ApiRepositoryContact>(
                        trimmed
                    ) {
                        Ok(c) => RepositoryContact::try_from_response(
                            c.repository_response
                        ),
                        Err(e) => return Obs::error(format!("json: {e}")),
                    }
                };
                let contact = match contact {
                    Ok(c) => c,
                    Err(e) => return Obs::error(format!("response: {e}")),
                };
                done!(cam.update_repo(ca, contact, true, &actor, &env.slow))
            }
            "ca_init" => {
                let r = decode!(CertAuthInit);
                done!(cam.init_ca(r.handle, krill))
            }
            "pub_add" => {
                let r = decode!(PublisherRequest);
                let handle = r.publisher_handle().clone();
                if let Err(e) = krill.repo_manager().create_publisher(
                    r, &actor
                ) {
                    return krill_err(e)
                }
                done!(krill.repo_manager().repository_response(&handle, krill))
            }
            "pubd_init" => {
                let r = decode!(PublicationServerUris);
                done!(krill.repo_manager().init(r, krill))
            }
            "pubd_delete" => {
                let r = decode!(RepoFileDeleteCriteria);
                done!(krill.repo_manager().delete_matching_files(r))
            }
            "import" => {
                // the decoding and the check of the hierarchy; the import
                // itself is only reachable through the dispatcher
                let s = decode!(Structure);
                let mut existing = std::collections::HashMap::new();
                for handle in cam.ca_handles().unwrap_or_default() {
                    if let Ok(ca) = cam.get_ca(&handle) {
                        existing.insert(handle.convert(), ca.all_resources());
                    }
                }
                done!(s.validate_ca_hierarchy(existing))
            }
            other => Obs::garbled(format!("no direct call for {other}")),
        }
    }

    fn dry_run(
        &self, handle: &CaHandle, mut updates: RoaConfigurationUpdates
    ) -> Result<krill::api::bgp::BgpAnalysisReport, KrillError> {
        // server/manager.rs ca_routes_bgp_dry_run
        let krill = &self.world.env.krill;
        let ca = krill.ca_manager().get_ca(handle)?;
        updates.set_explicit_max_length();
        let resources_held = ca.all_resources();
        let limit = Some(updates.affected_prefixes());
        let would_be_routes = ca.get_updated_authorizations(&updates)?;
        let would_be_configurations = would_be_routes.roa_configurations();
        let configured_roas
            = ca.configured_roas_for_configs(would_be_configurations);
        Ok(krill.bgp_analyser().analyse(
            &configured_roas, &resources_held, limit
        ))
    }

    fn suggest(
        &self, handle: &CaHandle, limit: Option<ResourceSet>
    ) -> Result<krill::api::bgp::BgpAnalysisSuggestion, KrillError> {
        let krill = &self.world.env.krill;
        let ca = krill.ca_manager().get_ca(handle)?;
        let configured_roas = ca.configured_roas();
        let resources_held = ca.all_resources();
        Ok(krill.bgp_analyser().suggest(
            configured_roas.as_slice(), &resources_held, limit
        ))
    }

    /// Parsers of the notations of stored values, and what is done with
    /// an accepted value right away.
    fn exec_text(&self, v: &Vector, input: &Input) -> Obs {
        let text = String::from_utf8_lossy(&input.body).into_owned();
        let text = text.as_str();
        match v.e.as_str() {
            "text_roa" => match RoaPayload::from_str(text) {
                Ok(p) => {
                    let valid = p.max_length_valid();
                    let _ = p.effective_max_length();
                    let _ = p.nr_of_specific_prefixes();
                    let _ = p.into_explicit_max_length();
                    let _ = p.as_roa_ip_address();
                    let _ = p.includes(p);
                    let _ = p.overlaps(p);
                    let shown = p.to_string();
                    let _ = serde_json::to_string(&p);
                    Obs::ok(format!("{shown} valid={valid}"))
                }
                Err(e) => Obs::error(e),
            },
            "text_prefix" => match TypedPrefix::from_str(text) {
                Ok(p) => {
                    let _ = p.addr_len();
                    let _ = p.matching_or_less_specific(p);
                    Obs::ok(p)
                }
                Err(e) => Obs::error(e),
            },
            "text_asn" => match AsNumber::from_str(text) {
                Ok(a) => Obs::ok(a),
                Err(e) => Obs::error(e),
            },
            "text_resources" => {
                let mut parts = text.splitn(3, '|');
                let asn = parts.next().unwrap_or("");
                let v4 = parts.next().unwrap_or("");
                let v6 = parts.next().unwrap_or("");
                match ResourceSet::from_strs(asn, v4, v6) {
                    Ok(r) => {
                        let _ = r.union(&r);
                        let _ = r.intersection(&r);
                        let _ = r.difference(&r);
                        let _ = r.contains(&r);
                        let shown = r.to_string();
                        let json = serde_json::to_string(&r)
                            .unwrap_or_default();
                        let _ = serde_json::from_str::<ResourceSet>(&json);
                        Obs::ok(short(&shown))
                    }
                    Err(e) => Obs::error(e),
                }
            }
            "text_handle" => match CaHandle::from_str(text) {
                Ok(h) => {
                    let _: ChildHandle = h.convert();
                    Obs::ok(short(h.as_str()))
                }
                Err(e) => Obs::error(e),
            },
            "text_aspa" => match AspaDefinition::from_str(text) {
                Ok(d) => {
                    let _ = d.customer_used_as_provider();
                    let _ = d.contains_duplicate_providers();
                    Obs::ok(short(&d.to_string()))
                }
                Err(e) => Obs::error(e),
            },
            "text_uri" => {
                let r = uri::Rsync::from_str(text).map(|u| u.to_string());
                let h = uri::Https::from_str(text).map(|u| u.to_string());
                match (r, h) {
                    (Ok(u), _) | (_, Ok(u)) => Obs::ok(short(&u)),
                    (Err(e), _) => Obs::error(e),
                }
            }
            "text_idcert" => {
                use base64::Engine;
                let der = match base64::engine::general_purpose::STANDARD
                    .decode(text.as_bytes())
                {
                    Ok(d) => d,
                    Err(e) => return Obs::error(format!("base64: {e}")),
                };
                match IdCert::decode(der.as_slice()) {
                    Ok(cert) => match cert.validate_ta() {
                        Ok(()) => Obs::ok("valid"),
                        Err(e) => Obs::error(format!("validate: {e}")),
                    },
                    Err(e) => Obs::error(format!("decode: {e}")),
                }
            }
            "text_ris" => {
                let krill = &self.world.env.krill;
                let (v4, v6): (String, String) = {
                    // lines with ':' in the prefix column go to the v6 dump
                    let mut a = String::new();
                    let mut b = String::new();
                    for line in text.split_inclusive('\n') {
                        if line.split_whitespace().nth(1).map(|p| {
                            p.contains(':')
                        }).unwrap_or(false) {
                            b.push_str(line);
                        } else { a.push_str(line); }
                    }
                    (a, b)
                };
                match krill.bgp_analyser().verif_load_announcements(&v4, &v6)
                {
                    Ok(()) => {
                        // use what was loaded
                        if let Ok(ca) = CaHandle::from_str(&input.ca)
                            && let Ok(ca)
                                = krill.ca_manager().get_ca(&ca)
                        {
                            let defs = ca.configured_roas();
                            let held = ca.all_resources();
                            let report = krill.bgp_analyser().analyse(
                                defs.as_slice(), &held, None
                            );
                            let _ = serde_json::to_string(&report);
                            let s = krill.bgp_analyser().suggest(
                                defs.as_slice(), &held, None
                            );
                            let _ = serde_json::to_string(&s);
                        }
                        Obs::ok("loaded")
                    }
                    Err(e) => Obs::error(e),
                }
            }
            other => Obs::garbled(format!("no parser for {other}")),
        }
    }
}

fn classify_6492(reply: &Bytes) -> Obs {
    match ProvisioningCms::decode(reply.as_ref()) {
        Ok(cms) => {
            let msg = cms.into_message();
            match msg.payload() {
                provisioning::Payload::ErrorResponse(e) => {
                    Obs::error(format!("error_response {}", e.status()))
                }
                other => Obs::ok(format!("{}", other.payload_type())),
            }
        }
        Err(e) => Obs::garbled(format!("reply does not decode: {e}")),
    }
}

fn classify_8181(reply: &Bytes) -> Obs {
    match PublicationCms::decode(reply.as_ref()) {
        Ok(cms) => match cms.into_message() {
            publication::Message::Reply(publication::Reply::ErrorReply(e)) => {
                Obs::error(format!(
                    "report_error {}",
                    e.errors().iter().map(|x| format!("{x:?}"))
                        .collect::<Vec<_>>().join(",")
                ))
            }
            publication::Message::Reply(publication::Reply::List(_)) => {
                Obs::ok("list_reply")
            }
            publication::Message::Reply(publication::Reply::Success) => {
                Obs::ok("success")
            }
            publication::Message::Query(_) => Obs::garbled("query as reply"),
        },
        Err(e) => Obs::garbled(format!("reply does not decode: {e}")),
    }
}


//============ Http ==========================================================

pub struct Http {
    pub dir: PathBuf,
    pub server: MiniServer,
    pub client: HttpClient,
}

impl Http {
    /// Takes over the data directory of a world that was set up directly.
    pub fn start(world: World) -> Result<Self, String> {
        let dir = world.dir.clone();
        let opts = world.env.opts.clone();
        let mem_seed = world.env.mem_seed;
        drop(world);
        let config = Env::config(&dir, &opts, mem_seed)?;
        let server = MiniServer::start(&dir, config)?;
        let client = HttpClient::new(
            crate::client::Target::Unix(server.sock.clone())
        );
        Ok(Http { dir, server, client })
    }

    fn get(&mut self, path: &str) -> (u16, Vec<u8>) {
        match self.client.request(
            "GET", path, &[("Authorization", b"Bearer secret".to_vec())], None
        ) {
            Ok(resp) => (resp.status, resp.body),
            Err(e) => (0, e.into_bytes()),
        }
    }

    fn get_json(&mut self, path: &str) -> Option<Value> {
        let (status, body) = self.get(path);
        if status != 200 {
            return None
        }
        serde_json::from_slice(&body).ok()
    }

    fn part(&mut self, path: &str, drop: &[&str]) -> String {
        let (status, body) = self.get(path);
        if status != 200 {
            return format!("status {status}")
        }
        match serde_json::from_slice::<Value>(&body) {
            Ok(mut v) => {
                if let Some(o) = v.as_object_mut() {
                    for k in drop {
                        o.remove(*k);
                    }
                }
                hash_str(&canon_value(v).to_string())
            }
            Err(_) => hash_str(&String::from_utf8_lossy(&body)),
        }
    }

    /// The same notions as Direct::digest, from what the API shows.
    pub fn digest(&mut self) -> Digests {
        let mut parts = BTreeMap::new();
        let cas: Vec<String> = self.get_json("/api/v1/cas").and_then(|v| {
            v["cas"].as_array().map(|a| a.iter().filter_map(|c| {
                c["handle"].as_str().map(String::from)
            }).collect())
        }).unwrap_or_default();
        let mut cas = cas;
        cas.sort();
        parts.insert("cfg:cas".into(), hash_str(&cas.join(",")));
        for ca in &cas {
            if ca == "ta" {
                continue
            }
            let base = format!("/api/v1/cas/{ca}");
            let info = self.get_json(&base);
            let children: Vec<String> = info.as_ref().and_then(|v| {
                v["children"].as_array().map(|a| a.iter().filter_map(|c| {
                    c.as_str().map(String::from)
                }).collect())
            }).unwrap_or_default();
            parts.insert(format!("cfg:ca:{ca}"), hash_str(
                &info.map(|v| canon_value(v).to_string()).unwrap_or_default()
            ));
            for sub in ["routes", "aspas", "bgpsec", "repo"] {
                let d = self.part(&format!("{base}/{sub}"), &[]);
                parts.insert(format!("cfg:ca:{ca}:{sub}"), d);
            }
            for child in children {
                let d = self.part(&format!("{base}/children/{child}"), &[]);
                parts.insert(format!("cfg:ca:{ca}:child:{child}"), d);
            }
        }
        let (status, _) = self.get("/api/v1/pubd/publishers");
        parts.insert("cfg:repo-init".into(), format!("{}", status == 200));
        let pubs: Vec<String> = self.get_json("/api/v1/pubd/publishers")
            .and_then(|v| {
                v["publishers"].as_array().map(|a| a.iter().filter_map(|c| {
                    c["handle"].as_str().map(String::from)
                }).collect())
            }).unwrap_or_default();
        let mut pubs = pubs;
        pubs.sort();
        let mut pub_cfg = pubs.join(",");
        for p in &pubs {
            let details = self.get_json(
                &format!("/api/v1/pubd/publishers/{p}")
            ).unwrap_or(Value::Null);
            let mut files: Vec<String> = details["current_files"].as_array()
                .map(|a| a.iter().map(|f| {
                    format!("{}:{}", f["uri"], hash_str(
                        f["base64"].as_str().unwrap_or("")
                    ))
                }).collect()).unwrap_or_default();
            files.sort();
            parts.insert(
                format!("pub:files:{p}"), hash_str(&files.join("\n"))
            );
            let mut d = details;
            if let Some(o) = d.as_object_mut() {
                o.remove("current_files");
            }
            pub_cfg.push_str(&canon_value(d).to_string());
        }
        parts.insert("cfg:publishers".into(), hash_str(&pub_cfg));
        let (status, body) = self.get("/rrdp/notification.xml");
        let text = String::from_utf8_lossy(&body);
        let head: String = text.split("<snapshot").next().unwrap_or("")
            .to_string();
        parts.insert("pub:rrdp".into(), format!(
            "{status}:{}", hash_str(&head)
        ));
        let mut names: Vec<String> = self.get_json("/stats/repo").and_then(
            |v| v["publishers"].as_object().map(|o| {
                o.keys().cloned().collect()
            })
        ).unwrap_or_default();
        names.sort();
        parts.insert("pub:content-publishers".into(), names.join(","));
        parts.insert("pub:dir".into(), hash_str(&repo_dir_listing(&self.dir)));
        Digests::from_parts(parts)
    }

    pub fn facts(&mut self) -> Ctx {
        let repo = self.get("/api/v1/pubd/publishers").0 == 200;
        let ca = self.get(&format!("/api/v1/cas/{}", fworld::CA)).0 == 200;
        let child = self.get(&format!(
            "/api/v1/cas/{}/children/{}", fworld::CA, fworld::CHILD
        )).0 == 200;
        let publ = self.get(&format!(
            "/api/v1/pubd/publishers/{}", fworld::PUBLISHER
        )).0 == 200;
        Ctx { repo, ca, child, publ }
    }

    pub fn prelude(&mut self, v: &Vector, input: &Input) -> Option<Obs> {
        for step in &input.prelude {
            let mut one = input.clone();
            one.prelude = Vec::new();
            if step.kind == "flush" {
                // the one API call that applies what is staged right away
                // (src/server/pubd/manager.rs delete_matching_files); the
                // URI matches nothing
                one.method = "POST".into();
                one.path = "/api/v1/pubd/delete".into();
                one.ctype = "application/json".into();
                one.body = format!(
                    "{{\"base_uri\":\"{}zz-flush/\"}}",
                    crate::aworld::RSYNC_BASE
                ).into_bytes();
            }
            else {
                one.body = step.body.clone();
            }
            let obs = self.exec(v, &one);
            if matches!(obs.out.as_str(), "panic" | "exit") {
                return Some(obs)
            }
        }
        None
    }

    pub fn exec(&mut self, v: &Vector, input: &Input) -> Obs {
        // forget what earlier activity may have left
        let _ = take_last_panic();
        let mut headers: Vec<(&str, Vec<u8>)> = vec![
            ("Authorization", b"Bearer secret".to_vec()),
            ("User-Agent", b"kv-fuzz".to_vec()),
        ];
        if !input.ctype.is_empty() {
            headers.push(("Content-Type", input.ctype.clone().into_bytes()));
        }
        let body = if input.method == "GET" && input.body.is_empty() {
            None
        } else { Some(&input.body[..]) };
        let res = self.client.request(
            &input.method, &input.path, &headers, body
        );
        // a panic in a worker or connection task shows in the hook
        if let Some(msg) = take_last_panic() {
            return Obs::panic(&msg)
        }
        match res {
            Ok(resp) => {
                let is_cms = v.kind == "cms"
                    || input.path.starts_with("/rfc6492/")
                    || input.path.starts_with("/rfc8181/");
                if resp.status >= 400 {
                    Obs::error(format!(
                        "{} {}", resp.status,
                        short(&String::from_utf8_lossy(&resp.body))
                    ))
                }
                else if is_cms && resp.status == 200 && input.method == "POST"
                {
                    let bytes = Bytes::from(resp.body);
                    if input.path.starts_with("/rfc6492/") {
                        classify_6492(&bytes)
                    } else { classify_8181(&bytes) }
                }
                else {
                    Obs::ok(format!("{}", resp.status))
                }
            }
            Err(e) => {
                // No reply and no panic: the HTTP layer refused the
                // request by closing the connection (e.g. a request line
                // or body beyond its limits). The process lives and
                // nothing was done: an error reply at transport level.
                Obs::error(format!("connection closed: {e}"))
            }
        }
    }
}

pub fn take_last_panic() -> Option<String> {
    LAST_PANIC.lock().unwrap_or_else(|e| e.into_inner()).take()
}
