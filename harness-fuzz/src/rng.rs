//! Small deterministic generator (SplitMix64): every instance is a function
//! of (seed, vector, instance number).

#[derive(Clone)]
pub struct Rng(u64);

impl Rng {
    pub fn new(seed: u64) -> Self {
        Rng(seed ^ 0x9E37_79B9_7F4A_7C15)
    }

    /// A generator for a named sub-stream.
    pub fn derive(seed: u64, parts: &[&str], n: u64) -> Self {
        let mut h = seed ^ 0xcbf2_9ce4_8422_2325;
        for p in parts {
            for b in p.as_bytes() {
                h ^= *b as u64;
                h = h.wrapping_mul(0x0000_0100_0000_01b3);
            }
            h ^= 0xff;
            h = h.wrapping_mul(0x0000_0100_0000_01b3);
        }
        h ^= n.wrapping_mul(0x9E37_79B9_7F4A_7C15);
        let mut r = Rng(h);
        r.next();
        r
    }

    pub fn next(&mut self) -> u64 {
        self.0 = self.0.wrapping_add(0x9E37_79B9_7F4A_7C15);
        let mut z = self.0;
        z = (z ^ (z >> 30)).wrapping_mul(0xBF58_476D_1CE4_E5B9);
        z = (z ^ (z >> 27)).wrapping_mul(0x94D0_49BB_1331_11EB);
        z ^ (z >> 31)
    }

    /// Uniform in 0..n (n > 0).
    pub fn below(&mut self, n: usize) -> usize {
        if n == 0 { 0 } else { (self.next() % n as u64) as usize }
    }

    /// Uniform in lo..=hi.
    pub fn range(&mut self, lo: i64, hi: i64) -> i64 {
        lo + (self.next() % ((hi - lo + 1) as u64)) as i64
    }

    pub fn coin(&mut self) -> bool {
        self.next() & 1 == 1
    }

    pub fn pick<T: Clone>(&mut self, items: &[T]) -> T {
        items[self.below(items.len())].clone()
    }

    pub fn bytes(&mut self, len: usize) -> Vec<u8> {
        let mut res = Vec::with_capacity(len);
        while res.len() < len {
            let v = self.next().to_le_bytes();
            let take = (len - res.len()).min(8);
            res.extend_from_slice(&v[..take]);
        }
        res
    }

    /// 1..=max random bytes.
    pub fn some_bytes(&mut self, max: usize) -> Vec<u8> {
        let n = 1 + self.below(max);
        self.bytes(n)
    }

    /// Random text of 1..=max characters from a given alphabet.
    pub fn some_text(&mut self, alphabet: &str, max: usize) -> String {
        let n = 1 + self.below(max);
        self.text(alphabet, n)
    }

    /// Random text from a given alphabet.
    pub fn text(&mut self, alphabet: &str, len: usize) -> String {
        let chars: Vec<char> = alphabet.chars().collect();
        (0..len).map(|_| chars[self.below(chars.len())]).collect()
    }
}
