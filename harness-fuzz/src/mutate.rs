//! Concretises a vector (endpoint, class, addressed entity) of
//! Malformed.tla into one input: structured mutations of valid messages
//! and raw random bytes, all functions of the seed.

use base64::Engine;
use base64::engine::general_purpose::STANDARD as B64;
use std::str::FromStr;
use rpki::ca::publication::{
    self, Base64, Publish, PublishDelta, Update, Withdraw,
};
use rpki::uri;
use serde::{Deserialize, Serialize};
use serde_json::{json, Value};
use crate::fworld::{self, Client, Ctx};
use crate::rng::Rng;
use crate::seeds::{self, Harvest};


//------------ Vector, Input -------------------------------------------------

#[derive(Clone, Debug, Deserialize, Serialize)]
pub struct Vector {
    pub e: String,
    pub c: String,
    pub t: String,
    pub chan: String,
    #[serde(default)]
    pub strict: bool,
    #[serde(default)]
    pub kind: String,
}

mod b64 {
    use base64::Engine;
    use base64::engine::general_purpose::STANDARD as B64;
    use serde::{Deserialize, Deserializer, Serializer};

    pub fn serialize<S: Serializer>(v: &[u8], s: S) -> Result<S::Ok, S::Error> {
        s.serialize_str(&B64.encode(v))
    }

    pub fn deserialize<'de, D: Deserializer<'de>>(
        d: D
    ) -> Result<Vec<u8>, D::Error> {
        let s = String::deserialize(d)?;
        B64.decode(s.as_bytes()).map_err(serde::de::Error::custom)
    }
}

/// One concrete input.
#[derive(Clone, Debug, Deserialize, Serialize)]
pub struct Input {
    /// The CA the request addresses (path segment / manager argument).
    pub ca: String,
    /// The second handle: child, publisher, customer ASN.
    pub sub: String,
    pub method: String,
    /// The request path at the HTTP interface.
    pub path: String,
    #[serde(with = "b64")]
    pub body: Vec<u8>,
    /// Content-Type header (HTTP channel only).
    #[serde(default)]
    pub ctype: String,
    /// What was done to the valid message (for people).
    #[serde(default)]
    pub note: String,
    /// Requests to the same endpoint that set the scene and are executed
    /// first (kind "msg"), and "flush": let the publication server turn
    /// what is staged into an RRDP delta.
    #[serde(default)]
    pub prelude: Vec<Step>,
}

#[derive(Clone, Debug, Deserialize, Serialize)]
pub struct Step {
    pub kind: String,
    #[serde(with = "b64", default)]
    pub body: Vec<u8>,
}

impl Step {
    fn msg(body: Vec<u8>) -> Self {
        Step { kind: "msg".into(), body }
    }

    fn flush() -> Self {
        Step { kind: "flush".into(), body: Vec::new() }
    }

    /// The operator of the server removes the CA's parent and adds it
    /// again: the CA's resource class goes away and comes back under the
    /// next name.
    fn renumber() -> Self {
        Step { kind: "renumber".into(), body: Vec::new() }
    }
}

/// What the generator needs to know of the server under test.
pub struct WorldInfo {
    pub ctx: Ctx,
    pub class_name: String,
}

pub struct Gen<'a> {
    pub world: &'a WorldInfo,
    pub client: &'a Client,
    pub harvest: &'a Harvest,
}


//------------ entry point ---------------------------------------------------

impl Gen<'_> {
    pub fn generate(
        &self, v: &Vector, seed: u64, inst: u64
    ) -> Result<Input, String> {
        let mut rng = Rng::derive(
            seed, &[&v.e, &v.c, &v.t, &v.chan, &ctx_tag(self.world)], inst
        );
        let known = v.t == "known";
        let (ca, sub) = self.handles(&v.e, known, &mut rng);
        let (method, path) = seeds::route(&v.e, &ca, &sub);
        let mut input = Input {
            ca, sub, method, path, body: Vec::new(), ctype: String::new(),
            note: String::new(), prelude: Vec::new(),
        };
        match v.kind.as_str() {
            "cms" => self.cms(v, &mut rng, &mut input)?,
            "json" => self.json(v, &mut rng, &mut input)?,
            "path" => self.path(v, known, &mut rng, &mut input)?,
            "text" => self.text(v, &mut rng, &mut input)?,
            other => return Err(format!("unknown kind {other}")),
        }
        Ok(input)
    }

    fn handles(&self, e: &str, known: bool, rng: &mut Rng) -> (String, String) {
        let ca = fworld::CA.to_string();
        let nobody = fworld::NOBODY.to_string();
        match e {
            "rfc6492" => {
                // unknown: the sender is not a child of the CA
                (ca, if known { fworld::CHILD.into() } else { nobody })
            }
            "rfc8181" => {
                (ca, if known { fworld::PUBLISHER.into() } else { nobody })
            }
            "child_update" => {
                (ca, if known { fworld::CHILD.into() } else { nobody })
            }
            "aspa_single" => {
                (if known { ca } else { nobody },
                 format!("AS{}", 64496 + rng.below(8)))
            }
            _ => (if known { ca } else { nobody }, String::new()),
        }
    }
}

fn ctx_tag(world: &WorldInfo) -> String {
    format!("{:?}", world.ctx)
}


//============ CMS ===========================================================

const PROTOCOL_CONTENT_OID: &[u8] = &[
    0x06, 0x0b, 0x2a, 0x86, 0x48, 0x86, 0xf7, 0x0d, 0x01, 0x09, 0x10, 0x01,
    0x1c,
];

impl Gen<'_> {
    fn valid_xml(&self, e: &str, rng: &mut Rng, input: &Input)
        -> Result<Vec<u8>, String>
    {
        if e == "rfc6492" {
            let msg = seeds::msg_6492(
                rng, self.client, &input.sub, &self.harvest_class()
            )?;
            Ok(msg.to_xml_bytes().to_vec())
        }
        else {
            Ok(seeds::msg_8181(rng, &input.sub).to_xml_bytes().to_vec())
        }
    }

    fn harvest_class(&self) -> String {
        if self.world.ctx.child {
            self.world.class_name.clone()
        } else { self.harvest.class_name.clone() }
    }

    fn key_for(&self, e: &str) -> rpki::crypto::KeyIdentifier {
        if e == "rfc6492" { self.client.child_ki } else { self.client.pub_ki }
    }

    fn valid_cms(&self, e: &str, rng: &mut Rng, input: &Input)
        -> Result<Vec<u8>, String>
    {
        self.client.ensure_keys(rng.below(1400));
        let key = self.key_for(e);
        if e == "rfc6492" {
            let msg = seeds::msg_6492(
                rng, self.client, &input.sub, &self.harvest_class()
            )?;
            Ok(self.client.cms_6492(msg, &key)?.to_vec())
        }
        else {
            let msg = seeds::msg_8181(rng, &input.sub);
            Ok(self.client.cms_8181(msg, &key)?.to_vec())
        }
    }

    fn signed(&self, e: &str, rng: &mut Rng, content: Vec<u8>)
        -> Result<Vec<u8>, String>
    {
        self.client.ensure_keys(rng.below(1400));
        Ok(self.client.cms_raw(content, &self.key_for(e))?.to_vec())
    }

    fn cms(&self, v: &Vector, rng: &mut Rng, input: &mut Input)
        -> Result<(), String>
    {
        let e = v.e.as_str();
        input.ctype = if e == "rfc6492" {
            "application/rpki-updown".into()
        } else { "application/rpki-publication".into() };
        let body = match v.c.as_str() {
            "valid" => self.valid_cms(e, rng, input)?,
            "empty" => Vec::new(),
            "random_bytes" => {
                let len = match rng.below(4) {
                    0 => 1 + rng.below(8),
                    1 => 1 + rng.below(300),
                    _ => 1 + rng.below(5000),
                };
                let mut b = rng.bytes(len);
                if b[0] == 0x30 {
                    b[0] = 0x31;
                }
                b
            }
            "truncated" => {
                let b = self.valid_cms(e, rng, input)?;
                let cut = match rng.below(4) {
                    0 => b.len() - 1,
                    1 => 1 + rng.below(16),
                    _ => 1 + rng.below(b.len() - 1),
                };
                b[..cut].to_vec()
            }
            "trailing_bytes" => {
                let mut b = self.valid_cms(e, rng, input)?;
                let extra = rng.some_bytes(64);
                b.extend_from_slice(&extra);
                b
            }
            "tag_flip" | "length_flip" => {
                let mut b = self.valid_cms(e, rng, input)?;
                let (tags, lens) = der_positions(&b);
                let pool = if v.c == "tag_flip" { &tags } else { &lens };
                if pool.is_empty() {
                    return Err("no DER positions found".into())
                }
                for _ in 0..1 + rng.below(2) {
                    let pos = rng.pick(pool);
                    let old = b[pos];
                    b[pos] = match rng.below(4) {
                        0 => old ^ (1 << rng.below(8)),
                        1 => 0xff,
                        2 => 0x80,
                        _ => old.wrapping_add(1 + rng.below(254) as u8),
                    };
                    input.note = format!("{} at {pos}: {old:02x}->{:02x}",
                                         v.c, b[pos]);
                }
                b
            }
            "byte_flip" => {
                let mut b = self.valid_cms(e, rng, input)?;
                for _ in 0..1 + rng.below(3) {
                    let pos = rng.below(b.len());
                    b[pos] ^= 1 << rng.below(8);
                }
                b
            }
            "splice" => {
                let a = self.valid_cms(e, rng, input)?;
                let b2 = self.valid_cms(e, rng, input)?;
                let cut_a = rng.below(a.len());
                let cut_b = rng.below(b2.len());
                let mut res = a[..cut_a].to_vec();
                match rng.below(3) {
                    0 => res.extend_from_slice(&b2[cut_b..]),
                    1 => {
                        // duplicate a slice of itself
                        let end = (cut_a + 1 + rng.below(200)).min(a.len());
                        res.extend_from_slice(&a[cut_a..end]);
                        res.extend_from_slice(&a[cut_a..]);
                    }
                    _ => {
                        // drop a slice
                        let skip = (cut_a + 1 + rng.below(200)).min(a.len());
                        res.extend_from_slice(&a[skip..]);
                    }
                }
                res
            }
            "wrong_econtent_type" => {
                let mut b = self.valid_cms(e, rng, input)?;
                let pos = find(&b, PROTOCOL_CONTENT_OID).ok_or(
                    "content type OID not found"
                )?;
                let last = pos + PROTOCOL_CONTENT_OID.len() - 1;
                b[last] = rng.pick(&[0x18u8, 0x1a, 0x1b, 0x23, 0x00, 0x7f]);
                b
            }
            "unknown_signer" => {
                self.client.ensure_keys(rng.below(1400));
                let key = self.client.stranger_ki;
                if e == "rfc6492" {
                    let msg = seeds::msg_6492(
                        rng, self.client, &input.sub, &self.harvest_class()
                    )?;
                    self.client.cms_6492(msg, &key)?.to_vec()
                }
                else {
                    self.client.cms_8181(
                        seeds::msg_8181(rng, &input.sub), &key
                    )?.to_vec()
                }
            }
            "signed_garbage" => {
                let content = match rng.below(4) {
                    0 => Vec::new(),
                    1 => {
                        let mut b = rng.some_bytes(2000);
                        if b[0] == b'<' { b[0] = b'>' }
                        b
                    }
                    2 => b"not xml at all".to_vec(),
                    _ => b"{\"json\": true}".to_vec(),
                };
                self.signed(e, rng, content)?
            }
            "signed_xml_truncated" => {
                let xml = self.valid_xml(e, rng, input)?;
                // cut inside the document: before the final '>'
                let cut = 1 + rng.below(xml.len() - 2);
                self.signed(e, rng, xml[..cut].to_vec())?
            }
            "signed_wrong_root" => {
                let xml = String::from_utf8_lossy(
                    &self.valid_xml(e, rng, input)?
                ).into_owned();
                let root = if e == "rfc6492" { "message" } else { "msg" };
                let other = rng.pick(&["foo", "msgs", "Message", "x:message"]);
                let xml = xml.replacen(
                    &format!("<{root} "), &format!("<{other} "), 1
                ).replace(
                    &format!("</{root}>"), &format!("</{other}>")
                );
                self.signed(e, rng, xml.into_bytes())?
            }
            "signed_reply_as_request" => {
                let xml = if e == "rfc6492" {
                    let sender = &input.sub;
                    let typ = rng.pick(&[
                        "list_response", "issue_response",
                        "revoke_response", "error_response",
                    ]);
                    let inner = if typ == "error_response" {
                        "<status>1101</status><description xml:lang=\"en-US\">x</description>"
                    } else { "" };
                    format!(
                        "<message xmlns=\"http://www.apnic.net/specs/rescerts/up-down/\" \
                         version=\"1\" sender=\"{sender}\" recipient=\"ca\" \
                         type=\"{typ}\">{inner}</message>"
                    ).into_bytes()
                }
                else {
                    match rng.below(2) {
                        0 => publication::Message::success(),
                        _ => publication::Message::list_reply(
                            publication::ListReply::empty()
                        ),
                    }.to_xml_bytes().to_vec()
                };
                self.signed(e, rng, xml)?
            }
            "signed_other_protocol" => {
                let other = if e == "rfc6492" { "rfc8181" } else { "rfc6492" };
                let mut inp = input.clone();
                if other == "rfc6492" {
                    inp.sub = fworld::CHILD.into();
                }
                let xml = self.valid_xml(other, rng, &inp)?;
                self.signed(e, rng, xml)?
            }
            "signed_xml_extra_attr" | "signed_xml_extra_element"
            | "signed_xml_odd_values" | "signed_xml_wrong_version"
            | "signed_xml_huge" => {
                let xml = String::from_utf8_lossy(
                    &self.valid_xml(e, rng, input)?
                ).into_owned();
                let (xml, note) = mutate_xml(&v.c["signed_xml_".len()..],
                                             &xml, rng);
                input.note = note;
                self.signed(e, rng, xml.into_bytes())?
            }
            "http_content_type" => {
                input.ctype = rng.pick(&[
                    "text/plain", "application/json", "",
                    "application/rpki-updown; charset=utf-8",
                    "multipart/form-data; boundary=x",
                ]).to_string();
                self.valid_cms(e, rng, input)?
            }
            c if c.starts_with("delta_") => self.delta(c, rng, input)?,
            "updown_revoke_renumbered" if v.chan != "direct"
                || !self.world.ctx.child =>
            {
                // (the scene needs the operator's hand: direct channel)
                self.updown("updown_revoke_twice", rng, input)?
            }
            c if c.starts_with("updown_") => self.updown(c, rng, input)?,
            other => return Err(format!("unknown cms class {other}")),
        };
        input.body = body;
        Ok(())
    }

    fn sign_8181(&self, rng: &mut Rng, delta: PublishDelta)
        -> Result<Vec<u8>, String>
    {
        self.client.ensure_keys(rng.below(1400));
        Ok(self.client.cms_8181(
            publication::Message::delta(delta), &self.client.pub_ki
        )?.to_vec())
    }

    /// Valid, correctly signed deltas of the publisher whose elements
    /// collide with each other, with an object published before (prelude,
    /// flushed into the snapshot or still staged) or with what the
    /// preceding delta left staged.
    fn delta(&self, c: &str, rng: &mut Rng, input: &mut Input)
        -> Result<Vec<u8>, String>
    {
        let base = format!("{}{}/", crate::aworld::RSYNC_BASE, input.sub);
        let uri = uri::Rsync::from_str(&format!(
            "{base}c/o{:08x}.cer", rng.next() as u32
        )).map_err(|e| e.to_string())?;
        let c1 = Base64::from_content(&rng.some_bytes(48));
        let c2 = Base64::from_content(&rng.some_bytes(48));
        let c3 = if rng.coin() { c2.clone() } else {
            Base64::from_content(&rng.some_bytes(48))
        };
        let h1 = c1.to_hash();
        let h2 = c2.to_hash();
        let publish = |c: &Base64| Publish::new(None, uri.clone(), c.clone());
        let update = |c: &Base64, h: rpki::rrdp::Hash| {
            Update::new(None, uri.clone(), c.clone(), h)
        };
        let withdraw = |h: rpki::rrdp::Hash| {
            Withdraw::new(None, uri.clone(), h)
        };
        // the object exists before the judged delta (with content c1),
        // in the snapshot or only staged
        let existing = |this: &Self, rng: &mut Rng, input: &mut Input|
            -> Result<bool, String>
        {
            let mut d = PublishDelta::empty();
            d.add_publish(publish(&c1));
            input.prelude.push(Step::msg(this.sign_8181(rng, d)?));
            let flushed = rng.below(4) != 0;
            if flushed {
                input.prelude.push(Step::flush());
            }
            Ok(flushed)
        };
        let mut d = PublishDelta::empty();
        match c {
            "delta_dup_publish" => {
                d.add_publish(publish(&c1));
                d.add_publish(publish(&c3));
                if rng.below(4) == 0 {
                    d.add_publish(publish(&c2));
                }
                input.note = "publish x2 of a new URI".into();
            }
            "delta_dup_withdraw" => {
                let fl = existing(self, rng, input)?;
                d.add_withdraw(withdraw(h1));
                d.add_withdraw(withdraw(h1));
                input.note = format!("withdraw x2 of an object (flushed {fl})");
            }
            "delta_publish_withdraw" => {
                if rng.coin() {
                    d.add_publish(publish(&c1));
                    d.add_withdraw(withdraw(h1));
                    input.note = "publish + withdraw of a new URI".into();
                }
                else {
                    let fl = existing(self, rng, input)?;
                    d.add_publish(publish(&c2));
                    d.add_withdraw(withdraw(h1));
                    input.note = format!(
                        "publish + withdraw of an object (flushed {fl})"
                    );
                }
            }
            "delta_update_withdraw" => {
                let fl = existing(self, rng, input)?;
                d.add_update(update(&c2, h1));
                d.add_withdraw(withdraw(if rng.coin() { h1 } else { h2 }));
                input.note = format!(
                    "update + withdraw of an object (flushed {fl})"
                );
            }
            "delta_dup_update" => {
                let fl = existing(self, rng, input)?;
                d.add_update(update(&c2, h1));
                d.add_update(update(&c3, if rng.coin() { h1 } else { h2 }));
                input.note = format!("update x2 of an object (flushed {fl})");
            }
            "delta_publish_existing_twice" => {
                let fl = existing(self, rng, input)?;
                d.add_publish(publish(&c2));
                d.add_publish(publish(&c3));
                input.note = format!(
                    "publish x2 of an existing object (flushed {fl})"
                );
            }
            "delta_staged_collision" => {
                // first delta (staged, no RRDP update), then the judged one
                let mut first = PublishDelta::empty();
                let kind = rng.below(8);
                let note = match kind {
                    0 => {
                        first.add_publish(publish(&c1));
                        d.add_publish(publish(&c2));
                        "publish, then publish again"
                    }
                    1 => {
                        first.add_publish(publish(&c1));
                        d.add_withdraw(withdraw(h1));
                        "publish, then withdraw"
                    }
                    2 => {
                        first.add_publish(publish(&c1));
                        d.add_update(update(&c2, h1));
                        "publish, then update"
                    }
                    3 => {
                        existing(self, rng, input)?;
                        first.add_withdraw(withdraw(h1));
                        d.add_withdraw(withdraw(h1));
                        "object, withdraw, then withdraw again"
                    }
                    4 => {
                        existing(self, rng, input)?;
                        first.add_withdraw(withdraw(h1));
                        d.add_publish(publish(&c2));
                        "object, withdraw, then publish"
                    }
                    5 => {
                        existing(self, rng, input)?;
                        first.add_withdraw(withdraw(h1));
                        d.add_update(update(&c2, h1));
                        "object, withdraw, then update"
                    }
                    6 => {
                        existing(self, rng, input)?;
                        first.add_update(update(&c2, h1));
                        d.add_withdraw(withdraw(
                            if rng.coin() { h1 } else { h2 }
                        ));
                        "object, update, then withdraw"
                    }
                    _ => {
                        existing(self, rng, input)?;
                        first.add_update(update(&c2, h1));
                        d.add_update(update(
                            &c3, if rng.coin() { h1 } else { h2 }
                        ));
                        "object, update, then update"
                    }
                };
                input.prelude.push(Step::msg(self.sign_8181(rng, first)?));
                input.note = note.into();
            }
            other => return Err(format!("unknown delta class {other}")),
        }
        self.sign_8181(rng, d)
    }

    /// Valid, correctly signed requests of the child about one key, in
    /// quick succession.
    fn updown(&self, c: &str, rng: &mut Rng, input: &mut Input)
        -> Result<Vec<u8>, String>
    {
        let class = self.harvest_class();
        let key = if rng.coin() {
            self.client.child_ca_key
        } else { self.client.spare_ca_key };
        let sender = input.sub.clone();
        let sign_in = |this: &Self, rng: &mut Rng, kind: &str, class: &str|
            -> Result<Vec<u8>, String>
        {
            this.client.ensure_keys(rng.below(1400));
            let msg = seeds::msg_6492_for_key(
                kind, this.client, &sender, class, &key
            )?;
            Ok(this.client.cms_6492(msg, &this.client.child_ki)?.to_vec())
        };
        let sign = |this: &Self, rng: &mut Rng, kind: &str| {
            sign_in(this, rng, kind, &class)
        };
        if c == "updown_revoke_renumbered" {
            // a certificate under the class as it is named now; the class
            // goes away and comes back under the next name; the key is
            // revoked (or certified again) naming the class of that moment
            let next = class.parse::<u32>().map(|n| (n + 1).to_string())
                .unwrap_or_else(|_| class.clone());
            input.prelude.push(Step::msg(sign(self, rng, "issue")?));
            input.prelude.push(Step::renumber());
            let last = if rng.below(4) == 0 { "issue" } else { "revoke" };
            input.note = format!(
                "issue in class {class}, class renumbered, {last} naming \
                 class {next}"
            );
            return sign_in(self, rng, last, &next)
        }
        let (pre, last): (&[&str], &str) = match c {
            "updown_issue_twice" => (&["issue"], "issue"),
            "updown_revoke_issue" => (&["issue", "revoke"], "issue"),
            "updown_issue_revoke" => (&["issue"], "revoke"),
            "updown_revoke_twice" => (&["issue", "revoke"], "revoke"),
            other => return Err(format!("unknown updown class {other}")),
        };
        for kind in pre {
            let bytes = sign(self, rng, kind)?;
            input.prelude.push(Step::msg(bytes));
        }
        input.note = format!("{} then {last}", pre.join(", "));
        sign(self, rng, last)
    }
}

/// Positions of the tag bytes and of the length bytes of a DER structure.
pub fn der_positions(data: &[u8]) -> (Vec<usize>, Vec<usize>) {
    fn walk(
        data: &[u8], mut pos: usize, end: usize, depth: usize,
        tags: &mut Vec<usize>, lens: &mut Vec<usize>,
    ) {
        while pos + 2 <= end && depth < 24 {
            let tag = data[pos];
            if tag & 0x1f == 0x1f {
                return
            }
            tags.push(pos);
            let l0 = data[pos + 1];
            let (len, hdr) = if l0 & 0x80 == 0 {
                lens.push(pos + 1);
                (l0 as usize, 2)
            }
            else {
                let n = (l0 & 0x7f) as usize;
                if n == 0 || n > 4 || pos + 2 + n > end {
                    return
                }
                let mut len = 0usize;
                for i in 0..n {
                    lens.push(pos + 1 + i);
                    len = (len << 8) | data[pos + 2 + i] as usize;
                }
                lens.push(pos + 1 + n);
                (len, 2 + n)
            };
            let start = pos + hdr;
            let Some(stop) = start.checked_add(len) else { return };
            if stop > end {
                return
            }
            if tag & 0x20 != 0 {
                walk(data, start, stop, depth + 1, tags, lens);
            }
            else if tag == 0x04 && len > 2 && data[start] == 0x30 {
                // octet string wrapping DER
                walk(data, start, stop, depth + 1, tags, lens);
            }
            pos = stop;
        }
    }
    let mut tags = Vec::new();
    let mut lens = Vec::new();
    walk(data, 0, data.len(), 0, &mut tags, &mut lens);
    (tags, lens)
}

pub fn find(hay: &[u8], needle: &[u8]) -> Option<usize> {
    hay.windows(needle.len()).position(|w| w == needle)
}

const ODD_ATTR_VALUES: &[&str] = &[
    "", " ", "0", "-1", "4294967296", "18446744073709551616", "AS0",
    "AS4294967296", "10.0.0.0/33", "10.0.0.1/8", "::/129", "0.0.0.0/0",
    "AS1-AS0", "10.0.0.0-9.0.0.0", "../../..", "rsync://", "rsync://x",
    "https://", "zz", "&amp;&lt;", "\u{fffd}", "a b", "all", "inherit",
    "1e9", "0x10", "\u{202e}abc",
];

/// Mutations of a well-formed XML document (text level).
pub fn mutate_xml(kind: &str, xml: &str, rng: &mut Rng) -> (String, String) {
    let tag_ends: Vec<usize> = xml.char_indices().filter(|(i, c)| {
        *c == '>' && *i > 0 && !xml[..*i].ends_with('?')
    }).map(|(i, _)| i).collect();
    match kind {
        "extra_attr" | "extra" => {
            // into a start tag: before '>' or '/>' of a tag that is not a
            // closing tag
            let starts: Vec<usize> = tag_ends.iter().copied().filter(|end| {
                let open = xml[..*end].rfind('<').unwrap_or(0);
                !xml[open..].starts_with("</")
                    && !xml[open..].starts_with("<?")
            }).collect();
            if kind == "extra" && rng.coin() || starts.is_empty() {
                return mutate_xml("extra_element", xml, rng)
            }
            let end = rng.pick(&starts);
            let at = if xml[..end].ends_with('/') { end - 1 } else { end };
            let attr = rng.pick(&[
                " bogus=\"1\"", " xmlns:x=\"urn:x\" x:y=\"z\"",
                " version=\"9\"", " type=\"list\"", " uri=\"rsync://x/y\"",
                " hash=\"00\"", " tag=\"\"",
            ]);
            let mut s = xml.to_string();
            s.insert_str(at, attr);
            (s, format!("attribute{attr} at {at}"))
        }
        "extra_element" => {
            let end = rng.pick(&tag_ends);
            let el = rng.pick(&[
                "<bogus/>", "<bogus a=\"1\">text</bogus>", "<!-- c -->",
                "<class/>", "<publish/>", "<withdraw/>", "<list/>",
                "<![CDATA[x]]>", "stray text", "<request/>", "<key/>",
            ]);
            let mut s = xml.to_string();
            s.insert_str(end + 1, el);
            (s, format!("element {el} at {}", end + 1))
        }
        "odd_values" => {
            // attribute values and element text
            let mut spots: Vec<(usize, usize)> = Vec::new();
            let bytes = xml.as_bytes();
            let mut i = 0;
            while i + 1 < bytes.len() {
                if bytes[i] == b'=' && bytes[i + 1] == b'"' {
                    if let Some(len) = xml[i + 2..].find('"') {
                        spots.push((i + 2, i + 2 + len));
                        i += 2 + len;
                    }
                }
                i += 1;
            }
            for w in tag_ends.windows(1) {
                let start = w[0] + 1;
                if let Some(len) = xml[start..].find('<') {
                    if len > 0 {
                        spots.push((start, start + len));
                    }
                }
            }
            if spots.is_empty() {
                return mutate_xml("extra_element", xml, rng)
            }
            let (a, b) = rng.pick(&spots);
            let old = &xml[a..b];
            let new: String = match rng.below(5) {
                0 => ODD_ATTR_VALUES[rng.below(ODD_ATTR_VALUES.len())]
                    .to_string(),
                1 => old[..rng.below(old.len().max(1))].to_string(),
                2 => format!("{old}{old}"),
                3 => "A".repeat(1 + rng.below(70000)),
                _ => {
                    let mut cs: Vec<char> = old.chars().collect();
                    if !cs.is_empty() {
                        let p = rng.below(cs.len());
                        cs[p] = rng.pick(&['!', '=', ' ', '0', 'Z', '/', '%']);
                    }
                    cs.into_iter().collect()
                }
            };
            let mut s = xml.to_string();
            s.replace_range(a..b, &new);
            let shown: String = new.chars().take(40).collect();
            (s, format!("value at {a}: {:?} -> {shown:?}",
                        &old.chars().take(40).collect::<String>()))
        }
        "wrong_version" => {
            let new = rng.pick(&["2", "0", "-1", "", "1.0", "4294967297"]);
            // the message version: 1 (RFC 6492), 4 (RFC 8181)
            let s = if xml.contains("version=\"1\"") {
                xml.replacen("version=\"1\"", &format!("version=\"{new}\""), 1)
            } else {
                xml.replacen("version=\"4\"", &format!("version=\"{new}\""), 1)
            };
            (s, format!("version {new:?}"))
        }
        "huge" => {
            let end = rng.pick(&tag_ends);
            let mut s = xml.to_string();
            let n = 200_000 + rng.below(1_800_000);
            match rng.below(3) {
                0 => s.insert_str(end + 1, &format!("<!--{}-->", "x".repeat(n))),
                1 => s.insert_str(end + 1, &"<a>".repeat(n / 20)),
                _ => s.insert_str(end + 1, &" ".repeat(n)),
            }
            (s, format!("{n} bytes inserted at {}", end + 1))
        }
        "garbage" => {
            let mut b = String::from("<");
            b.push_str(&rng.some_text(
                "abc<>/=\"' &;!?-[]\u{0}\u{7f}xyz01", 300
            ));
            (b, "garbage".into())
        }
        "truncated" => {
            let mut cut = 1 + rng.below(xml.len() - 2);
            while !xml.is_char_boundary(cut) { cut -= 1 }
            (xml[..cut].to_string(), format!("cut at {cut}"))
        }
        "wrong_root" => {
            // rename the document element
            let open = xml.find("<?").map(|_| {
                xml.find("?>").map(|p| p + 2).unwrap_or(0)
            }).unwrap_or(0);
            let rest = &xml[open..];
            let lt = rest.find('<').unwrap_or(0);
            let name_end = rest[lt + 1..].find(|c: char| {
                c.is_whitespace() || c == '>' || c == '/'
            }).unwrap_or(0);
            let name = rest[lt + 1..lt + 1 + name_end].to_string();
            let other = rng.pick(&["foo", "parent_response", "repository_response",
                                    "child_request", "x:y"]);
            let other = if other == name { "foo" } else { other };
            let s = xml.replacen(
                &format!("<{name}"), &format!("<{other}"), 1
            ).replace(&format!("</{name}>"), &format!("</{other}>"));
            (s, format!("root {name} -> {other}"))
        }
        _ => (xml.to_string(), "unchanged".into()),
    }
}


//============ JSON ==========================================================

/// Raw literal insertion: values and keys that serde_json::Value cannot
/// hold are put in as tokens and replaced in the serialised text.
#[derive(Default)]
struct Raw {
    lits: Vec<String>,
    keys: Vec<String>,
}

impl Raw {
    fn lit(&mut self, text: &str) -> Value {
        self.lits.push(text.into());
        Value::String(format!("@@RAW{}@@", self.lits.len() - 1))
    }

    fn key(&mut self, real: &str) -> String {
        self.keys.push(real.into());
        format!("@@KEY{}@@", self.keys.len() - 1)
    }

    fn render(&self, v: &Value) -> Vec<u8> {
        let mut text = serde_json::to_string(v).unwrap();
        for (i, lit) in self.lits.iter().enumerate() {
            text = text.replace(&format!("\"@@RAW{i}@@\""), lit);
        }
        for (i, key) in self.keys.iter().enumerate() {
            text = text.replace(
                &format!("\"@@KEY{i}@@\""),
                &serde_json::to_string(key).unwrap()
            );
        }
        text.into_bytes()
    }
}

#[derive(Clone, Debug)]
enum Seg {
    Key(String),
    Idx(usize),
}

type JPath = Vec<Seg>;

fn all_paths(v: &Value) -> Vec<JPath> {
    fn walk(v: &Value, cur: &mut JPath, out: &mut Vec<JPath>) {
        out.push(cur.clone());
        match v {
            Value::Object(map) => {
                for (k, child) in map {
                    cur.push(Seg::Key(k.clone()));
                    walk(child, cur, out);
                    cur.pop();
                }
            }
            Value::Array(items) => {
                for (i, child) in items.iter().enumerate() {
                    cur.push(Seg::Idx(i));
                    walk(child, cur, out);
                    cur.pop();
                }
            }
            _ => { }
        }
    }
    let mut out = Vec::new();
    walk(v, &mut Vec::new(), &mut out);
    out
}

fn get<'a>(v: &'a Value, path: &[Seg]) -> &'a Value {
    let mut cur = v;
    for seg in path {
        cur = match seg {
            Seg::Key(k) => &cur[k.as_str()],
            Seg::Idx(i) => &cur[*i],
        };
    }
    cur
}

fn get_mut<'a>(v: &'a mut Value, path: &[Seg]) -> &'a mut Value {
    let mut cur = v;
    for seg in path {
        cur = match seg {
            Seg::Key(k) => &mut cur[k.as_str()],
            Seg::Idx(i) => &mut cur[*i],
        };
    }
    cur
}

fn last_key(path: &[Seg]) -> Option<&str> {
    // the key under which the node (or the array holding it) sits
    for seg in path.iter().rev() {
        if let Seg::Key(k) = seg {
            return Some(k.as_str())
        }
    }
    None
}

fn select(v: &Value, pred: impl Fn(&[Seg], &Value) -> bool) -> Vec<JPath> {
    all_paths(v).into_iter().filter(|p| pred(p, get(v, p))).collect()
}

fn is_roa(node: &Value) -> bool {
    node.as_object().map(|o| {
        o.contains_key("prefix") && o.contains_key("asn")
    }).unwrap_or(false)
}

fn is_resources(node: &Value) -> bool {
    node.as_object().map(|o| {
        o.contains_key("ipv4") && o.contains_key("ipv6")
            && o.contains_key("asn")
    }).unwrap_or(false)
}

const HANDLE_KEYS: &[&str] = &[
    "handle", "name", "publisher_handle", "child_handle", "parent_handle",
];
const CERT_KEYS: &[&str] = &["id_cert", "csr"];
const ASN_LIST_KEYS: &[&str] = &[
    "providers", "remove", "added", "removed",
];

fn other_type(node: &Value, rng: &mut Rng) -> Value {
    let options = [
        json!("text"), json!(7), json!(true), json!(null), json!([]),
        json!({}), json!([1, "a"]), json!({"a": 1}), json!(1.5), json!("7"),
        json!(false), json!([[]]), json!(""),
    ];
    for _ in 0..20 {
        let cand = rng.pick(&options).clone();
        if std::mem::discriminant(&cand) != std::mem::discriminant(node) {
            return cand
        }
    }
    Value::Null
}

fn prefix_len(node: &Value) -> Option<(bool, u32)> {
    let s = node.get("prefix")?.as_str()?;
    let (addr, len) = s.split_once('/')?;
    Some((addr.contains(':'), len.parse().ok()?))
}

impl Gen<'_> {
    fn json(&self, v: &Vector, rng: &mut Rng, input: &mut Input)
        -> Result<(), String>
    {
        // not every valid message has every kind of value in it: take
        // another one if the class has nothing to work on
        let mut last = String::new();
        for _ in 0..40 {
            let mut attempt = input.clone();
            match self.json_once(v, rng, &mut attempt) {
                Ok(()) => {
                    *input = attempt;
                    return Ok(())
                }
                Err(e) if e.contains("nothing to apply") => last = e,
                Err(e) => return Err(e),
            }
        }
        Err(last)
    }

    fn json_once(&self, v: &Vector, rng: &mut Rng, input: &mut Input)
        -> Result<(), String>
    {
        let e = v.e.as_str();
        let c = v.c.as_str();
        input.ctype = "application/json".into();
        let seed = seeds::json_seed(
            e, rng, self.client, self.harvest, self.world.ctx.ca
        ).ok_or_else(|| format!("no seed for {e}"))?;
        if e == "child_import" {
            // the name in the body must be the one in the path
            input.sub = seed["name"].as_str().unwrap_or("x").to_string();
            input.path = seeds::route(e, &input.ca, &input.sub).1;
        }
        let mut raw = Raw::default();
        let mut val = seed.clone();
        let valid_text = serde_json::to_vec(&seed).unwrap();

        // --- classes on the serialised text
        let body: Option<Vec<u8>> = match c {
            "valid" => Some(valid_text.clone()),
            "empty" => Some(match rng.below(3) {
                0 => Vec::new(), 1 => b" ".to_vec(), _ => b"\n\t ".to_vec(),
            }),
            "not_json" => {
                let mut b = rng.some_bytes(600);
                // not the start of a JSON (or XML) document
                let bad = rng.pick(&[b'}', b']', b',', b':', b'x', 0u8,
                                      0xff, b'\'', b'>', b'@']);
                b[0] = bad;
                Some(b)
            }
            "truncated" => {
                let cut = match rng.below(3) {
                    0 => valid_text.len() - 1,
                    _ => 1 + rng.below(valid_text.len() - 1),
                };
                Some(valid_text[..cut].to_vec())
            }
            "root_scalar" => Some(rng.pick(&[
                &b"true"[..], b"false", b"7", b"-1", b"1.5", b"\"text\"",
                b"\"\"", b"0",
            ]).to_vec()),
            "deep_nesting" => {
                let n = 200 + rng.below(100_000);
                Some(match rng.below(3) {
                    0 => "[".repeat(n).into_bytes(),
                    1 => "{\"a\":".repeat(n).into_bytes(),
                    _ => {
                        let mut s = "[".repeat(n);
                        s.push_str(&"]".repeat(n));
                        s.into_bytes()
                    }
                })
            }
            "trailing_garbage" => {
                let mut b = valid_text.clone();
                b.extend_from_slice(rng.pick(&[
                    &b"}"[..], b"x", b"{}", b"\0", b",", b"]", b"null",
                ]));
                Some(b)
            }
            "byte_flip" => {
                let mut b = valid_text.clone();
                for _ in 0..1 + rng.below(3) {
                    let pos = rng.below(b.len());
                    b[pos] ^= 1 << rng.below(8);
                }
                Some(b)
            }
            "xml_valid" | "xml_garbage" | "xml_truncated" | "xml_extra"
            | "xml_wrong_root" => {
                let xml = seeds::xml_seed(e, self.harvest).ok_or_else(|| {
                    format!("{e} has no XML form")
                })?;
                input.ctype = "application/xml".into();
                let xml = String::from_utf8_lossy(&xml).into_owned();
                if c == "xml_valid" {
                    Some(xml.into_bytes())
                }
                else {
                    let (s, note) = mutate_xml(&c[4..], &xml, rng);
                    input.note = note;
                    Some(s.into_bytes())
                }
            }
            _ => None,
        };
        if let Some(body) = body {
            input.body = body;
            return Ok(())
        }

        // --- classes on the tree
        let paths = all_paths(&val);
        let pick_where = |rng: &mut Rng, sel: Vec<JPath>| -> Option<JPath> {
            if sel.is_empty() { None } else { Some(rng.pick(&sel).clone()) }
        };
        let need = |p: Option<JPath>| -> Result<JPath, String> {
            p.ok_or_else(|| format!("{e}: nothing to apply {c} to"))
        };
        match c {
            "wrong_type" => {
                let p = rng.pick(&paths).clone();
                let new = other_type(get(&val, &p), rng);
                input.note = format!("{p:?} := {new}");
                *get_mut(&mut val, &p) = new;
            }
            "huge_number" | "negative_number" | "float_number" => {
                // numbers, or strings that hold numbers, else any leaf
                let nums = select(&val, |_, n| n.is_number());
                let leafs = select(&val, |_, n| {
                    !n.is_object() && !n.is_array()
                });
                let use_leafs = nums.is_empty() || rng.below(5) == 0;
                let p = need(pick_where(
                    rng, if use_leafs { leafs } else { nums }
                ))?;
                let lit = match c {
                    "huge_number" => rng.pick(&[
                        "256", "65536", "4294967295", "4294967296",
                        "9223372036854775808", "18446744073709551615",
                        "18446744073709551616",
                        "340282366920938463463374607431768211456",
                        "1e400", "1e19", "99999999999999999999999999999999",
                    ]),
                    "negative_number" => rng.pick(&[
                        "-1", "-0", "-128", "-9223372036854775808",
                        "-9223372036854775809", "-1e400",
                    ]),
                    _ => rng.pick(&[
                        "1.5", "24.0", "1e1", "0.1e2", "NaN", "Infinity",
                        "2.4e1", "1E-400", "0x18", "030", ".5", "5.",
                    ]),
                };
                input.note = format!("{p:?} := {lit}");
                *get_mut(&mut val, &p) = raw.lit(lit);
            }
            "missing_field" => {
                let sel = select(&val, |_, n| {
                    n.as_object().map(|o| !o.is_empty()).unwrap_or(false)
                });
                let p = need(pick_where(rng, sel))?;
                let obj = get_mut(&mut val, &p).as_object_mut().unwrap();
                let keys: Vec<String> = obj.keys().cloned().collect();
                let k = rng.pick(&keys).clone();
                obj.remove(&k);
                input.note = format!("removed {k} at {p:?}");
            }
            "extra_field" => {
                let sel = select(&val, |_, n| n.is_object());
                let p = need(pick_where(rng, sel))?;
                let k = rng.pick(&[
                    "bogus", "", "comment", "handle", "version", "asn",
                    "max_length", "resources", "__proto__", "\u{0}",
                ]);
                let nv = other_type(&Value::Null, rng);
                get_mut(&mut val, &p).as_object_mut().unwrap()
                    .entry(k.to_string()).or_insert(nv);
                input.note = format!("added {k:?} at {p:?}");
            }
            "dup_key" => {
                let sel = select(&val, |_, n| {
                    n.as_object().map(|o| !o.is_empty()).unwrap_or(false)
                });
                let p = need(pick_where(rng, sel))?;
                let obj = get_mut(&mut val, &p).as_object_mut().unwrap();
                let keys: Vec<String> = obj.keys().cloned().collect();
                let k = rng.pick(&keys).clone();
                let copy = if rng.coin() {
                    obj[&k].clone()
                } else { other_type(&obj[&k], rng) };
                let token = raw.key(&k);
                obj.insert(token, copy);
                input.note = format!("duplicated key {k} at {p:?}");
            }
            "dup_entry" => {
                let sel = select(&val, |_, n| {
                    n.as_array().map(|a| !a.is_empty()).unwrap_or(false)
                });
                match pick_where(rng, sel) {
                    Some(p) => {
                        let arr = get_mut(&mut val, &p).as_array_mut()
                            .unwrap();
                        let i = rng.below(arr.len());
                        let copy = arr[i].clone();
                        let times = rng.pick(&[1usize, 1, 2, 50, 3000]);
                        for _ in 0..times {
                            arr.push(copy.clone());
                        }
                        input.note = format!("entry {i} of {p:?} x{times}");
                    }
                    None => {
                        // no list in this message: the whole body twice
                        let mut b = valid_text.clone();
                        b.extend_from_slice(&valid_text);
                        input.body = b;
                        input.note = "document twice".into();
                        return Ok(())
                    }
                }
            }
            "empty_string" | "long_string" | "unicode_string" => {
                let sel = select(&val, |_, n| n.is_string());
                let p = match pick_where(rng, sel) {
                    Some(p) => p,
                    None => rng.pick(&paths).clone(),
                };
                let new = match c {
                    "empty_string" => json!(""),
                    "long_string" => json!(
                        rng.pick(&["A", "10.0.0.0/8,", "AS1,", "/", "ä"])
                            .repeat(1 + rng.below(200_000))
                    ),
                    _ => match rng.below(6) {
                        0 => raw.lit("\"\\ud800\""),
                        1 => raw.lit("\"\\u0000\""),
                        2 => json!("\u{202e}\u{feff}ca"),
                        3 => json!("ｃａ１０．０．０．０／８"),
                        4 => raw.lit("\"\\x41\""),
                        _ => json!("ca\u{0301}\u{1f600}"),
                    },
                };
                input.note = format!("{p:?} := {c}");
                *get_mut(&mut val, &p) = new;
            }
            "null_value" => {
                let p = rng.pick(&paths).clone();
                input.note = format!("{p:?} := null");
                *get_mut(&mut val, &p) = Value::Null;
            }

            // --- ROA payloads
            "maxlen_lt_len" | "maxlen_gt_family" | "maxlen_huge" | "as0" => {
                let p = need(pick_where(rng, select(&val, |_, n| is_roa(n))))?;
                let (v6, len) = prefix_len(get(&val, &p)).unwrap_or((false, 24));
                let node = get_mut(&mut val, &p);
                match c {
                    "maxlen_lt_len" => {
                        let ml = if len == 0 { 0 } else {
                            rng.below(len as usize) as u32
                        };
                        node["max_length"] = json!(ml);
                        if len == 0 {
                            node["prefix"] = json!(
                                if v6 { "2001:db8::/32" } else { "10.0.0.0/8" }
                            );
                        }
                    }
                    "maxlen_gt_family" => {
                        let fam = if v6 { 128 } else { 32 };
                        node["max_length"] = json!(
                            fam + 1 + rng.below(255 - fam)
                        );
                    }
                    "maxlen_huge" => {
                        node["max_length"] = raw.lit(rng.pick(&[
                            "256", "1000", "65536", "4294967296", "-1",
                            "\"24\"", "24.5",
                        ]));
                    }
                    _ => { node["asn"] = json!(0); }
                }
                input.note = format!("{c} at {p:?}");
            }

            // --- prefixes
            "len_gt_family" | "host_bits" | "v6_full_range"
            | "pfx_garbage" => {
                let roas = select(&val, |_, n| is_roa(n));
                let res = select(&val, |p, n| {
                    n.is_string()
                        && matches!(last_key(p), Some("ipv4") | Some("ipv6"))
                });
                let use_roa = !roas.is_empty()
                    && (res.is_empty() || rng.coin());
                let new = match c {
                    "len_gt_family" => rng.pick(&[
                        "10.0.0.0/33", "10.0.0.0/255", "10.0.0.0/256",
                        "2001:db8::/129", "2001:db8::/255", "::/4294967296",
                        "10.0.0.0/99999999999999999999",
                    ]).to_string(),
                    "host_bits" => rng.pick(&[
                        "10.0.0.1/8", "10.1.2.3/16", "10.255.255.255/9",
                        "2001:db8::1/32", "2001:db8:ffff::/33",
                        "192.168.1.1/24",
                    ]).to_string(),
                    "v6_full_range" => rng.pick(&[
                        "::/0", "0.0.0.0/0", "::/128", "0.0.0.0/32",
                        "ffff:ffff:ffff:ffff:ffff:ffff:ffff:ffff/128",
                        "255.255.255.255/32", "::/1", "2001:db8::/32",
                    ]).to_string(),
                    _ => rng.pick(&[
                        "10.0.0/24", "10.0.0.0.0/24", "10.0.0.0/", "/24",
                        "10.0.0.0/-1", "::ffff:10.0.0.0/104", "1.2.3.4/24/25",
                        "１０.0.0.0/8", "10.0.0.0", "2001:db8::/32/48",
                        "2001:db8:::/32", "g::/16", "10.0.0.256/24",
                        "010.0.0.0/8", "0x0a.0.0.0/8", "10.0.0.0/ 8",
                        " 10.0.0.0/8", "10.0.0.0/+8", "[2001:db8::]/32",
                    ]).to_string(),
                };
                if use_roa {
                    let p = rng.pick(&roas).clone();
                    let node = get_mut(&mut val, &p);
                    node["prefix"] = json!(new);
                    if c == "v6_full_range" {
                        let fam = if new.contains(':') { 128 } else { 32 };
                        match rng.below(3) {
                            0 => { node["max_length"] = json!(fam); }
                            1 => { node["max_length"] = json!(0); }
                            _ => {
                                node.as_object_mut().unwrap()
                                    .remove("max_length");
                            }
                        }
                    }
                    input.note = format!("prefix {new} at {p:?}");
                }
                else {
                    let p = need(pick_where(rng, res))?;
                    input.note = format!("{p:?} := {new}");
                    *get_mut(&mut val, &p) = json!(new);
                }
            }

            // --- AS numbers
            "asn_overflow" | "asn_negative" | "asn_text" | "asn_garbage" => {
                let sel = select(&val, |p, n| {
                    if n.is_object() || n.is_array() { return false }
                    match p.last() {
                        Some(Seg::Key(k)) => {
                            k == "asn" || k == "customer"
                        }
                        Some(Seg::Idx(_)) => {
                            ASN_LIST_KEYS.contains(
                                &last_key(p).unwrap_or("")
                            )
                        }
                        None => false,
                    }
                });
                let p = need(pick_where(rng, sel))?;
                let in_resources = p.len() >= 2 && matches!(
                    p.last(), Some(Seg::Key(k)) if k == "asn"
                ) && is_resources(get(&val, &p[..p.len() - 1]));
                let new = match c {
                    "asn_overflow" => raw.lit(rng.pick(&[
                        "4294967296", "18446744073709551616",
                        "\"AS4294967296\"", "\"4294967296\"",
                        "\"AS99999999999999999999\"", "4294967295",
                    ])),
                    "asn_negative" => raw.lit(rng.pick(&[
                        "-1", "\"AS-1\"", "\"-1\"", "-4294967296",
                    ])),
                    "asn_text" => raw.lit(rng.pick(&[
                        "\"AS64496\"", "64496", "\"64496\"", "\"as64496\"",
                        "\"AS 64496\"", "\"AS64496 \"", "\"AS0x10\"",
                        "\"AS0\"", "0", "\"AS064496\"", "\"AS+64496\"",
                    ])),
                    _ => raw.lit(rng.pick(&[
                        "\"ASX\"", "\"\"", "\"AS\"", "\"AS1.5\"", "\"1.5\"",
                        "\"AS65536.1\"", "\"AS1-AS2\"", "\"AS１\"", "1.5",
                        "\"AS1,AS2\"", "[1]", "{\"asn\":1}",
                    ])),
                };
                let _ = in_resources;
                input.note = format!("{p:?} := {c}");
                *get_mut(&mut val, &p) = new;
            }

            // --- resource sets
            "range_overflow" | "range_reversed" | "res_garbage"
            | "res_huge_list" => {
                let sel = select(&val, |_, n| is_resources(n));
                let p = need(pick_where(rng, sel))?;
                let (field, new): (&str, String) = match c {
                    "range_overflow" => {
                        let opts: &[(&str, &str)] = &[
                            ("asn", "AS1-AS4294967296"),
                            ("asn", "AS4294967295-AS4294967296"),
                            ("asn", "AS0-AS4294967295"),
                            ("asn", "AS18446744073709551615"),
                            ("ipv4", "10.0.0.0-10.0.0.256"),
                            ("ipv4", "0.0.0.0-255.255.255.255"),
                            ("ipv4", "255.255.255.255-255.255.255.255"),
                            ("ipv4", "255.255.255.255/32, 0.0.0.0/0"),
                            ("ipv6", "::-ffff:ffff:ffff:ffff:ffff:ffff:ffff:ffff"),
                            ("ipv6", "ffff:ffff:ffff:ffff:ffff:ffff:ffff:ffff-::1:0:0:0:0:0:0:0:0"),
                            ("ipv6", "::/0, ::/0"),
                            ("ipv4", "10.0.0.0/8-33"),
                        ];
                        let (f, n) = rng.pick(opts);
                        (f, n.to_string())
                    }
                    "range_reversed" => {
                        let opts: &[(&str, &str)] = &[
                            ("asn", "AS10-AS1"), ("asn", "AS1-AS1"),
                            ("asn", "AS4294967295-AS0"),
                            ("ipv4", "10.0.1.0-10.0.0.0"),
                            ("ipv4", "10.0.0.255-10.0.0.0"),
                            ("ipv4", "255.255.255.255-0.0.0.0"),
                            ("ipv6", "2001:db8::1-2001:db8::"),
                            ("ipv6", "ffff::-::"),
                        ];
                        let (f, n) = rng.pick(opts);
                        (f, n.to_string())
                    }
                    "res_garbage" => {
                        let f = rng.pick(&["asn", "ipv4", "ipv6"]);
                        (f, rng.pick(&[
                            "inherit", "all", "10.0.0.0/8,,", ",", ", ,",
                            "10.0.0.0/8 10.1.0.0/16", "AS1 AS2", "-", "AS1-",
                            "-AS1", "10.0.0.0-", "::-", "AS1--AS2",
                            "10.0.0.0/8;11.0.0.0/8", "\u{0}", "none",
                        ]).to_string())
                    }
                    _ => {
                        let n = 500 + rng.below(3000);
                        match rng.below(3) {
                            0 => ("asn", (0..n).map(|i| format!("AS{}", i * 2))
                                  .collect::<Vec<_>>().join(", ")),
                            1 => ("ipv4", (0..n).map(|i| format!(
                                      "10.{}.{}.0/25", (i >> 8) & 255, i & 255
                                  )).collect::<Vec<_>>().join(", ")),
                            _ => ("ipv6", (0..n).map(|i| format!(
                                      "2001:db8:{:x}::/49", i & 0xffff
                                  )).collect::<Vec<_>>().join(", ")),
                        }
                    }
                };
                get_mut(&mut val, &p)[field] = json!(new);
                let shown: String = new.chars().take(60).collect();
                input.note = format!("{field} := {shown}");
            }

            // --- handles
            "handle_overlong" | "handle_illegal" | "handle_empty"
            | "handle_uri_unsafe" => {
                let sel = select(&val, |p, n| {
                    n.is_string() && matches!(
                        p.last(), Some(Seg::Key(k))
                            if HANDLE_KEYS.contains(&k.as_str())
                    )
                });
                let p = need(pick_where(rng, sel))?;
                let new = match c {
                    "handle_overlong" => rng.pick(&["a", "ab/", "-"])
                        .repeat(rng.pick(&[255usize, 256, 257, 1000, 70000])),
                    "handle_empty" => String::new(),
                    // legal in a handle (RFC 8183), not in a URI or a
                    // file name
                    "handle_uri_unsafe" => rng.pick(&[
                        "a\\b", "\\", "a\\", "\\b", "a/b", "a/",
                        "a\\/b", "a\\\\b", "x\\..\\y",
                    ]).to_string(),
                    _ => rng.pick(&[
                        "a b", "a.b", "ä", "a\u{0}b", "../x", "a%2fb", "a/b",
                        "a\\b", "/", "..", "../../x", "a/../b", "ta", "\\",
                        "a\nb", "a\tb", "CON", "a:b", "a*", "-", "_", "\u{202e}",
                        "version", "ca/", "/ca",
                    ]).to_string(),
                };
                let new_s = new.clone();
                *get_mut(&mut val, &p) = json!(new);
                if e == "child_import" && matches!(
                    p.last(), Some(Seg::Key(k)) if k == "name"
                ) && crate::fworld::handle_ca(&new_s).is_some()
                    && !new_s.contains('/') && !new_s.is_empty()
                {
                    input.sub = new_s.clone();
                    input.path = seeds::route(e, &input.ca, &input.sub).1;
                }
                let shown: String = new_s.chars().take(40).collect();
                input.note = format!("{p:?} := {shown:?}");
            }

            // --- certificates, requests (base64)
            "cert_truncated" | "cert_bitflip" | "cert_not_base64"
            | "cert_empty" => {
                let sel = select(&val, |p, n| {
                    n.is_string() && matches!(
                        p.last(), Some(Seg::Key(k))
                            if CERT_KEYS.contains(&k.as_str())
                    )
                });
                let p = need(pick_where(rng, sel))?;
                let old = get(&val, &p).as_str().unwrap_or("").to_string();
                let der = B64.decode(old.as_bytes()).unwrap_or_default();
                let new = match c {
                    "cert_truncated" => {
                        let cut = rng.below(der.len().max(1));
                        B64.encode(&der[..cut])
                    }
                    "cert_bitflip" => {
                        let mut d = der.clone();
                        if !d.is_empty() {
                            for _ in 0..1 + rng.below(3) {
                                let pos = rng.below(d.len());
                                d[pos] ^= 1 << rng.below(8);
                            }
                        }
                        B64.encode(&d)
                    }
                    "cert_not_base64" => match rng.below(4) {
                        0 => "!!!".to_string(),
                        1 => format!("{old}="),
                        2 => old.replacen('M', "\u{0}", 1),
                        _ => old[..old.len() / 2 * 2 - 1].to_string(),
                    },
                    _ => String::new(),
                };
                input.note = format!("{p:?}: {c}");
                *get_mut(&mut val, &p) = json!(new);
            }

            // --- URIs
            "uri_scheme" | "uri_no_slash" | "uri_garbage"
            | "uri_overlong" => {
                let sel = select(&val, |_, n| {
                    n.as_str().map(|s| {
                        s.starts_with("rsync://") || s.starts_with("https://")
                    }).unwrap_or(false)
                });
                let p = need(pick_where(rng, sel))?;
                let old = get(&val, &p).as_str().unwrap().to_string();
                let rest = old.split_once("://").map(|x| x.1).unwrap_or("");
                let new = match c {
                    "uri_scheme" => format!("{}{rest}", rng.pick(&[
                        "http://", "file:///", "RSYNC://", "rsync:/",
                        "https:", "ftp://", "rsync://rsync://", "//",
                    ])),
                    "uri_no_slash" => old.trim_end_matches('/').to_string(),
                    "uri_garbage" => rng.pick(&[
                        "rsync://", "rsync:///", "https://[::1", "https:// /",
                        "rsync://h/\u{0}", "rsync://ä/x/", "https://h:99999/",
                        "rsync://h/../../", "rsync://h/m/../", "rsync://h",
                        "https://h/%zz", "https://user:pw@h/", "https://h/#f",
                        "rsync://h/m/a b/",
                    ]).to_string(),
                    _ => format!("{old}{}/", "x/".repeat(
                        1000 + rng.below(60_000)
                    )),
                };
                let shown: String = new.chars().take(60).collect();
                input.note = format!("{p:?} := {shown:?}");
                *get_mut(&mut val, &p) = json!(new);
            }
            other => return Err(format!("unknown json class {other}")),
        }
        input.body = raw.render(&val);
        Ok(())
    }
}


//============ path ==========================================================

/// Route templates: method, template.
const ROUTES: &[(&str, &str)] = &[
    ("GET", "/api/v1/cas"),
    ("GET", "/api/v1/cas/{ca}"),
    ("GET", "/api/v1/cas/{ca}/children/{child}"),
    ("GET", "/api/v1/cas/{ca}/children/{child}/contact"),
    ("GET", "/api/v1/cas/{ca}/children/{child}/parent_response.xml"),
    ("GET", "/api/v1/cas/{ca}/children/{child}/export"),
    ("GET", "/api/v1/cas/{ca}/parents"),
    ("GET", "/api/v1/cas/{ca}/parents/{parent}"),
    ("GET", "/api/v1/cas/{ca}/history/commands/{n}/{n}/{n}/{n}"),
    ("GET", "/api/v1/cas/{ca}/history/commands/{n}"),
    ("GET", "/api/v1/cas/{ca}/history/details/{n}"),
    ("GET", "/api/v1/cas/{ca}/aspas"),
    ("POST", "/api/v1/cas/{ca}/aspas/as/{asn}"),
    ("GET", "/api/v1/cas/{ca}/bgpsec"),
    ("GET", "/api/v1/cas/{ca}/routes"),
    ("GET", "/api/v1/cas/{ca}/routes/analysis/full"),
    ("GET", "/api/v1/cas/{ca}/routes/analysis/suggest"),
    ("GET", "/api/v1/cas/{ca}/id"),
    ("GET", "/api/v1/cas/{ca}/id/child_request.xml"),
    ("GET", "/api/v1/cas/{ca}/id/child_request.json"),
    ("GET", "/api/v1/cas/{ca}/id/publisher_request.json"),
    ("GET", "/api/v1/cas/{ca}/issues"),
    ("GET", "/api/v1/cas/{ca}/repo"),
    ("GET", "/api/v1/cas/{ca}/repo/status"),
    ("GET", "/api/v1/cas/{ca}/stats/children/connections"),
    ("GET", "/api/v1/pubd/publishers"),
    ("GET", "/api/v1/pubd/publishers/{pub}"),
    ("GET", "/api/v1/pubd/publishers/{pub}/response.json"),
    ("GET", "/api/v1/pubd/publishers/{pub}/response.xml"),
    ("GET", "/api/v1/pubd/stale/{n}"),
    ("GET", "/api/v1/bulk/cas/issues"),
    ("GET", "/api/v1/ta/proxy/id"),
    ("GET", "/api/v1/ta/proxy/children/{child}/parent_response.json"),
    ("GET", "/api/v1/ta/proxy/signer/request"),
    ("GET", "/api/v1/authorized"),
    ("POST", "/api/v1/ta/proxy/signer/add"),
    ("POST", "/api/v1/ta/proxy/signer/update"),
    ("POST", "/api/v1/ta/proxy/signer/response"),
    ("POST", "/api/v1/ta/proxy/signer/request"),
    ("POST", "/api/v1/ta/proxy/children"),
    ("POST", "/api/v1/ta/proxy/repo"),
    ("POST", "/api/v1/cas/{ca}/sync/parents"),
    ("POST", "/api/v1/cas/{ca}/sync/repo"),
    ("POST", "/api/v1/cas/{ca}/children/{child}"),
    ("POST", "/api/v1/cas/{ca}/parents/{parent}"),
    ("POST", "/api/v1/bulk/cas/sync/parent"),
    ("POST", "/api/v1/bulk/cas/sync/repo"),
    ("POST", "/api/v1/bulk/cas/publish"),
    ("POST", "/api/v1/pubd/session_reset"),
    ("POST", "/auth/login"),
    ("POST", "/testbed/children"),
    ("POST", "/testbed/publishers"),
    ("POST", "/rfc8181/{pub}"),
    ("POST", "/rfc6492/{ca}"),
    ("GET", "/rrdp/notification.xml"),
    ("GET", "/rrdp/{uuid}/{n}/snapshot.xml"),
    ("GET", "/rrdp/{uuid}/{n}/delta.xml"),
    ("GET", "/ta/ta.cer"),
    ("GET", "/ta/ta.tal"),
    ("GET", "/testbed.tal"),
    ("GET", "/testbed/enabled"),
    ("GET", "/testbed/children/{child}/parent_response.xml"),
    ("GET", "/stats/info"),
    ("GET", "/stats/cas"),
    ("GET", "/stats/repo"),
    ("GET", "/metrics"),
    ("GET", "/health"),
    ("GET", "/ui/index.html"),
    ("GET", "/assets/x.js"),
    ("GET", "/auth/login"),
    ("GET", "/"),
];

impl Gen<'_> {
    fn path(&self, v: &Vector, known: bool, rng: &mut Rng, input: &mut Input)
        -> Result<(), String>
    {
        let c = v.c.as_str();
        let (method, template) = rng.pick(ROUTES);
        let fill = |name: &str, rng: &mut Rng| -> String {
            match name {
                "ca" => if known { fworld::CA } else { fworld::NOBODY }
                    .to_string(),
                "child" => if known { fworld::CHILD } else { fworld::NOBODY }
                    .to_string(),
                "pub" => if known { fworld::PUBLISHER } else {
                    fworld::NOBODY
                }.to_string(),
                "parent" => if known { "ta" } else { fworld::NOBODY }
                    .to_string(),
                "asn" => format!("AS{}", 64496 + rng.below(8)),
                "n" => format!("{}", rng.below(50)),
                "uuid" => "c0ffee00-0000-4000-8000-000000000000".to_string(),
                other => other.to_string(),
            }
        };
        // segments with the index of the placeholders
        let mut segs: Vec<String> = Vec::new();
        let mut holes: Vec<(usize, String)> = Vec::new();
        for seg in template.trim_start_matches('/').split('/') {
            if seg.starts_with('{') {
                let name = seg.trim_matches(|c| c == '{' || c == '}');
                holes.push((segs.len(), name.to_string()));
                segs.push(fill(name, rng));
            }
            else {
                segs.push(seg.to_string());
            }
        }
        input.method = method.to_string();
        input.ctype = String::new();
        // the segment to damage: a placeholder if there is one
        let target = if !holes.is_empty() && rng.below(5) != 0 {
            let h = rng.pick(&holes).clone();
            Some(h)
        } else { None };
        let idx = target.as_ref().map(|t| t.0).unwrap_or_else(|| {
            rng.below(segs.len())
        });
        let numeric = target.as_ref().map(|t| t.1 == "n").unwrap_or(false);
        let mut suffix = String::new();
        match c {
            "valid" => { }
            "seg_overlong" => {
                segs[idx] = rng.pick(&["a", "%41", "-_", "1"]).repeat(
                    rng.pick(&[256usize, 257, 4096, 30_000])
                );
            }
            "seg_uri_unsafe" => {
                // characters a handle may have but a URI may not, in
                // the place of a handle if the route has one
                let handles: Vec<usize> = holes.iter().filter(|h| {
                    matches!(h.1.as_str(), "ca" | "child" | "pub" | "parent")
                }).map(|h| h.0).collect();
                let at = if handles.is_empty() { idx } else {
                    rng.pick(&handles)
                };
                segs[at] = rng.pick(&[
                    "a%5cb", "%5c", "a%5c", "%5cb", "a%5c%5cb", "a%5c%2fb",
                    "a%2fb",
                ]).to_string();
            }
            "seg_illegal_chars" => {
                segs[idx] = rng.pick(&[
                    "a%20b", "a.b", "a;b", "a,b", "a=b", "a@b", "a:b", "a+b",
                    "a%00b", "%7e", "a*b", "a%5cb", "a%22b", "a'b", "a|b",
                    "(a)", "a&b", "$a", "a!b", "~a", "%09", "%0a", "%e2%80%ae",
                ]).to_string();
            }
            "seg_pct_slash" => {
                segs[idx] = format!("{}%2f{}", segs[idx], rng.pick(&[
                    "x", "..", "", "%2f", "routes",
                ]));
            }
            "seg_pct_nonutf8" => {
                segs[idx] = format!("{}{}", segs[idx], rng.pick(&[
                    "%ff", "%c3", "%c3%28", "%e2%82", "%f0%9f", "%80",
                    "%fe%ff", "%ed%a0%80",
                ]));
            }
            "seg_empty" => { segs[idx] = String::new(); }
            "seg_dotdot" => {
                segs[idx] = rng.pick(&[
                    "..", ".", "%2e%2e", "..%2f..", "%2e", "...",
                    "..%2f..%2f..%2f..%2fetc%2fpasswd",
                ]).to_string();
            }
            "seg_unicode" => {
                segs[idx] = rng.pick(&[
                    "%c3%a4", "%e2%82%ac", "%f0%9f%98%80", "c%cc%81a",
                    "%ef%bb%bfca", "%ef%bd%83%ef%bd%81",
                ]).to_string();
            }
            "num_huge" | "num_negative" | "num_nonint" => {
                let new = match c {
                    "num_huge" => rng.pick(&[
                        "4294967296", "18446744073709551615",
                        "18446744073709551616", "9223372036854775808",
                        "99999999999999999999999999", "1e9",
                    ]),
                    "num_negative" => rng.pick(&[
                        "-1", "-0", "-9223372036854775808",
                        "-9223372036854775809",
                    ]),
                    _ => rng.pick(&[
                        "1.5", "0x10", "abc", "+1", "%31", "1%20", "",
                        "１", "1_000", "1,000", "NaN",
                    ]),
                };
                if numeric || holes.iter().all(|h| h.1 != "n") {
                    segs[idx] = new.to_string();
                }
                else {
                    let n = holes.iter().find(|h| h.1 == "n").unwrap().0;
                    segs[n] = new.to_string();
                }
            }
            "extra_segments" => {
                for _ in 0..1 + rng.below(4) {
                    segs.push(rng.pick(&[
                        "x", "routes", "0", "ca", "..", "import", "",
                    ]).to_string());
                }
            }
            "trailing_slash" => {
                suffix = rng.pick(&["/", "//", "/./"]).to_string();
            }
            "method_odd" => {
                input.method = rng.pick(&[
                    "PUT", "PATCH", "OPTIONS", "TRACE", "get", "FOO",
                    "PROPFIND", "POST", "GET",
                ]).to_string();
            }
            "query_string" => {
                suffix = rng.pick(&[
                    "?", "?a=b", "?%ff", "?a=b&a=c", "#frag", "?/../..",
                    "?x=%00", ";jsessionid=1",
                ]).to_string();
            }
            "long_path" => {
                suffix = "/x".repeat(1000 + rng.below(30_000));
            }
            "garbage_body" => {
                input.method = "POST".into();
                input.body = match rng.below(4) {
                    0 => rng.some_bytes(3000),
                    1 => b"{}".to_vec(),
                    2 => b"[]".to_vec(),
                    _ => b"<x/>".to_vec(),
                };
            }
            other => return Err(format!("unknown path class {other}")),
        }
        if method == "POST" && input.body.is_empty() && c != "garbage_body" {
            // a POST route gets a harmless body
            input.body = b"{}".to_vec();
        }
        input.path = format!("/{}{suffix}", segs.join("/"));
        input.note = format!("{method} {template}");
        Ok(())
    }
}


//============ text ==========================================================

impl Gen<'_> {
    fn text(&self, v: &Vector, rng: &mut Rng, input: &mut Input)
        -> Result<(), String>
    {
        let e = v.e.as_str();
        let c = v.c.as_str();
        let seed = if e == "text_idcert" {
            Client::cert_b64(&self.client.child_cert)
        } else { seeds::text_seed(e, rng) };
        // the numeric fields of the notation
        let replace_number = |s: &str, rng: &mut Rng, new: &str| -> String {
            let bytes = s.as_bytes();
            let mut spans = Vec::new();
            let mut i = 0;
            while i < bytes.len() {
                if bytes[i].is_ascii_digit() {
                    let st = i;
                    while i < bytes.len() && bytes[i].is_ascii_digit() {
                        i += 1;
                    }
                    spans.push((st, i));
                }
                else {
                    i += 1;
                }
            }
            if spans.is_empty() {
                return format!("{s}{new}")
            }
            let (a, b) = rng.pick(&spans);
            format!("{}{new}{}", &s[..a], &s[b..])
        };
        let text: String = match c {
            "valid" => seed,
            "empty" => rng.pick(&["", " ", "\n", "\t"]).to_string(),
            "random_text" => {
                if rng.coin() {
                    String::from_utf8_lossy(&rng.some_bytes(200))
                        .into_owned()
                } else {
                    rng.some_text("AS0123456789./:-=> ,|\t\n{}%abcdefx", 120)
                }
            }
            "overlong" => {
                let unit = match e {
                    "text_resources" => "10.0.0.0/8, ",
                    "text_aspa" => "AS1, ",
                    "text_ris" => "64496\t10.0.0.0/24\t100\n",
                    _ => "1",
                };
                let max = if e == "text_resources" { 3000 } else { 50_000 };
                format!("{seed}{}", unit.repeat(1 + rng.below(max)))
            }
            "whitespace" => {
                let ws = rng.pick(&[" ", "\t", "\u{a0}", "\r\n", "\u{2003}"]);
                let pos = rng.below(seed.len() + 1);
                let mut pos = pos;
                while !seed.is_char_boundary(pos) { pos -= 1 }
                format!("{}{ws}{}", &seed[..pos], &seed[pos..])
            }
            "huge_number" => replace_number(&seed, rng, rng.clone().pick(&[
                "256", "65536", "4294967296", "18446744073709551616",
                "99999999999999999999999999999",
            ])),
            "negative_number" => replace_number(&seed, rng, "-1"),
            "non_integer" => replace_number(&seed, rng, rng.clone().pick(&[
                "1.5", "0x10", "1e3", "１", "+1", "",
            ])),
            "maxlen_lt_len" => format!(
                "10.0.0.0/24-{} => 64496", rng.below(24)
            ),
            "maxlen_gt_family" => if rng.coin() {
                format!("10.0.0.0/24-{} => 64496", 33 + rng.below(222))
            } else {
                format!("2001:db8::/32-{} => 64496", 129 + rng.below(126))
            },
            "maxlen_huge" => format!(
                "10.0.0.0/24-{} => 64496",
                rng.pick(&["256", "1000", "4294967296", "-1", "", "24-25"])
            ),
            "as0" => match e {
                "text_roa" => "10.0.0.0/24 => 0".to_string(),
                _ => "AS0".to_string(),
            },
            "len_gt_family" | "host_bits" | "v6_full_range"
            | "pfx_garbage" => {
                let p = match c {
                    "len_gt_family" => rng.pick(&[
                        "10.0.0.0/33", "10.0.0.0/256", "2001:db8::/129",
                        "::/4294967296",
                    ]),
                    "host_bits" => rng.pick(&[
                        "10.0.0.1/8", "10.1.2.3/16", "2001:db8::1/32",
                    ]),
                    "v6_full_range" => rng.pick(&[
                        "::/0", "0.0.0.0/0", "::/128",
                        "ffff:ffff:ffff:ffff:ffff:ffff:ffff:ffff/128",
                    ]),
                    _ => rng.pick(&[
                        "10.0.0/24", "10.0.0.0.0/24", "10.0.0.0/", "/24",
                        "10.0.0.0/-1", "1.2.3.4/24/25", "2001:db8:::/32",
                        "g::/16", "10.0.0.256/24", "010.0.0.0/8",
                    ]),
                };
                match e {
                    "text_roa" => {
                        let ml = if c == "v6_full_range" {
                            if p.contains(':') { "-128" } else { "-32" }
                        } else { "" };
                        format!("{p}{ml} => 64496")
                    }
                    "text_resources" => if p.contains(':') {
                        format!("||{p}")
                    } else { format!("|{p}|") },
                    "text_ris" => format!("64496\t{p}\t100\n"),
                    _ => p.to_string(),
                }
            }
            "asn_overflow" | "asn_negative" | "asn_text" | "asn_garbage" => {
                let a = match c {
                    "asn_overflow" => rng.pick(&[
                        "AS4294967296", "4294967296",
                        "AS99999999999999999999",
                    ]),
                    "asn_negative" => rng.pick(&["AS-1", "-1"]),
                    "asn_text" => rng.pick(&[
                        "as64496", "AS 64496", "AS0x10", "AS064496",
                        "AS+64496", "64496 ",
                    ]),
                    _ => rng.pick(&[
                        "ASX", "AS", "AS1.5", "1.5", "AS65536.1", "AS１",
                    ]),
                };
                match e {
                    "text_roa" => format!("10.0.0.0/24 => {a}"),
                    "text_resources" => format!("{a}||"),
                    "text_aspa" => if rng.coin() {
                        format!("{a} => AS65000")
                    } else { format!("AS64496 => AS65000, {a}") },
                    "text_ris" => format!("{a}\t10.0.0.0/24\t100\n"),
                    _ => a.to_string(),
                }
            }
            "range_overflow" => rng.pick(&[
                "AS1-AS4294967296||", "|10.0.0.0-10.0.0.256|",
                "|0.0.0.0-255.255.255.255|",
                "||::-ffff:ffff:ffff:ffff:ffff:ffff:ffff:ffff",
                "AS0-AS4294967295|0.0.0.0/0|::/0",
            ]).to_string(),
            "range_reversed" => rng.pick(&[
                "AS10-AS1||", "|10.0.1.0-10.0.0.0|",
                "||2001:db8::1-2001:db8::", "|255.255.255.255-0.0.0.0|",
            ]).to_string(),
            "res_garbage" => rng.pick(&[
                "inherit||", "|10.0.0.0/8,,|", ",|,|,", "|10.0.0.0/8 10.1.0.0/16|",
                "AS1-||", "|10.0.0.0-|", "||::-",
            ]).to_string(),
            "res_huge_list" => {
                let n = 500 + rng.below(3000);
                format!("|{}|", (0..n).map(|i| format!(
                    "10.{}.{}.0/25", (i >> 8) & 255, i & 255
                )).collect::<Vec<_>>().join(", "))
            }
            "handle_overlong" => "a".repeat(
                rng.pick(&[255usize, 256, 257, 70000])
            ),
            "handle_illegal" => rng.pick(&[
                "a b", "a.b", "ä", "a\u{0}b", "../x", "a%2fb", "a/b", "a\\b",
                "/", "..",
            ]).to_string(),
            "handle_empty" => String::new(),
            "handle_uri_unsafe" => rng.pick(&[
                "a\\b", "\\", "a/b", "a\\/b",
            ]).to_string(),
            "cert_truncated" => {
                let der = B64.decode(seed.as_bytes()).unwrap_or_default();
                B64.encode(&der[..rng.below(der.len().max(1))])
            }
            "cert_bitflip" => {
                let mut der = B64.decode(seed.as_bytes()).unwrap_or_default();
                for _ in 0..1 + rng.below(3) {
                    let pos = rng.below(der.len());
                    der[pos] ^= 1 << rng.below(8);
                }
                B64.encode(&der)
            }
            "cert_not_base64" => rng.pick(&["!!!", "AAA", "=A=="])
                .to_string(),
            "cert_empty" => String::new(),
            "uri_scheme" => rng.pick(&[
                "http://h/m/", "file:///etc/passwd", "RSYNC://h/m/",
                "rsync:/h/m/", "ftp://h/",
            ]).to_string(),
            "uri_no_slash" => seed.trim_end_matches('/').to_string(),
            "uri_garbage" => rng.pick(&[
                "rsync://", "rsync:///", "https://[::1", "https:// /",
                "rsync://h/../../", "https://h:99999/", "rsync://h",
            ]).to_string(),
            "uri_overlong" => format!("{seed}{}", "x/".repeat(
                1000 + rng.below(60_000)
            )),
            other => return Err(format!("unknown text class {other}")),
        };
        input.body = text.into_bytes();
        input.method = String::new();
        input.path = String::new();
        Ok(())
    }
}
