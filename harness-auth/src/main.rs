//! kv-auth: conformance harness for C12 (UpDownAuth.tla) and C15
//! (TaExchange.tla), see /verif/DESIGN.md.
#![allow(dead_code)]

#[path = "../../harness/src/common.rs"]
mod common;
mod world;
mod updown;
mod ta;

use std::path::PathBuf;

fn arg(args: &[String], name: &str) -> Option<String> {
    args.iter().position(|a| a == name).and_then(|i| args.get(i + 1)).cloned()
}

fn flag(args: &[String], name: &str) -> bool {
    args.iter().any(|a| a == name)
}

fn main() {
    common::install_panic_hook();
    let args: Vec<String> = std::env::args().collect();
    let cmd = args.get(1).map(|s| s.as_str()).unwrap_or("");
    let behaviours = arg(&args, "--in").map(PathBuf::from);
    let out = arg(&args, "--out").map(PathBuf::from);
    let workdir = arg(&args, "--work").map(PathBuf::from);
    match cmd {
        "run-updown" => {
            updown::run(
                &behaviours.unwrap(), &out.unwrap(), &workdir.unwrap(),
                arg(&args, "--universe").map(PathBuf::from).as_deref(),
            );
        }
        "run-ta" => {
            ta::run(
                &behaviours.unwrap(), &out.unwrap(), &workdir.unwrap(),
            );
        }
        _ => {
            eprintln!(
                "usage: kv-auth <run-updown|run-ta> --in <behaviours.ndjson> \
                 --out <trace.ndjson> --work <dir>"
            );
            std::process::exit(2);
        }
    }
}
