//! run-updown: replays UpDownAuth.tla behaviours on the real signed
//! RFC 6492 / RFC 8181 paths (`CaManager::rfc6492`,
//! `RepositoryManager::rfc8181`).
//!
//! World (fixed, checked against the constants of the spec in the reset
//! event):
//!
//!   servers   P = CA "caP" (10.0.0.0/16), O = CA "caO" (10.1.0.0/16),
//!             R = the publication server
//!   children  P: c1 {r1,r2} key k1, c2 {r3} key k2;  O: c1 {r4} key k5
//!   publishers R: p1 key q1, p2 key q2 (base <jail>/p1/, <jail>/p2/)
//!   atoms     r1=10.0.1.0/24 r2=10.0.2.0/24 r3=10.0.3.0/24 r4=10.1.1.0/24
//!
//! Every request is a real CMS built with the runtime's own KrillSigner.
//! After every action the complete projected state is written.

use std::collections::{BTreeMap, HashMap};
use std::path::Path;
use std::str::FromStr;
use bytes::Bytes;
use krill::api::admin::{AddChildRequest, UpdateChildRequest};
use krill::commons::crypto::KrillSigner;
use rpki::ca::idcert::IdCert;
use rpki::ca::idexchange::{
    CaHandle, ChildHandle, PublisherHandle, PublisherRequest, RepoInfo,
};
use rpki::ca::provisioning::{
    self, IssuanceRequest, ProvisioningCms, RequestResourceLimit,
    ResourceClassName, RevocationRequest,
};
use rpki::ca::publication::{
    self, Base64, PublicationCms, Publish, PublishDelta, Update, Withdraw,
};
use rpki::crypto::{KeyIdentifier, PublicKey};
use rpki::repository::resources::ResourceSet;
use rpki::uri;
use serde_json::{json, Value};
use crate::common::*;
use crate::world;

const ATOMS: &[(&str, &str)] = &[
    ("r1", "10.0.1.0/24"), ("r2", "10.0.2.0/24"), ("r3", "10.0.3.0/24"),
    ("r4", "10.1.1.0/24"),
];

fn atom_set(names: &[&str]) -> ResourceSet {
    let v4: Vec<&str> = names.iter().map(|n| {
        ATOMS.iter().find(|(a, _)| a == n).map(|(_, p)| *p).unwrap_or_else(
            || panic!("unknown atom {n}")
        )
    }).collect();
    ResourceSet::from_strs("", &v4.join(", "), "").unwrap()
}

/// Expresses a resource set as atoms; anything that is not a union of
/// atoms shows up as "?<text>".
fn to_atoms(set: &ResourceSet) -> Vec<String> {
    let mut res = Vec::new();
    let mut covered = ResourceSet::empty();
    for (name, _) in ATOMS {
        let atom = atom_set(&[name]);
        if set.contains(&atom) {
            res.push(name.to_string());
            covered = covered.union(&atom);
        }
    }
    if &covered != set {
        res.push(format!("?{set}"));
    }
    res
}

fn server_handle(srv: &str) -> CaHandle {
    match srv {
        "P" => world::ca_handle("caP"),
        "O" => world::ca_handle("caO"),
        _ => panic!("unknown CA server {srv}"),
    }
}

struct Ident {
    cert: IdCert,
    ki: KeyIdentifier,
}

#[derive(Clone, Default, PartialEq)]
struct Finger {
    parts: BTreeMap<String, u64>,
}

/// Canonical text of a serialisable value: maps sorted by key, arrays
/// sorted by content (hash map iteration order must not matter).
fn canon<T: serde::Serialize>(value: &T) -> String {
    fn norm(v: Value) -> Value {
        match v {
            Value::Array(items) => {
                let mut items: Vec<Value> = items.into_iter().map(norm)
                    .collect();
                items.sort_by_key(|i| i.to_string());
                Value::Array(items)
            }
            Value::Object(map) => {
                let mut sorted: Vec<(String, Value)> = map.into_iter().map(
                    |(k, v)| (k, norm(v))
                ).collect();
                sorted.sort_by(|a, b| a.0.cmp(&b.0));
                Value::Object(sorted.into_iter().collect())
            }
            other => other,
        }
    }
    norm(serde_json::to_value(value).unwrap_or(Value::Null)).to_string()
}

fn hash_str(s: &str) -> u64 {
    use std::hash::{Hash, Hasher};
    let mut h = std::collections::hash_map::DefaultHasher::new();
    s.hash(&mut h);
    h.finish()
}

fn walk(dir: &Path, base: &Path, out: &mut Vec<String>) {
    let Ok(rd) = std::fs::read_dir(dir) else { return };
    for entry in rd.flatten() {
        let path = entry.path();
        let Ok(meta) = entry.metadata() else { continue };
        if meta.is_dir() {
            walk(&path, base, out);
        }
        else {
            use std::os::unix::fs::MetadataExt;
            out.push(format!(
                "{}:{}:{}.{}",
                path.strip_prefix(base).unwrap_or(&path).display(),
                meta.len(), meta.mtime(), meta.mtime_nsec(),
            ));
        }
    }
}

struct World {
    env: Env,
    idents: HashMap<String, Ident>,
    cakeys: HashMap<String, KeyIdentifier>,
    cakey_names: HashMap<KeyIdentifier, String>,
    /// server -> every identity key it has had, in order of appearance
    srvkeys: BTreeMap<String, Vec<PublicKey>>,
    class: HashMap<String, ResourceClassName>,
    /// status change counters
    seen: BTreeMap<String, BTreeMap<String, u64>>,
    last_status: HashMap<(String, String), u64>,
    contents: HashMap<String, String>,
    reqno: u64,
    /// offset of the key pool at the start of the behaviour and number of
    /// pool keys consumed until all named keys existed
    key_base: usize,
    keys_used_hint: usize,
}

impl World {
    fn signer(&self) -> &KrillSigner {
        self.env.krill.signer()
    }

    fn create(dir: &Path, key_base: usize) -> Result<Self, String> {
        refill_keys(key_base);
        let pool_at_start = krill::verif::key_pool_len();
        let env = Env::create(dir, EnvOpts::default())?;
        world::init_repo(&env)?;
        world::init_embedded_ta(&env)?;
        world::import_ca(
            &env, &server_handle("P"), &world::ca_handle("ta"),
            world::resources("", "10.0.0.0/16", ""),
        )?;
        world::import_ca(
            &env, &server_handle("O"), &world::ca_handle("ta"),
            world::resources("", "10.1.0.0/16", ""),
        )?;
        let mut w = World {
            env,
            idents: HashMap::new(), cakeys: HashMap::new(),
            cakey_names: HashMap::new(), srvkeys: BTreeMap::new(),
            class: HashMap::new(), seen: BTreeMap::new(),
            last_status: HashMap::new(), contents: HashMap::new(),
            reqno: 0, key_base, keys_used_hint: 0,
        };
        let actor = world::actor(&w.env);
        for (srv, child, atoms, key) in [
            ("P", "c1", &["r1", "r2"][..], "k1"),
            ("P", "c2", &["r3"][..], "k2"),
            ("O", "c1", &["r4"][..], "k5"),
        ] {
            let id_cert = w.ident(key).cert.clone();
            w.env.krill.ca_manager().ca_add_child(
                &server_handle(srv),
                AddChildRequest {
                    handle: ChildHandle::from_str(child).unwrap(),
                    resources: atom_set(atoms),
                    id_cert,
                },
                &actor, &w.env.krill,
            ).map_err(|e| format!("add child {child}: {e}"))?;
            w.seen.entry(srv.into()).or_default().insert(child.into(), 0);
        }
        for (publ, key) in [("p1", "q1"), ("p2", "q2")] {
            w.register_publisher(publ, key)?;
        }
        for srv in ["P", "O"] {
            let ca = w.env.krill.ca_manager().get_ca(
                &server_handle(srv)
            ).map_err(|e| e.to_string())?;
            let list = ca.list(
                &ChildHandle::from_str("c1").unwrap(),
                &w.env.krill.config().issuance_timing,
            ).map_err(|e| format!("list: {e}"))?;
            let class = list.classes().first().ok_or_else(|| {
                format!("server {srv} has no resource class for c1")
            })?.class_name().clone();
            w.class.insert(srv.into(), class);
        }
        // all named keys exist from here on: everything taken from the
        // pool later is a one-off key (never stored) or a new server
        // identity, so the rest of the pool may be recycled
        for name in ["k1", "k2", "k3", "k4", "k5", "k6", "kr", "q1", "q2",
                     "q3", "q4"] {
            w.ident(name);
        }
        for name in ["a1", "a2", "b1", "b2"] {
            w.cakey(name);
        }
        w.keys_used_hint = pool_at_start.saturating_sub(
            krill::verif::key_pool_len()
        );
        Ok(w)
    }

    fn register_publisher(
        &mut self, publ: &str, key: &str
    ) -> Result<(), String> {
        let actor = world::actor(&self.env);
        let cert = self.ident(key).cert.clone();
        let req = PublisherRequest::new(
            Base64::from_content(cert.to_bytes().as_ref()),
            PublisherHandle::from_str(publ).unwrap(), None,
        );
        self.env.krill.repo_manager().create_publisher(
            req, &actor
        ).map_err(|e| format!("create publisher {publ}: {e}"))
    }

    /// The identity with the given model name, created on first use.
    fn ident(&mut self, name: &str) -> &Ident {
        if !self.idents.contains_key(name) {
            let cert = self.env.krill.signer().create_self_signed_id_cert()
                .unwrap();
            let ki = cert.public_key().key_identifier();
            self.idents.insert(name.into(), Ident { cert, ki });
        }
        &self.idents[name]
    }

    /// The key identifier to sign with for a model key name.
    fn signing_key(&mut self, name: &str) -> KeyIdentifier {
        match name {
            // the server's own current identity key
            "sP" | "sO" => {
                let ca = self.env.krill.ca_manager().get_ca(
                    &server_handle(&name[1..])
                ).unwrap();
                ca.id_cert().public_key.key_identifier()
            }
            _ => self.ident(name).ki,
        }
    }

    fn ident_name(&self, key: &PublicKey) -> String {
        let ki = key.key_identifier();
        for (name, id) in &self.idents {
            if id.ki == ki {
                return name.clone()
            }
        }
        format!("?{ki}")
    }

    fn cakey(&mut self, name: &str) -> KeyIdentifier {
        if let Some(ki) = self.cakeys.get(name) {
            return *ki
        }
        let ki = self.env.krill.signer().create_key().unwrap();
        self.cakeys.insert(name.into(), ki);
        self.cakey_names.insert(ki, name.into());
        ki
    }

    fn cakey_name(&self, ki: &KeyIdentifier) -> String {
        self.cakey_names.get(ki).cloned().unwrap_or_else(|| format!("?{ki}"))
    }

    /// Generation number (1-based) of a server identity key.
    fn srv_gen(&mut self, srv: &str, key: &PublicKey) -> usize {
        let keys = self.srvkeys.entry(srv.into()).or_default();
        if let Some(pos) = keys.iter().position(|k| k == key) {
            return pos + 1
        }
        keys.push(key.clone());
        keys.len()
    }

    fn server_key(&self, srv: &str) -> Result<PublicKey, String> {
        if srv == "R" {
            let resp = self.env.krill.repo_manager().repository_response(
                &PublisherHandle::from_str("caP").unwrap(), &self.env.krill
            ).map_err(|e| format!("repository_response: {e}"))?;
            let cert = resp.validate().map_err(|e| e.to_string())?;
            Ok(cert.public_key().clone())
        }
        else {
            let ca = self.env.krill.ca_manager().get_ca(
                &server_handle(srv)
            ).map_err(|e| e.to_string())?;
            Ok(ca.id_cert().public_key.clone())
        }
    }

    /// Which server identity (name + generation) validates the reply.
    fn reply_key(
        &mut self, validate: impl Fn(&PublicKey) -> bool
    ) -> String {
        // make sure the current keys are registered
        for srv in ["P", "O", "R"] {
            if let Ok(key) = self.server_key(srv) {
                self.srv_gen(srv, &key);
            }
        }
        for (srv, keys) in &self.srvkeys {
            for (i, key) in keys.iter().enumerate() {
                if validate(key) {
                    return format!("{srv}{}", i + 1)
                }
            }
        }
        "?".into()
    }

    //--- fingerprints -------------------------------------------------------

    fn finger(&self) -> Finger {
        let t0 = std::time::Instant::now();
        let res = self.finger_inner();
        T_FINGER.fetch_add(t0.elapsed().as_micros() as u64, std::sync::atomic::Ordering::Relaxed);
        res
    }

    fn finger_inner(&self) -> Finger {
        let mut parts = BTreeMap::new();
        let cam = self.env.krill.ca_manager();
        for srv in ["P", "O"] {
            let handle = server_handle(srv);
            let ca = cam.get_ca(&handle).map(|ca| {
                canon(&*ca)
            }).unwrap_or_else(|e| format!("error {e}"));
            parts.insert(format!("ca{srv}"), hash_str(&ca));
            let status = cam.get_ca_status(&handle).map(|st| {
                canon(&st)
            }).unwrap_or_else(|e| format!("error {e}"));
            parts.insert(format!("status{srv}"), hash_str(&status));
        }
        let ta = cam.get_trust_anchor_proxy().map(|p| {
            canon(&*p)
        }).unwrap_or_default();
        parts.insert("ta".into(), hash_str(&ta));
        let rm = self.env.krill.repo_manager();
        let mut repo = String::new();
        if let Ok(mut pubs) = rm.publishers() {
            pubs.sort_by_key(|p| p.to_string());
            for p in pubs {
                repo.push_str(p.as_str());
                match rm.get_publisher_details(p) {
                    Ok(d) => repo.push_str(&canon(&d)),
                    Err(e) => repo.push_str(&format!("error {e}")),
                }
            }
        }
        if let Ok(stats) = rm.repo_stats() {
            repo.push_str(&canon(&stats));
        }
        parts.insert("repo".into(), hash_str(&repo));
        let td = std::time::Instant::now();
        let mut files = Vec::new();
        walk(&self.env.dir, &self.env.dir, &mut files);
        T_DISK.fetch_add(td.elapsed().as_micros() as u64, std::sync::atomic::Ordering::Relaxed);
        files.sort();
        // key material created by the harness itself is excluded by
        // taking the fingerprint after the message has been built
        parts.insert("disk".into(), hash_str(&files.join("\n")));
        Finger { parts }
    }

    fn changed(before: &Finger, after: &Finger) -> Vec<String> {
        let mut res = Vec::new();
        for (k, v) in &after.parts {
            if before.parts.get(k) != Some(v) {
                res.push(k.clone());
            }
        }
        res
    }

    //--- projection ---------------------------------------------------------

    fn project(&mut self) -> Value {
        let krill = self.env.krill.clone();
        let cam = krill.ca_manager();
        let timing = krill.config().issuance_timing;
        let mut reg = serde_json::Map::new();
        let mut ent = serde_json::Map::new();
        let mut iss = serde_json::Map::new();
        let mut susp = serde_json::Map::new();
        let mut held = serde_json::Map::new();
        let mut srv_state = serde_json::Map::new();
        for srv in ["P", "O"] {
            let mut reg_s = serde_json::Map::new();
            let mut ent_s = serde_json::Map::new();
            let mut iss_s = serde_json::Map::new();
            let mut susp_s = serde_json::Map::new();
            let mut held_s = serde_json::Map::new();
            match cam.get_ca(&server_handle(srv)) {
                Ok(ca) => {
                    let ca_json = serde_json::to_value(&*ca)
                        .unwrap_or(Value::Null);
                    let key = ca.id_cert().public_key.clone();
                    let sgen = self.srv_gen(srv, &key);
                    srv_state.insert(srv.into(), json!(sgen));
                    let mut children: Vec<_> = ca.children().cloned()
                        .collect();
                    children.sort_by_key(|c| c.to_string());
                    for child in children {
                        let Ok(details) = ca.get_child(&child) else {
                            continue
                        };
                        let info = details.to_info();
                        reg_s.insert(
                            child.to_string(),
                            json!(self.ident_name(&info.id_cert.public_key))
                        );
                        ent_s.insert(
                            child.to_string(),
                            json!(to_atoms(&info.entitled_resources))
                        );
                        let mut certs = Vec::new();
                        match ca.list(&child, &timing) {
                            Ok(list) => {
                                for class in list.classes() {
                                    for ic in class.issued_certs() {
                                        certs.push(self.cert_entry(ic.cert()));
                                    }
                                }
                            }
                            Err(e) => {
                                certs.push(json!([format!("?{e}"), []]));
                            }
                        }
                        certs.sort_by_key(|c| c.to_string());
                        iss_s.insert(child.to_string(), json!(certs));
                        susp_s.insert(child.to_string(), json!(
                            info.state
                                == krill::api::ca::ChildState::Suspended
                        ));
                        held_s.insert(child.to_string(), json!(
                            self.suspended_certs(&ca_json, child.as_str())
                        ));
                    }
                }
                Err(e) => {
                    srv_state.insert(srv.into(), json!(format!("?{e}")));
                }
            }
            reg.insert(srv.into(), Value::Object(reg_s));
            ent.insert(srv.into(), Value::Object(ent_s));
            iss.insert(srv.into(), Value::Object(iss_s));
            susp.insert(srv.into(), Value::Object(susp_s));
            held.insert(srv.into(), Value::Object(held_s));
        }
        // publication server
        let rm = krill.repo_manager();
        let mut reg_r = serde_json::Map::new();
        let mut pubd = serde_json::Map::new();
        for publ in ["p1", "p2"] {
            let handle = PublisherHandle::from_str(publ).unwrap();
            match rm.get_publisher_details(handle.clone()) {
                Ok(details) => {
                    reg_r.insert(publ.into(), json!(
                        self.ident_name(&details.id_cert.public_key)
                    ));
                    let mut objs = Vec::new();
                    for file in &details.current_files {
                        objs.push(json!([
                            self.uri_name(&file.uri),
                            self.content_name(&file.base64),
                        ]));
                    }
                    objs.sort_by_key(|c| c.to_string());
                    pubd.insert(publ.into(), json!(objs));
                }
                Err(_) => {
                    reg_r.insert(publ.into(), json!("none"));
                    pubd.insert(publ.into(), json!([]));
                }
            }
        }
        reg.insert("R".into(), Value::Object(reg_r));
        let rkey = self.server_key("R").ok();
        let rgen = rkey.map(|k| self.srv_gen("R", &k)).unwrap_or(0);
        srv_state.insert("R".into(), json!(rgen));
        json!({
            "reg": reg, "ent": ent, "iss": iss, "srv": srv_state,
            "pub": pubd, "seen": self.seen, "susp": susp, "held": held,
        })
    }

    /// The suspended certificates of a child, from the stored state of
    /// the CA: resources.<class>.certificates.suspended, restricted to
    /// the keys the child has used.
    fn suspended_certs(&self, ca: &Value, child: &str) -> Vec<Value> {
        let mut res = Vec::new();
        let used: Vec<String> = ca.pointer(
            &format!("/children/{child}/used_keys")
        ).and_then(|u| u.as_object()).map(|u| {
            u.keys().cloned().collect()
        }).unwrap_or_default();
        let Some(classes) = ca.get("resources").and_then(|r| r.as_object())
        else {
            return res
        };
        for class in classes.values() {
            let Some(susp) = class.pointer("/certificates/suspended")
                .and_then(|s| s.as_object())
            else {
                continue
            };
            for (ki, cert) in susp {
                if !used.contains(ki) {
                    continue
                }
                let name = KeyIdentifier::from_str(ki).map(|ki| {
                    self.cakey_name(&ki)
                }).unwrap_or_else(|_| format!("?{ki}"));
                let set = cert.get("resources").cloned().and_then(|r| {
                    serde_json::from_value::<ResourceSet>(r).ok()
                }).map(|r| to_atoms(&r)).unwrap_or_else(|| {
                    vec!["?resources".into()]
                });
                res.push(json!([name, set]));
            }
        }
        res.sort_by_key(|c| c.to_string());
        res
    }

    fn cert_entry(&self, cert: &rpki::repository::cert::Cert) -> Value {
        let ki = cert.subject_key_identifier();
        let res = ResourceSet::try_from(cert).map(|r| to_atoms(&r))
            .unwrap_or_else(|_| vec!["?inherit".into()]);
        json!([self.cakey_name(&ki), res])
    }

    fn uri_name(&self, uri: &uri::Rsync) -> String {
        let s = uri.to_string();
        s.strip_prefix(world::RSYNC_BASE).map(|s| s.to_string())
            .unwrap_or(format!("?{s}"))
    }

    fn content_name(&self, content: &Base64) -> String {
        let text = String::from_utf8_lossy(&content.to_bytes()).to_string();
        if text.len() <= 8 { text } else { format!("?{}", text.len()) }
    }

    /// Updates the per child status change counters.
    fn update_seen(&mut self) {
        let krill = self.env.krill.clone();
        let cam = krill.ca_manager();
        for srv in ["P", "O"] {
            let Ok(status) = cam.get_ca_status(&server_handle(srv)) else {
                continue
            };
            let value = serde_json::to_value(&status).unwrap_or_default();
            let children = value.get("children").cloned().unwrap_or(
                json!({})
            );
            let Some(map) = children.as_object() else { continue };
            for (child, st) in map {
                // only the record of the last exchange counts (the
                // suspension time stamp is set by the administrator)
                let h = hash_str(&st.get("last_exchange").map(|v| {
                    v.to_string()
                }).unwrap_or_default());
                let key = (srv.to_string(), child.clone());
                let prev = self.last_status.insert(key, h);
                if prev.is_some() && prev != Some(h) || (
                    prev.is_none()
                    && st.get("last_exchange").map(|v| !v.is_null())
                        .unwrap_or(false)
                ) {
                    *self.seen.entry(srv.into()).or_default()
                        .entry(child.clone()).or_default() += 1;
                }
            }
        }
    }

    //--- RFC 6492 -----------------------------------------------------------

    /// Builds the provisioning message for the model message `m`, with
    /// field `alt` (if any) replaced by an alternative of equal length.
    fn build_6492(
        &mut self, m: &Value, alt: &str
    ) -> Result<provisioning::Message, String> {
        let mut snd = str_arg(m, "snd").to_string();
        let mut rcp = str_arg(m, "rcp").to_string();
        let mut ckey = str_arg(m, "ckey").to_string();
        match alt {
            "snd" => snd = match snd.as_str() {
                "c1" => "c2", "c2" => "c1", _ => "c1"
            }.into(),
            "rcp" => rcp = match rcp.as_str() {
                "P" => "O", _ => "P"
            }.into(),
            "pay" => ckey = match ckey.as_str() {
                "a1" => "a2", "a2" => "a1", "b1" => "b2", _ => "a1",
            }.into(),
            _ => { }
        }
        let sender = rpki::ca::idexchange::SenderHandle::from_str(&snd)
            .map_err(|e| e.to_string())?;
        let recipient: rpki::ca::idexchange::RecipientHandle
            = server_handle(&rcp).convert();
        let class = self.class[str_arg(m, "tgt")].clone();
        match str_arg(m, "kind") {
            "list" => {
                if alt == "pay" {
                    return Err("list has no payload".into())
                }
                Ok(provisioning::Message::list(sender, recipient))
            }
            "issue" => {
                let ki = self.cakey(&ckey);
                let repo = RepoInfo::new(
                    uri::Rsync::from_str(&format!(
                        "{}{}/", world::RSYNC_BASE, str_arg(m, "snd")
                    )).unwrap(),
                    Some(uri::Https::from_str(&format!(
                        "{}notification.xml", world::RRDP_BASE
                    )).unwrap()),
                );
                let csr = self.signer().sign_csr(&repo, "0", &ki).map_err(
                    |e| format!("csr: {e}")
                )?;
                let mut limit = RequestResourceLimit::new();
                let lim = m.get("lim").and_then(|l| l.as_array()).cloned()
                    .unwrap_or_default();
                let names: Vec<&str> = lim.iter().filter_map(|a| {
                    a.as_str()
                }).filter(|a| *a != "none").collect();
                if !names.is_empty() {
                    let set = atom_set(&names);
                    limit.with_ipv4(set.ipv4().clone());
                }
                Ok(provisioning::Message::issue(
                    sender, recipient,
                    IssuanceRequest::new(class, limit, csr),
                ))
            }
            "revoke" => {
                let ki = self.cakey(&ckey);
                Ok(provisioning::Message::revoke(
                    sender, recipient, RevocationRequest::new(class, ki),
                ))
            }
            other => Err(format!("unknown kind {other}")),
        }
    }

    /// Builds the CMS bytes for a model message, including tampering.
    fn cms_6492(&mut self, m: &Value) -> Result<Bytes, String> {
        let key = self.signing_key(str_arg(m, "key"));
        let tam = str_arg(m, "tam");
        let claimed = self.build_6492(m, "")?;
        if tam.is_empty() || tam == "none" {
            let cms = self.signer().create_rfc6492_cms(claimed, &key)
                .map_err(|e| format!("sign: {e}"))?;
            return Ok(cms.to_bytes())
        }
        // sign an alternative message, then patch the content so that it
        // reads as the claimed message (content differs from what was
        // signed, signature untouched)
        let signed = self.build_6492(m, tam)?;
        let signed_xml = signed.to_xml_bytes();
        let claimed_xml = claimed.to_xml_bytes();
        let cms = self.signer().create_rfc6492_cms(signed, &key)
            .map_err(|e| format!("sign: {e}"))?;
        patch(cms.to_bytes(), &signed_xml, &claimed_xml)
    }

    fn req_6492(&mut self, m: &Value, bytes: Bytes) -> Value {
        self.reqno += 1;
        let before = self.finger();
        let actor = world::actor(&self.env);
        let target = server_handle(str_arg(m, "tgt"));
        let ua = format!("kv-auth-{}", self.reqno);
        let krill = self.env.krill.clone();
        let tc = std::time::Instant::now();
        let outcome = guarded(|| {
            krill.ca_manager().rfc6492(
                &target, bytes, Some(ua), &actor, &krill
            )
        });
        T_CALL.fetch_add(tc.elapsed().as_micros() as u64, std::sync::atomic::Ordering::Relaxed);
        let after = self.finger();
        self.update_seen();
        let chg = Self::changed(&before, &after);
        let mut ev = serde_json::Map::new();
        ev.insert("chg".into(), json!(chg));
        match outcome {
            Outcome::Ok(Ok(reply)) => {
                self.classify_6492(m, &reply, &mut ev);
            }
            Outcome::Ok(Err(e)) => {
                ev.insert("verdict".into(), json!("err"));
                ev.insert("rk".into(), json!("none"));
                ev.insert("rtype".into(), json!("error"));
                ev.insert("info".into(), json!(short(&e.to_string())));
            }
            Outcome::Panic(msg) | Outcome::Crash(msg) => {
                ev.insert("verdict".into(), json!("panic"));
                ev.insert("rk".into(), json!("none"));
                ev.insert("rtype".into(), json!("panic"));
                ev.insert("info".into(), json!(short(&msg)));
            }
        }
        Value::Object(ev)
    }

    fn classify_6492(
        &mut self, m: &Value, reply: &Bytes,
        ev: &mut serde_json::Map<String, Value>,
    ) {
        let cms = match ProvisioningCms::decode(reply.as_ref()) {
            Ok(cms) => cms,
            Err(e) => {
                ev.insert("verdict".into(), json!("garbled"));
                ev.insert("rk".into(), json!("?"));
                ev.insert("rtype".into(), json!("undecodable"));
                ev.insert("info".into(), json!(short(&e.to_string())));
                return
            }
        };
        let rk = self.reply_key(|key| cms.validate(key).is_ok());
        ev.insert("rk".into(), json!(rk));
        let msg = cms.into_message();
        ev.insert("rsnd".into(), json!(msg.sender().as_str()));
        ev.insert("rrcp".into(), json!(msg.recipient().as_str()));
        let kind = str_arg(m, "kind");
        let mut certs = Vec::new();
        let mut lent = Vec::new();
        let (rtype, positive) = match msg.payload() {
            provisioning::Payload::ListResponse(list) => {
                for class in list.classes() {
                    lent.extend(to_atoms(class.resource_set()));
                    for ic in class.issued_certs() {
                        certs.push(self.cert_entry(ic.cert()));
                    }
                }
                ("list_response".to_string(), kind == "list")
            }
            provisioning::Payload::IssueResponse(resp) => {
                let resp = resp.clone();
                let issued = resp.into_issued();
                certs.push(self.cert_entry(issued.cert()));
                ("issue_response".to_string(), kind == "issue")
            }
            provisioning::Payload::RevokeResponse(resp) => {
                certs.push(json!([self.cakey_name(resp.key()), []]));
                ("revoke_response".to_string(), kind == "revoke")
            }
            provisioning::Payload::ErrorResponse(e) => {
                (format!("error_response:{}", e.status()), false)
            }
            other => (format!("{}", other.payload_type()), false),
        };
        certs.sort_by_key(|c| c.to_string());
        ev.insert("rtype".into(), json!(rtype));
        ev.insert("rcerts".into(), json!(certs));
        ev.insert("rent".into(), json!(lent));
        ev.insert("verdict".into(), json!(
            if positive { "ok" } else { "err" }
        ));
    }

    //--- RFC 8181 -----------------------------------------------------------

    fn uri_for(name: &str) -> uri::Rsync {
        uri::Rsync::from_str(&format!("{}{}", world::RSYNC_BASE, name))
            .unwrap()
    }

    fn current_hash(&self, uri_name: &str) -> Option<rpki::rrdp::Hash> {
        let rm = self.env.krill.repo_manager();
        for publ in ["p1", "p2"] {
            let handle = PublisherHandle::from_str(publ).unwrap();
            if let Ok(details) = rm.get_publisher_details(handle) {
                for file in &details.current_files {
                    if self.uri_name(&file.uri) == uri_name {
                        return Some(file.base64.to_hash())
                    }
                }
            }
        }
        None
    }

    fn build_8181(
        &mut self, m: &Value, alt: &str
    ) -> Result<publication::Message, String> {
        let mut uri_name = str_arg(m, "uri").to_string();
        let mut val = str_arg(m, "val").to_string();
        match alt {
            // same length alternatives
            "uri" => {
                let mut chars: Vec<char> = uri_name.chars().collect();
                if let Some(last) = chars.last_mut() {
                    *last = if *last == 'x' { 'y' } else { 'x' };
                }
                uri_name = chars.into_iter().collect();
            }
            "pay" => {
                val = if val == "d1" { "d2" } else { "d1" }.into();
            }
            _ => { }
        }
        match str_arg(m, "kind") {
            "list" => {
                if !alt.is_empty() {
                    return Err("list has no payload".into())
                }
                Ok(publication::Message::list_query())
            }
            "publish" => {
                // publish, or update if the URI is currently in use (the
                // hash is the current one: publisher isolation is the
                // subject here, delta semantics belong to C10)
                let uri = Self::uri_for(&uri_name);
                let content = Base64::from_content(val.as_bytes());
                let mut delta = PublishDelta::empty();
                match self.current_hash(str_arg(m, "uri")) {
                    Some(hash) => delta.add_update(
                        Update::new(None, uri, content, hash)
                    ),
                    None => delta.add_publish(
                        Publish::new(None, uri, content)
                    ),
                }
                Ok(publication::Message::delta(delta))
            }
            "withdraw" => {
                let uri = Self::uri_for(&uri_name);
                let hash = self.current_hash(str_arg(m, "uri"))
                    .unwrap_or_else(|| {
                        Base64::from_content(b"none").to_hash()
                    });
                let mut delta = PublishDelta::empty();
                delta.add_withdraw(Withdraw::new(None, uri, hash));
                Ok(publication::Message::delta(delta))
            }
            other => Err(format!("unknown kind {other}")),
        }
    }

    fn cms_8181(&mut self, m: &Value) -> Result<Bytes, String> {
        let key = self.signing_key(str_arg(m, "key"));
        let tam = str_arg(m, "tam");
        let claimed = self.build_8181(m, "")?;
        if tam.is_empty() || tam == "none" {
            let cms = self.signer().create_rfc8181_cms(claimed, &key)
                .map_err(|e| format!("sign: {e}"))?;
            return Ok(cms.to_bytes())
        }
        let signed = self.build_8181(m, tam)?;
        let signed_xml = signed.to_xml_bytes();
        let claimed_xml = claimed.to_xml_bytes();
        let cms = self.signer().create_rfc8181_cms(signed, &key)
            .map_err(|e| format!("sign: {e}"))?;
        patch(cms.to_bytes(), &signed_xml, &claimed_xml)
    }

    fn req_8181(&mut self, m: &Value, bytes: Bytes) -> Value {
        self.reqno += 1;
        let before = self.finger();
        let handle = PublisherHandle::from_str(str_arg(m, "snd")).unwrap();
        let krill = self.env.krill.clone();
        let outcome = guarded(|| {
            krill.repo_manager().rfc8181(handle, bytes, &krill)
        });
        let after = self.finger();
        let chg = Self::changed(&before, &after);
        let mut ev = serde_json::Map::new();
        ev.insert("chg".into(), json!(chg));
        match outcome {
            Outcome::Ok(Ok(reply)) => {
                self.classify_8181(m, &reply, &mut ev);
            }
            Outcome::Ok(Err(e)) => {
                ev.insert("verdict".into(), json!("err"));
                ev.insert("rk".into(), json!("none"));
                ev.insert("rtype".into(), json!("error"));
                ev.insert("info".into(), json!(short(&e.to_string())));
            }
            Outcome::Panic(msg) | Outcome::Crash(msg) => {
                ev.insert("verdict".into(), json!("panic"));
                ev.insert("rk".into(), json!("none"));
                ev.insert("rtype".into(), json!("panic"));
                ev.insert("info".into(), json!(short(&msg)));
            }
        }
        Value::Object(ev)
    }

    fn classify_8181(
        &mut self, m: &Value, reply: &Bytes,
        ev: &mut serde_json::Map<String, Value>,
    ) {
        let cms = match PublicationCms::decode(reply.as_ref()) {
            Ok(cms) => cms,
            Err(e) => {
                ev.insert("verdict".into(), json!("garbled"));
                ev.insert("rk".into(), json!("?"));
                ev.insert("rtype".into(), json!("undecodable"));
                ev.insert("info".into(), json!(short(&e.to_string())));
                return
            }
        };
        let rk = self.reply_key(|key| cms.validate(key).is_ok());
        ev.insert("rk".into(), json!(rk));
        let kind = str_arg(m, "kind");
        let mut objs = Vec::new();
        let (rtype, positive) = match cms.into_message().as_reply() {
            Ok(publication::Reply::List(list)) => {
                for el in list.elements() {
                    objs.push(json!(self.uri_name(el.uri())));
                }
                ("list_reply".to_string(), kind == "list")
            }
            Ok(publication::Reply::Success) => {
                ("success".to_string(), kind != "list")
            }
            Ok(publication::Reply::ErrorReply(e)) => {
                (format!("error_reply:{}", short(&e.to_string())), false)
            }
            Err(e) => (format!("not_a_reply:{e}"), false),
        };
        objs.sort_by_key(|c| c.to_string());
        ev.insert("rtype".into(), json!(rtype));
        ev.insert("robjs".into(), json!(objs));
        ev.insert("verdict".into(), json!(
            if positive { "ok" } else { "err" }
        ));
    }

    //--- identity updates ---------------------------------------------------

    fn child_id(&mut self, a: &Value) -> Result<(), String> {
        let actor = world::actor(&self.env);
        let cert = self.ident(str_arg(a, "key")).cert.clone();
        self.env.krill.ca_manager().ca_child_update(
            &server_handle(str_arg(a, "srv")),
            ChildHandle::from_str(str_arg(a, "c")).unwrap(),
            UpdateChildRequest::id_cert(cert), &actor, &self.env.krill,
        ).map_err(|e| e.to_string())
    }

    fn suspend(&mut self, a: &Value) -> Result<(), String> {
        let actor = world::actor(&self.env);
        self.env.krill.ca_manager().ca_child_update(
            &server_handle(str_arg(a, "srv")),
            ChildHandle::from_str(str_arg(a, "c")).unwrap(),
            UpdateChildRequest::suspend(), &actor, &self.env.krill,
        ).map_err(|e| e.to_string())
    }

    fn server_id(&mut self, a: &Value) -> Result<(), String> {
        let actor = world::actor(&self.env);
        self.env.krill.ca_manager().ca_update_id(
            server_handle(str_arg(a, "srv")), &actor, &self.env.krill,
        ).map_err(|e| e.to_string())
    }

    fn pub_rereg(&mut self, a: &Value) -> Result<(), String> {
        let actor = world::actor(&self.env);
        let publ = str_arg(a, "c").to_string();
        self.env.krill.repo_manager().remove_publisher(
            PublisherHandle::from_str(&publ).unwrap(), &actor,
            &self.env.krill,
        ).map_err(|e| e.to_string())?;
        self.register_publisher(&publ, str_arg(a, "key"))
    }

    //--- vectors ------------------------------------------------------------

    /// Sends a batch of messages that the specification refuses in the
    /// current state. Returns the summary and the full events of those
    /// that were not plainly refused (error, nothing touched, no reply).
    fn vectors(&mut self, msgs: &[&Value]) -> (Value, Vec<Value>) {
        let mut plain = 0u64;
        let mut skipped = 0u64;
        let mut deviating = 0u64;
        let mut emitted = Vec::new();
        for m in msgs {
            self.top_up_keys();
            let is_pub = str_arg(m, "p") == "pub";
            let bytes = if is_pub { self.cms_8181(m) }
                else { self.cms_6492(m) };
            let bytes = match bytes {
                Ok(bytes) => bytes,
                Err(_) => { skipped += 1; continue }
            };
            let res = if is_pub { self.req_8181(m, bytes) }
                else { self.req_6492(m, bytes) };
            let plain_refusal = str_arg(&res, "verdict") == "err"
                && str_arg(&res, "rk") == "none"
                && res.get("chg").and_then(|c| c.as_array()).map(|c| {
                    c.is_empty()
                }).unwrap_or(false);
            if plain_refusal {
                plain += 1;
            }
            else if emitted.len() >= 10 {
                // the first ones are written out in full, that is enough
                // to reject the trace
                deviating += 1;
            }
            else {
                deviating += 1;
                let mut ev = serde_json::Map::new();
                ev.insert("ev".into(), json!("Req"));
                ev.insert("vector".into(), json!(true));
                for (k, v) in m.as_object().unwrap() {
                    ev.insert(k.clone(), v.clone());
                }
                for (k, v) in res.as_object().unwrap() {
                    ev.insert(k.clone(), v.clone());
                }
                ev.insert("st".into(), self.project());
                emitted.push(Value::Object(ev));
            }
        }
        (json!({
            "n": msgs.len(), "refused": plain, "skipped": skipped,
            "deviating": deviating, "emitted": emitted.len(),
        }), emitted)
    }

    /// Keeps the key pool filled with keys that were not used for any
    /// identity or certificate key of this world.
    fn top_up_keys(&mut self) {
        if std::env::var_os("VERIF_NO_KEYPOOL").is_some() {
            return
        }
        if krill::verif::key_pool_len() < self.keys_used_hint + 80 {
            refill_keys(self.key_base + self.keys_used_hint + 20);
        }
    }

    //--- bit flips ----------------------------------------------------------

    /// Single-bit corruption of one valid message: exploration, judged by
    /// the harness itself (summary event).
    fn bitflips(&mut self, a: &Value) -> Value {
        let m = a.get("m").cloned().unwrap_or(json!({}));
        let is_pub = str_arg(&m, "p") == "pub";
        let bytes = if is_pub { self.cms_8181(&m) } else { self.cms_6492(&m) };
        let bytes = match bytes {
            Ok(b) => b,
            Err(e) => return json!({"bad": -1, "info": e}),
        };
        let nbits = bytes.len() * 8;
        let count = int_arg(a, "n") as usize;
        let seed = int_arg(a, "seed") as u64;
        let positions: Vec<usize> = if count == 0 || count >= nbits {
            (0..nbits).collect()
        }
        else {
            // seeded sample without replacement (LCG based shuffle)
            let mut state = seed.wrapping_mul(6364136223846793005)
                .wrapping_add(1442695040888963407);
            let mut all: Vec<usize> = (0..nbits).collect();
            for i in 0..count {
                state = state.wrapping_mul(6364136223846793005)
                    .wrapping_add(1442695040888963407);
                let j = i + ((state >> 33) as usize) % (nbits - i);
                all.swap(i, j);
            }
            all.truncate(count);
            all
        };
        // the original, decoded, and the key it must validate under
        let reg_key = {
            let name = str_arg(&m, "key").to_string();
            self.ident(&name).cert.public_key().clone()
        };
        let orig_6492 = if is_pub { None } else {
            ProvisioningCms::decode(bytes.as_ref()).ok().map(|c| {
                c.into_message()
            })
        };
        let orig_8181 = if is_pub {
            PublicationCms::decode(bytes.as_ref()).ok().map(|c| {
                c.into_message()
            })
        } else { None };
        let mut refused = 0u64;
        let mut accepted_equiv = 0u64;
        let mut declined_equiv = 0u64;
        let mut anomalies = Vec::new();
        for pos in &positions {
            self.top_up_keys();
            let mut flipped = bytes.to_vec();
            flipped[pos / 8] ^= 1 << (7 - pos % 8);
            let flipped = Bytes::from(flipped);
            // equivalent: decodes to the identical message and still
            // validates under the registered key
            let equiv = if is_pub {
                PublicationCms::decode(flipped.as_ref()).ok().map(|c| {
                    c.validate(&reg_key).is_ok()
                    && Some(c.into_message()) == orig_8181
                }).unwrap_or(false)
            }
            else {
                ProvisioningCms::decode(flipped.as_ref()).ok().map(|c| {
                    c.validate(&reg_key).is_ok()
                    && Some(c.into_message()) == orig_6492
                }).unwrap_or(false)
            };
            let ev = if is_pub {
                self.req_8181(&m, flipped)
            } else {
                self.req_6492(&m, flipped)
            };
            let verdict = str_arg(&ev, "verdict").to_string();
            let chg = ev.get("chg").and_then(|c| c.as_array()).map(|c| {
                c.len()
            }).unwrap_or(0);
            // a signed reply other than an error means "acted upon"
            let acted = verdict == "ok" || chg > 0;
            if equiv {
                if verdict == "ok" { accepted_equiv += 1 }
                else { declined_equiv += 1 }
            }
            else if acted || verdict == "panic" || verdict == "garbled" {
                if anomalies.len() < 10 {
                    anomalies.push(json!({"bit": pos, "ev": ev}));
                }
            }
            else {
                refused += 1;
            }
        }
        json!({
            "bits": nbits, "tried": positions.len(), "refused": refused,
            "accepted_equiv": accepted_equiv,
            "declined_equiv": declined_equiv,
            "bad": anomalies.len(), "anomalies": anomalies,
        })
    }
}

pub static T_FINGER: std::sync::atomic::AtomicU64 = std::sync::atomic::AtomicU64::new(0);
pub static T_CALL: std::sync::atomic::AtomicU64 = std::sync::atomic::AtomicU64::new(0);
pub static T_DISK: std::sync::atomic::AtomicU64 = std::sync::atomic::AtomicU64::new(0);

fn short(s: &str) -> String {
    s.chars().take(160).collect()
}

/// Replaces the first occurrence of `from` in `bytes` by `to` (equal
/// lengths, so that all DER length fields stay correct).
fn patch(bytes: Bytes, from: &[u8], to: &[u8]) -> Result<Bytes, String> {
    if from.len() != to.len() {
        return Err(format!(
            "tamper: lengths differ ({} vs {})", from.len(), to.len()
        ))
    }
    if from == to {
        return Err("tamper: alternative equals claimed content".into())
    }
    let data = bytes.to_vec();
    let pos = data.windows(from.len()).position(|w| w == from).ok_or(
        "tamper: signed content not found in CMS"
    )?;
    let mut data = data;
    data[pos..pos + to.len()].copy_from_slice(to);
    Ok(Bytes::from(data))
}

pub fn run(
    behaviours: &Path, out: &Path, workdir: &Path, universe: Option<&Path>,
) {
    let behaviours = read_ndjson(behaviours);
    let universe: Vec<Value> = universe.map(|path| {
        let text = std::fs::read_to_string(path).unwrap_or_else(|e| {
            eprintln!("cannot read {}: {e}", path.display());
            std::process::exit(2);
        });
        serde_json::from_str(&text).unwrap_or_else(|e| {
            eprintln!("bad universe file: {e}");
            std::process::exit(2);
        })
    }).unwrap_or_default();
    let mut trace = TraceOut::create(out);
    for (idx, beh) in behaviours.iter().enumerate() {
        let id = beh.get("id").cloned().unwrap_or(json!(idx));
        let actions = beh.get("actions").and_then(|a| a.as_array()).cloned()
            .unwrap_or_default();
        let key_base = (idx * 97 + int_arg(beh, "keyoff") as usize) % 1400;
        let dir = workdir.join(format!("b{idx}"));
        let mut w = match World::create(&dir, key_base) {
            Ok(w) => w,
            Err(e) => {
                eprintln!("set-up failed for behaviour {id}: {e}");
                std::process::exit(3);
            }
        };
        w.update_seen();
        let st = w.project();
        trace.push(&json!({
            "ev": "reset", "behaviour": id, "st": st,
            "class": {"P": w.class["P"].to_string(),
                      "O": w.class["O"].to_string()},
        }));
        for a in &actions {
            let name = str_arg(a, "a");
            let mut ev = serde_json::Map::new();
            ev.insert("ev".into(), json!(name));
            for (k, v) in a.as_object().unwrap() {
                if k != "a" {
                    ev.insert(k.clone(), v.clone());
                }
            }
            w.top_up_keys();
            match name {
                "Vectors" => {
                    let idx: Vec<usize> = a.get("idx").and_then(|i| {
                        i.as_array()
                    }).map(|i| i.iter().filter_map(|x| {
                        x.as_u64().map(|x| x as usize)
                    }).collect()).unwrap_or_default();
                    let msgs: Vec<&Value> = idx.iter().map(|i| {
                        &universe[*i]
                    }).collect();
                    let (summary, emitted) = w.vectors(&msgs);
                    for e in emitted {
                        trace.push(&e);
                    }
                    ev.remove("idx");
                    for (k, v) in summary.as_object().unwrap() {
                        ev.insert(k.clone(), v.clone());
                    }
                }
                "Req" => {
                    let is_pub = str_arg(a, "p") == "pub";
                    let bytes = if is_pub { w.cms_8181(a) }
                        else { w.cms_6492(a) };
                    match bytes {
                        Ok(bytes) => {
                            let res = if is_pub { w.req_8181(a, bytes) }
                                else { w.req_6492(a, bytes) };
                            for (k, v) in res.as_object().unwrap() {
                                ev.insert(k.clone(), v.clone());
                            }
                        }
                        Err(e) => {
                            // the message cannot be built (generator
                            // artefact): recorded, never a verdict
                            ev.insert("verdict".into(), json!("skip"));
                            ev.insert("info".into(), json!(e));
                            ev.insert("chg".into(), json!([]));
                            ev.insert("rk".into(), json!("none"));
                        }
                    }
                }
                "ChildId" | "ServerId" | "PubReReg" | "Suspend" => {
                    let res = match name {
                        "ChildId" => w.child_id(a),
                        "ServerId" => w.server_id(a),
                        "Suspend" => w.suspend(a),
                        _ => w.pub_rereg(a),
                    };
                    ev.insert("verdict".into(), json!(
                        if res.is_ok() { "ok" } else { "err" }
                    ));
                    if let Err(e) = res {
                        ev.insert("info".into(), json!(short(&e)));
                    }
                    w.update_seen();
                }
                "BitFlips" => {
                    let res = w.bitflips(a);
                    for (k, v) in res.as_object().unwrap() {
                        ev.insert(k.clone(), v.clone());
                    }
                }
                other => {
                    eprintln!("unknown action {other}");
                    std::process::exit(2);
                }
            }
            ev.insert("st".into(), w.project());
            trace.push(&Value::Object(ev));
        }
        drop(w);
        let _ = std::fs::remove_dir_all(&dir);
    }
    trace.finish();
    if std::env::var_os("VERIF_TIMING").is_some() {
        eprintln!(
            "timing: finger {} ms (disk {} ms), rfc6492 calls {} ms",
            T_FINGER.load(std::sync::atomic::Ordering::Relaxed) / 1000,
            T_DISK.load(std::sync::atomic::Ordering::Relaxed) / 1000,
            T_CALL.load(std::sync::atomic::Ordering::Relaxed) / 1000,
        );
    }
}
