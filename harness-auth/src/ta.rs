//! run-ta: replays TaExchange.tla behaviours (C15).
use std::path::Path;

pub fn run(_behaviours: &Path, _out: &Path, _workdir: &Path) {
    unimplemented!()
}
