//! run-ta: replays TaExchange.tla behaviours (C15) on the real trust
//! anchor proxy (`CaManager::ta_proxy_*`, `rfc6492` hand-over for local TA
//! children) and the real trust anchor signer
//! (`krill::cli::ta::signer::TrustAnchorSignerManager`, the offline signer
//! of `krillta`, which runs the same `TrustAnchorSigner` aggregate as the
//! embedded one).
//!
//! World: environment A holds the proxy "pA", the repository and the
//! local TA children ca1, ca2; signer S1 is the associated signer, S2 is
//! another signer instance initialised for the same proxy (own TA key and
//! identity); environment B holds another proxy "pB". Messages are the
//! real signed JSON messages; altered ones are made from them with serde
//! or by signing the same content with other keys.

use std::collections::{BTreeMap, BTreeSet, HashMap};
use std::path::{Path, PathBuf};
use std::str::FromStr;
use chrono::Duration;
use krill::api::admin::RepositoryContact;
use krill::api::ta::{
    TrustAnchorSignedRequest, TrustAnchorSignedResponse,
    TrustAnchorSignerRequest, TrustAnchorSignerResponse,
};
use krill::cli::ta::signer::{SignerInitInfo, TrustAnchorSignerManager};
use rpki::ca::idexchange::CaHandle;
use rpki::crypto::KeyIdentifier;
use rpki::repository::crl::Crl;
use rpki::repository::manifest::Manifest;
use rpki::uri;
use serde_json::{json, Value};
use crate::common::*;
use crate::world;

const CHILDREN: &[&str] = &["ca1", "ca2"];
/// A child of the trust anchor whose provisioning requests reach the proxy
/// one at a time: the harness plays it through the entry that processes a
/// validated request (hook verif_rfc6492_process_request; krill refuses
/// signed messages addressed to the trust anchor, and a hosted child
/// presents all its requests in one synchronisation).
const REMOTE: &str = "rc";

fn ta() -> CaHandle {
    world::ca_handle("ta")
}

fn hash_str(s: &str) -> u64 {
    use std::hash::{Hash, Hasher};
    let mut h = std::collections::hash_map::DefaultHasher::new();
    s.hash(&mut h);
    h.finish()
}

/// Canonical text of a serialisable value (hash map order removed).
fn canon<T: serde::Serialize>(value: &T) -> String {
    fn norm(v: Value) -> Value {
        match v {
            Value::Array(items) => {
                let mut items: Vec<Value> = items.into_iter().map(norm)
                    .collect();
                items.sort_by_key(|i| i.to_string());
                Value::Array(items)
            }
            Value::Object(map) => {
                Value::Object(map.into_iter().map(|(k, v)| {
                    (k, norm(v))
                }).collect())
            }
            other => other,
        }
    }
    norm(serde_json::to_value(value).unwrap_or(Value::Null)).to_string()
}

fn walk(dir: &Path, base: &Path, out: &mut Vec<String>) {
    let Ok(rd) = std::fs::read_dir(dir) else { return };
    for entry in rd.flatten() {
        let path = entry.path();
        let Ok(meta) = entry.metadata() else { continue };
        if meta.is_dir() {
            walk(&path, base, out);
        }
        else {
            use std::os::unix::fs::MetadataExt;
            out.push(format!(
                "{}:{}:{}.{}",
                path.strip_prefix(base).unwrap_or(&path).display(),
                meta.len(), meta.mtime(), meta.mtime_nsec(),
            ));
        }
    }
}

fn disk_hash(dir: &Path) -> u64 {
    let mut files = Vec::new();
    walk(dir, dir, &mut files);
    files.sort();
    hash_str(&files.join("\n"))
}

/// One real message with its abstract description.
struct Msg {
    /// "req" or "resp"
    t: &'static str,
    /// the message as JSON (TrustAnchorSignedRequest / -Response)
    json: Value,
}

struct SignerInst {
    dir: PathBuf,
    mgr: TrustAnchorSignerManager,
}

struct World {
    dir: PathBuf,
    env: Env,
    env_b: Option<Env>,
    signers: BTreeMap<String, SignerInst>,
    ta_key_pem: String,
    /// identity key -> model name
    idnames: HashMap<KeyIdentifier, String>,
    nonces: Vec<String>,
    /// per child: certificate keys in order of first appearance
    ckeys: HashMap<String, Vec<KeyIdentifier>>,
    msgs: Vec<Msg>,
    reinits: usize,
    /// identity keys of the signers and other keys used for signing
    known_keys: Vec<(rpki::crypto::PublicKey, String)>,
    rand_key: Option<KeyIdentifier>,
    /// the remote child: certificate keys by model name, what it wants and
    /// what it holds (the environment's book-keeping)
    rc_keys: BTreeMap<String, KeyIdentifier>,
    rc_want: BTreeSet<String>,
    rc_have: BTreeSet<String>,
}

fn short(s: &str) -> String {
    s.chars().take(200).collect()
}

impl World {
    fn signer_config(dir: &Path) -> krill::tasigner::Config {
        krill::tasigner::Config::parse_str(&format!(
            "storage_uri = \"{}/\"\nlog_type = \"stderr\"\n\
             log_level = \"off\"\n",
            dir.display()
        )).unwrap()
    }

    fn create(dir: &Path) -> Result<Self, String> {
        let _ = std::fs::remove_dir_all(dir);
        let env = Env::create(&dir.join("a"), EnvOpts::default())?;
        world::init_repo(&env)?;
        let actor = world::actor(&env);
        let cam = env.krill.ca_manager();
        cam.ta_proxy_init(&env.krill).map_err(|e| format!("proxy: {e}"))?;
        let pub_req = cam.ta_proxy_publisher_request().map_err(|e| {
            e.to_string()
        })?;
        env.krill.repo_manager().create_publisher(pub_req, &actor).map_err(
            |e| format!("ta publisher: {e}")
        )?;
        let response = env.krill.repo_manager().repository_response(
            &ta().convert(), &env.krill
        ).map_err(|e| e.to_string())?;
        let contact = RepositoryContact::try_from_response(response)
            .map_err(|e| e.to_string())?;
        cam.ta_proxy_repository_update(contact, &actor, &env.krill).map_err(
            |e| format!("ta repo: {e}")
        )?;
        // the TA key: one key pair that is imported by every signer that
        // is (re-)initialised as the signer of this TA
        let der = krill::verif::take_pooled_key().map(Ok).unwrap_or_else(|| {
            openssl::rsa::Rsa::generate(2048).and_then(|rsa| {
                openssl::pkey::PKey::from_rsa(rsa)
            }).and_then(|k| k.private_key_to_der())
        }).map_err(|e| e.to_string())?;
        let pkey = openssl::pkey::PKey::private_key_from_der(&der).map_err(
            |e| e.to_string()
        )?;
        let ta_key_pem = String::from_utf8(
            pkey.rsa().and_then(|r| r.private_key_to_pem()).map_err(|e| {
                e.to_string()
            })?
        ).map_err(|e| e.to_string())?;
        let mut w = World {
            dir: dir.into(), env, env_b: None, signers: BTreeMap::new(),
            ta_key_pem, idnames: HashMap::new(), nonces: Vec::new(),
            ckeys: HashMap::new(), msgs: Vec::new(), reinits: 0,
            known_keys: Vec::new(), rand_key: None,
            rc_keys: BTreeMap::new(),
            rc_want: BTreeSet::new(), rc_have: BTreeSet::new(),
        };
        let proxy_ki = w.env.krill.ca_manager().ta_proxy_id().map_err(|e| {
            e.to_string()
        })?.public_key.key_identifier();
        w.idnames.insert(proxy_ki, "pA".into());
        // associated signer S1 and the other instance S2
        w.init_signer("S1", "g1", true, 1)?;
        w.init_signer("S2", "g2", false, 1)?;
        let info = w.signers["S1"].mgr.show().map_err(|e| e.to_string())?;
        w.env.krill.ca_manager().ta_proxy_signer_add(
            info, &actor, &w.env.krill
        ).map_err(|e| format!("signer add: {e}"))?;
        // children
        for (i, child) in CHILDREN.iter().enumerate() {
            let handle = world::ca_handle(child);
            world::create_ca(&w.env, &handle)?;
            world::connect_to_parent(
                &w.env, &handle, &ta(),
                world::resources("", &format!("10.{i}.0.0/16"), ""),
            )?;
        }
        // the remote child: known to the proxy by an identity of its own
        {
            let id_cert = w.env.krill.signer().create_self_signed_id_cert()
                .map_err(|e| e.to_string())?;
            w.env.krill.ca_manager().ca_add_child(
                &ta(),
                krill::api::admin::AddChildRequest {
                    handle: world::ca_handle(REMOTE).convert(),
                    resources: world::resources("", "10.9.0.0/16", ""),
                    id_cert,
                },
                &actor, &w.env.krill,
            ).map_err(|e| format!("add remote child: {e}"))?;
        }
        w.publish_ta();
        Ok(w)
    }

    fn init_signer(
        &mut self, name: &str, idname: &str, ta_key: bool, number: u64,
    ) -> Result<(), String> {
        let dir = self.dir.join(format!("{name}-{}", self.reinits));
        let _ = std::fs::remove_dir_all(&dir);
        std::fs::create_dir_all(&dir).map_err(|e| e.to_string())?;
        let mgr = TrustAnchorSignerManager::create(
            Self::signer_config(&dir)
        ).map_err(|e| format!("signer create: {e}"))?;
        let cam = self.env.krill.ca_manager();
        let proxy_id = cam.ta_proxy_id().map_err(|e| e.to_string())?;
        let contact = cam.ta_proxy_repository_contact().map_err(|e| {
            e.to_string()
        })?;
        mgr.init(SignerInitInfo {
            proxy_id,
            repo_info: contact.repo_info,
            tal_https: vec![uri::Https::from_str(
                "https://repo.example.net/ta/ta.cer"
            ).unwrap()],
            tal_rsync: uri::Rsync::from_str(
                "rsync://repo.example.net/ta/ta.cer"
            ).unwrap(),
            private_key_pem: if ta_key {
                Some(self.ta_key_pem.clone())
            } else { None },
            ta_mft_nr_override: Some(number),
        }).map_err(|e| format!("signer init: {e}"))?;
        let info = mgr.show().map_err(|e| e.to_string())?;
        self.idnames.insert(
            info.id.public_key.key_identifier(), idname.into()
        );
        self.known_keys.push((info.id.public_key.clone(), idname.into()));
        self.signers.insert(name.into(), SignerInst { dir, mgr });
        Ok(())
    }

    //--- projection ---------------------------------------------------------

    fn nonce_id(&mut self, nonce: &str) -> usize {
        if let Some(pos) = self.nonces.iter().position(|n| n == nonce) {
            return pos + 1
        }
        self.nonces.push(nonce.into());
        self.nonces.len()
    }

    fn ckey_name(&mut self, child: &str, ki: &KeyIdentifier) -> String {
        if child == REMOTE {
            return self.rc_keys.iter().find(|(_, k)| *k == ki)
                .map(|(n, _)| n.clone()).unwrap_or_else(|| format!("?{ki}"))
        }
        let keys = self.ckeys.entry(child.into()).or_default();
        let pos = match keys.iter().position(|k| k == ki) {
            Some(pos) => pos,
            None => { keys.push(*ki); keys.len() - 1 }
        };
        format!("k{}", (b'a' + pos as u8) as char)
    }

    /// "i:ka" / "r:ka" for the entries of a key -> request/response map.
    fn req_ids(&mut self, child: &str, map: &Value) -> Vec<String> {
        let mut res = Vec::new();
        if let Some(map) = map.as_object() {
            for (key, val) in map {
                let Ok(ki) = KeyIdentifier::from_str(key) else { continue };
                let kind = if val.get("Issuance").is_some() { "i" }
                    else if val.get("Revocation").is_some() { "r" }
                    else { "e" };
                res.push(format!("{kind}:{}", self.ckey_name(child, &ki)));
            }
        }
        res.sort();
        res
    }

    fn id_name(&self, ki: &KeyIdentifier) -> String {
        self.idnames.get(ki).cloned().unwrap_or_else(|| format!("?{ki}"))
    }

    /// Manifest and CRL numbers decoded from a set of published files.
    fn numbers(files: &[krill::api::admin::PublishedFile]) -> (i64, i64) {
        let mut mft = -1;
        let mut crl = -1;
        for file in files {
            let name = file.uri.to_string();
            let bytes = file.base64.to_bytes();
            if name.ends_with(".mft") {
                if let Ok(m) = Manifest::decode(bytes.as_ref(), true) {
                    mft = serial_to_i64(&m.content().manifest_number());
                }
            }
            else if name.ends_with(".crl") {
                if let Ok(c) = Crl::decode(bytes.as_ref()) {
                    crl = serial_to_i64(&c.crl_number());
                }
            }
        }
        (mft, crl)
    }

    fn project(&mut self) -> Value {
        let krill = self.env.krill.clone();
        let cam = krill.ca_manager();
        let mut st = serde_json::Map::new();
        // proxy
        let proxy = cam.get_trust_anchor_proxy().ok();
        let pj = proxy.as_ref().map(|p| {
            serde_json::to_value(&**p).unwrap_or(Value::Null)
        }).unwrap_or(Value::Null);
        let open = pj.get("open_signer_request").and_then(|n| n.as_str())
            .map(|n| self.nonce_id(n)).unwrap_or(0);
        st.insert("open".into(), json!(open));
        st.insert("nn".into(), json!(self.nonces.len()));
        let assoc = pj.pointer("/signer/id/public_key").cloned().and_then(
            |k| serde_json::from_value::<rpki::crypto::PublicKey>(k).ok()
        ).map(|k| self.id_name(&k.key_identifier())).unwrap_or("none".into());
        st.insert("assoc".into(), json!(assoc));
        let mut reqs = serde_json::Map::new();
        let mut resp = serde_json::Map::new();
        for child in CHILDREN.iter().chain(std::iter::once(&REMOTE)) {
            let details = pj.pointer(&format!("/child_details/{child}"))
                .cloned().unwrap_or(Value::Null);
            reqs.insert(child.to_string(), json!(self.req_ids(
                child, details.get("open_requests").unwrap_or(&Value::Null)
            )));
            resp.insert(child.to_string(), json!(self.req_ids(
                child, details.get("open_responses").unwrap_or(&Value::Null)
            )));
        }
        st.insert("reqs".into(), Value::Object(reqs));
        st.insert("resp".into(), Value::Object(resp));
        // TA manifest / CRL numbers: what the proxy holds ...
        let (pmft, pcrl) = proxy.as_ref().and_then(|p| {
            p.get_trust_anchor_objects().ok().and_then(|o| {
                o.publish_elements().ok()
            })
        }).map(|files| Self::numbers(&files)).unwrap_or((-1, -1));
        st.insert("pnum".into(), json!([pmft, pcrl]));
        // ... and what the repository serves for the TA
        let (rmft, rcrl) = krill.repo_manager().get_publisher_details(
            ta().convert()
        ).map(|d| Self::numbers(&d.current_files)).unwrap_or((-1, -1));
        st.insert("rnum".into(), json!([rmft, rcrl]));
        // signers
        let mut sg = serde_json::Map::new();
        let names: Vec<String> = self.signers.keys().cloned().collect();
        for name in names {
            let inst = &self.signers[&name];
            let info = inst.mgr.show().ok();
            let (smft, scrl) = info.as_ref().and_then(|i| {
                i.objects.publish_elements().ok()
            }).map(|files| Self::numbers(&files)).unwrap_or((-1, -1));
            let id = info.as_ref().map(|i| {
                self.id_name(&i.id.public_key.key_identifier())
            }).unwrap_or("none".into());
            let exchanges = inst.mgr.show_exchanges().ok().map(|e| {
                serde_json::to_value(&e).ok().and_then(|v| {
                    v.as_array().map(|a| a.len())
                }).unwrap_or(0)
            }).unwrap_or(0);
            sg.insert(name, json!({
                "id": id, "num": [smft, scrl], "done": exchanges,
            }));
        }
        st.insert("signers".into(), Value::Object(sg));
        // children: pending requests and keys holding a certificate
        let mut want = serde_json::Map::new();
        let mut have = serde_json::Map::new();
        for child in CHILDREN {
            let mut w = Vec::new();
            let mut h = Vec::new();
            if let Ok(ca) = cam.get_ca(&world::ca_handle(child)) {
                let parent = ta().convert();
                for (_, reqs) in ca.cert_requests(&parent) {
                    for req in reqs {
                        let ki = req.csr().public_key().key_identifier();
                        w.push(format!("i:{}", self.ckey_name(child, &ki)));
                    }
                }
                for (_, reqs) in ca.revoke_requests(&parent) {
                    for req in reqs {
                        w.push(format!(
                            "r:{}", self.ckey_name(child, &req.key())
                        ));
                    }
                }
                let info = serde_json::to_value(ca.as_ca_info())
                    .unwrap_or(Value::Null);
                collect_cert_keys(&info, &mut |ki| {
                    h.push(self.ckey_name(child, &ki));
                });
            }
            w.sort();
            w.dedup();
            h.sort();
            h.dedup();
            want.insert(child.to_string(), json!(w));
            have.insert(child.to_string(), json!(h));
        }
        want.insert(REMOTE.to_string(), json!(
            self.rc_want.iter().cloned().collect::<Vec<_>>()
        ));
        have.insert(REMOTE.to_string(), json!(
            self.rc_have.iter().cloned().collect::<Vec<_>>()
        ));
        st.insert("want".into(), Value::Object(want));
        st.insert("have".into(), Value::Object(have));
        Value::Object(st)
    }

    /// Fingerprints of the functional state: proxy (without the version
    /// counter: krill records refused commands in its audit trail, which
    /// is not a change of state), TA objects in the repository, signers.
    fn finger(&self) -> BTreeMap<String, u64> {
        let mut parts = BTreeMap::new();
        let cam = self.env.krill.ca_manager();
        let proxy = cam.get_trust_anchor_proxy().map(|p| {
            let mut v = serde_json::to_value(&*p).unwrap_or(Value::Null);
            if let Some(map) = v.as_object_mut() {
                map.remove("version");
            }
            canon(&v)
        }).unwrap_or_default();
        parts.insert("proxy".into(), hash_str(&proxy));
        let repo = self.env.krill.repo_manager().get_publisher_details(
            ta().convert()
        ).map(|d| canon(&d)).unwrap_or_default();
        parts.insert("repo".into(), hash_str(&repo));
        for (name, inst) in &self.signers {
            let info = inst.mgr.show().map(|i| canon(&i)).unwrap_or_default();
            let ex = inst.mgr.show_exchanges().map(|e| canon(&e))
                .unwrap_or_default();
            parts.insert(name.clone(), hash_str(&format!("{info}{ex}")));
        }
        parts
    }
}

//--- actions ---------------------------------------------------------------

type Res = Result<Value, String>;

impl World {
    fn publish_ta(&self) {
        let _ = self.env.krill.ca_manager().cas_repo_sync_single(
            &ta(), 0, &self.env.slow
        );
    }

    fn open_nonce(&self) -> Option<String> {
        let proxy = self.env.krill.ca_manager().get_trust_anchor_proxy()
            .ok()?;
        let pj = serde_json::to_value(&*proxy).ok()?;
        pj.get("open_signer_request").and_then(|n| n.as_str()).map(|n| {
            n.to_string()
        })
    }

    /// Who signed a message (model name of the identity key under which
    /// the signed part validates), "?" if none of the known ones.
    fn signed_by(&self, msg: &Value) -> String {
        let Some(signed) = msg.get("signed").cloned() else {
            return "?".into()
        };
        let Ok(signed) = serde_json::from_value::<
            krill::api::ta::TrustAnchorSignedMessage
        >(signed) else {
            return "?".into()
        };
        let mut keys: Vec<(String, rpki::crypto::PublicKey)> = Vec::new();
        let cam = self.env.krill.ca_manager();
        if let Ok(id) = cam.ta_proxy_id() {
            keys.push(("pA".into(), id.public_key.clone()));
        }
        if let Some(b) = &self.env_b {
            if let Ok(id) = b.krill.ca_manager().ta_proxy_id() {
                keys.push(("pB".into(), id.public_key.clone()));
            }
        }
        for (key, name) in &self.known_keys {
            keys.push((name.clone(), key.clone()));
        }
        for (name, key) in keys {
            if signed.validate(&key).is_ok() {
                return name
            }
        }
        "?".into()
    }

    /// Abstract description of a real message.
    fn describe(&mut self, t: &str, msg: &Value) -> Value {
        let by = self.signed_by(msg);
        let body = msg.get(if t == "req" { "request" } else { "response" })
            .cloned().unwrap_or(Value::Null);
        let nonce = body.get("nonce").and_then(|n| n.as_str()).map(|n| {
            self.nonce_id(n)
        }).unwrap_or(0);
        let mut content = Vec::new();
        if t == "req" {
            for cr in body.get("child_requests").and_then(|c| c.as_array())
                .cloned().unwrap_or_default()
            {
                let child = cr.get("child").and_then(|c| c.as_str())
                    .unwrap_or("?").to_string();
                for id in self.req_ids(
                    &child, cr.get("requests").unwrap_or(&Value::Null)
                ) {
                    content.push(json!([child, id]));
                }
            }
            content.sort_by_key(|c| c.to_string());
            json!({"t": "req", "nonce": nonce, "by": by,
                   "content": content, "num": [0, 0]})
        }
        else {
            if let Some(map) = body.get("child_responses").and_then(|c| {
                c.as_object()
            }) {
                for (child, responses) in map {
                    for id in self.req_ids(child, responses) {
                        content.push(json!([child, id]));
                    }
                }
            }
            content.sort_by_key(|c| c.to_string());
            let files = body.get("objects").cloned().and_then(|o| {
                serde_json::from_value::<krill::api::ta::TrustAnchorObjects>(
                    o
                ).ok()
            }).and_then(|o| o.publish_elements().ok()).unwrap_or_default();
            let (mft, crl) = Self::numbers(&files);
            json!({"t": "resp", "nonce": nonce, "by": by,
                   "content": content, "num": [mft, crl]})
        }
    }

    fn push_msg(&mut self, t: &'static str, msg: Value) -> Value {
        let desc = self.describe(t, &msg);
        self.msgs.push(Msg { t, json: msg });
        desc
    }

    fn sync(&mut self, a: &Value) -> Res {
        let child = world::ca_handle(str_arg(a, "c"));
        world::sync_parent(&self.env, &child, &ta()).map(|_| json!({}))
    }

    /// The remote child gets something to ask for ("i:ka": a certificate
    /// for its key ka, "r:ka": the revocation of that key).
    fn rwants(&mut self, a: &Value) -> Res {
        let r = str_arg(a, "r").to_string();
        let key = r.split(':').nth(1).unwrap_or("").to_string();
        if !self.rc_keys.contains_key(&key) {
            let ki = self.env.krill.signer().create_key().map_err(|e| {
                e.to_string()
            })?;
            self.rc_keys.insert(key, ki);
        }
        self.rc_want.insert(r);
        Ok(json!({}))
    }

    /// One provisioning request of the remote child, processed the way a
    /// validated request is.
    fn rc_send(
        &mut self, msg: rpki::ca::provisioning::Message,
    ) -> Result<rpki::ca::provisioning::Payload, String> {
        let krill = self.env.krill.clone();
        let actor = world::actor(&self.env);
        krill.ca_manager().verif_rfc6492_process_request(
            &ta(), msg, Some("remote".into()), &actor, &krill,
        ).map(|m| m.into_payload()).map_err(|e| e.to_string())
    }

    fn sync_one(&mut self, a: &Value) -> Res {
        use rpki::ca::provisioning::{
            IssuanceRequest, Message, Payload, RequestResourceLimit,
            RevocationRequest,
        };
        let r = str_arg(a, "r").to_string();
        if !self.rc_want.contains(&r) {
            return Err("not wanted".into())
        }
        let key = r.split(':').nth(1).unwrap_or("").to_string();
        let ki = *self.rc_keys.get(&key).ok_or("unknown key")?;
        let sender = rpki::ca::idexchange::SenderHandle::from_str(REMOTE)
            .map_err(|e| e.to_string())?;
        let recipient: rpki::ca::idexchange::RecipientHandle
            = ta().convert();
        // the class name the trust anchor uses for its children
        let class = match self.rc_send(
            Message::list(sender.clone(), recipient.clone())
        )? {
            Payload::ListResponse(list) => {
                list.classes().first().map(|c| c.class_name().clone())
                    .ok_or("nothing on offer")?
            }
            other => return Err(format!("list: {other:?}")),
        };
        let msg = if r.starts_with("i:") {
            let repo = rpki::ca::idexchange::RepoInfo::new(
                uri::Rsync::from_str(
                    "rsync://elsewhere.example.org/repo/rc/"
                ).unwrap(),
                Some(uri::Https::from_str(
                    "https://elsewhere.example.org/rrdp/notification.xml"
                ).unwrap()),
            );
            let csr = self.env.krill.signer().sign_csr(&repo, "0", &ki)
                .map_err(|e| format!("csr: {e}"))?;
            Message::issue(sender, recipient, IssuanceRequest::new(
                class, RequestResourceLimit::new(), csr
            ))
        }
        else {
            Message::revoke(
                sender, recipient, RevocationRequest::new(class, ki)
            )
        };
        match self.rc_send(msg)? {
            Payload::IssueResponse(_) => {
                self.rc_want.remove(&r);
                self.rc_have.insert(key);
                Ok(json!({"got": "issued"}))
            }
            Payload::RevokeResponse(_) => {
                self.rc_want.remove(&r);
                self.rc_have.remove(&key);
                Ok(json!({"got": "revoked"}))
            }
            Payload::ErrorResponse(e) => {
                // 1104 scheduled for processing / 1101 already scheduled
                let code = e.status();
                if code == 1104 || code == 1101 {
                    Ok(json!({"got": format!("{code}")}))
                }
                else {
                    Err(format!("error response: {e}"))
                }
            }
            other => Err(format!("unexpected reply: {other:?}")),
        }
    }

    fn roll(&mut self, a: &Value) -> Res {
        let actor = world::actor(&self.env);
        self.env.krill.ca_manager().ca_keyroll_init(
            world::ca_handle(str_arg(a, "c")), Duration::seconds(0),
            &actor, &self.env.krill,
        ).map(|_| json!({})).map_err(|e| e.to_string())
    }

    fn activate(&mut self, a: &Value) -> Res {
        let actor = world::actor(&self.env);
        self.env.krill.ca_manager().ca_keyroll_activate(
            world::ca_handle(str_arg(a, "c")), Duration::seconds(0),
            &actor, &self.env.krill,
        ).map(|_| json!({})).map_err(|e| e.to_string())
    }

    fn make_req(&mut self, get_only: bool) -> Res {
        let actor = world::actor(&self.env);
        let cam = self.env.krill.ca_manager();
        let req = if get_only {
            cam.ta_proxy_signer_get_request(&self.env.krill)
        } else {
            cam.ta_proxy_signer_make_request(&actor, &self.env.krill)
        }.map_err(|e| e.to_string())?;
        let req = TrustAnchorSignedRequest::from(req);
        let msg = serde_json::to_value(&req).map_err(|e| e.to_string())?;
        Ok(json!({"msg": self.push_msg("req", msg)}))
    }

    /// A request made and signed by another proxy instance.
    fn other_proxy_req(&mut self) -> Res {
        if self.env_b.is_none() {
            let env = Env::create(&self.dir.join("b"), EnvOpts::default())?;
            env.krill.ca_manager().ta_proxy_init(&env.krill).map_err(|e| {
                format!("proxy B: {e}")
            })?;
            self.env_b = Some(env);
        }
        let env = self.env_b.as_ref().unwrap();
        let actor = world::actor(env);
        let cam = env.krill.ca_manager();
        let req = match cam.ta_proxy_signer_make_request(&actor, &env.krill) {
            Ok(req) => req,
            Err(_) => cam.ta_proxy_signer_get_request(&env.krill).map_err(
                |e| e.to_string()
            )?,
        };
        let req = TrustAnchorSignedRequest::from(req);
        let msg = serde_json::to_value(&req).map_err(|e| e.to_string())?;
        Ok(json!({"msg": self.push_msg("req", msg)}))
    }

    /// The message of action `a` with its variant applied; None if the
    /// reference cannot be resolved (generator artefact).
    fn variant(&mut self, a: &Value, t: &str) -> Option<Value> {
        let i = int_arg(a, "i") as usize;
        if i == 0 || i > self.msgs.len() || self.msgs[i - 1].t != t {
            return None
        }
        let body_key = if t == "req" { "request" } else { "response" };
        let mut msg = self.msgs[i - 1].json.clone();
        let open = self.open_nonce();
        // the nonce an attacker would want to present
        let wanted = open.clone().or_else(|| self.nonces.last().cloned())
            .unwrap_or_else(|| "00000000-0000-4000-8000-000000000000".into());
        match str_arg(a, "v") {
            "orig" => { }
            "tnonce" => {
                if msg[body_key]["nonce"] == json!(wanted) {
                    return None
                }
                msg[body_key]["nonce"] = json!(wanted);
            }
            "tcontent" => {
                if t == "resp" {
                    let n = msg["response"]["objects"]["revision"]["number"]
                        .as_u64()?;
                    msg["response"]["objects"]["revision"]["number"]
                        = json!(n + 7);
                }
                else {
                    let reqs = msg["request"]["child_requests"]
                        .as_array_mut()?;
                    if reqs.is_empty() {
                        return None
                    }
                    reqs[0]["resources"] = json!({
                        "asn": "AS0-AS4294967295", "ipv4": "0.0.0.0/0",
                        "ipv6": "::/0"
                    });
                }
            }
            "swap" => {
                let k = int_arg(a, "k") as usize;
                if k == 0 || k > self.msgs.len() || k == i
                    || self.msgs[k - 1].t != t
                {
                    return None
                }
                let other = self.msgs[k - 1].json.clone();
                if other[body_key] == msg[body_key] {
                    return None
                }
                msg[body_key] = other[body_key].clone();
            }
            v @ ("rsrand" | "rsproxy") => {
                // the same content, with the nonce the receiver waits
                // for, properly signed - by the wrong key
                let signer = self.env.krill.signer();
                let key = if v == "rsproxy" {
                    self.env.krill.ca_manager().ta_proxy_id().ok()?
                        .public_key.key_identifier()
                } else {
                    if self.rand_key.is_none() {
                        let cert = signer.create_self_signed_id_cert().ok()?;
                        self.known_keys.push((
                            cert.public_key().clone(), "kr".into()
                        ));
                        self.rand_key = Some(
                            cert.public_key().key_identifier()
                        );
                    }
                    self.rand_key?
                };
                let mut body = msg[body_key].clone();
                if t == "resp" {
                    body["nonce"] = json!(wanted);
                    let content: TrustAnchorSignerResponse
                        = serde_json::from_value(body).ok()?;
                    let signed = content.sign(14, key, signer).ok()?;
                    msg = serde_json::to_value(&signed).ok()?;
                }
                else {
                    let content: TrustAnchorSignerRequest
                        = serde_json::from_value(body).ok()?;
                    let signed = content.sign(key, 14, signer).ok()?;
                    msg = serde_json::to_value(&signed).ok()?;
                }
            }
            _ => return None,
        }
        Some(msg)
    }

    fn sign(&mut self, a: &Value) -> Res {
        let name = str_arg(a, "s").to_string();
        let Some(msg) = self.variant(a, "req") else {
            return Ok(json!({"skip": true}))
        };
        let eff = self.describe("req", &msg);
        let request: TrustAnchorSignedRequest = serde_json::from_value(msg)
            .map_err(|e| format!("altered request does not parse: {e}"))?;
        let inst = self.signers.get(&name).ok_or("unknown signer")?;
        let outcome = guarded(|| inst.mgr.process(request, None));
        match outcome {
            Outcome::Ok(Ok(response)) => {
                let msg = serde_json::to_value(&response).map_err(|e| {
                    e.to_string()
                })?;
                // learn the signer's identity key
                Ok(json!({"eff": eff, "msg": self.push_msg("resp", msg)}))
            }
            Outcome::Ok(Err(e)) => {
                Ok(json!({"eff": eff, "refused": short(&e.to_string())}))
            }
            Outcome::Panic(m) | Outcome::Crash(m) => {
                Ok(json!({"eff": eff, "refused": format!("panic {m}"),
                          "panic": true}))
            }
        }
    }

    fn resp(&mut self, a: &Value) -> Res {
        let Some(msg) = self.variant(a, "resp") else {
            return Ok(json!({"skip": true}))
        };
        let eff = self.describe("resp", &msg);
        let response: TrustAnchorSignedResponse = serde_json::from_value(msg)
            .map_err(|e| format!("altered response does not parse: {e}"))?;
        let actor = world::actor(&self.env);
        let krill = self.env.krill.clone();
        let outcome = guarded(|| {
            krill.ca_manager().ta_proxy_signer_process_response(
                response, &actor, &krill
            )
        });
        match outcome {
            Outcome::Ok(Ok(())) => {
                self.publish_ta();
                Ok(json!({"eff": eff}))
            }
            Outcome::Ok(Err(e)) => {
                Ok(json!({"eff": eff, "refused": short(&e.to_string())}))
            }
            Outcome::Panic(m) | Outcome::Crash(m) => {
                Ok(json!({"eff": eff, "refused": format!("panic {m}"),
                          "panic": true}))
            }
        }
    }

    /// The signer is initialised again (same TA key, new identity, the
    /// numbering continued by the operator) and the proxy is told.
    fn reassoc(&mut self) -> Res {
        let actor = world::actor(&self.env);
        let current = self.env.krill.ca_manager().get_trust_anchor_proxy()
            .ok().and_then(|p| {
                p.get_trust_anchor_objects().ok().map(|o| {
                    o.revision().number()
                })
            }).ok_or("no TA objects")?;
        self.reinits += 1;
        let idname = format!("g{}", 2 + self.reinits);
        self.init_signer("S1", &idname, true, current + 1)?;
        let info = self.signers["S1"].mgr.show().map_err(|e| e.to_string())?;
        self.env.krill.ca_manager().ta_proxy_signer_update(
            info, &actor, &self.env.krill
        ).map_err(|e| e.to_string())?;
        self.publish_ta();
        Ok(json!({}))
    }
}

fn changed(
    before: &BTreeMap<String, u64>, after: &BTreeMap<String, u64>
) -> Vec<String> {
    let keys: BTreeSet<&String> = before.keys().chain(after.keys()).collect();
    keys.into_iter().filter(|k| before.get(*k) != after.get(*k)).cloned()
        .collect()
}

fn serial_to_i64(serial: &rpki::repository::x509::Serial) -> i64 {
    let text = serial.to_string();
    text.parse::<i64>().unwrap_or_else(|_| {
        i64::from_str_radix(&text, 16).unwrap_or(-2)
    })
}

/// Finds the keys for which a CA holds a certificate (walks the JSON of
/// `CertAuthInfo`: every object with an "incoming_cert").
fn collect_cert_keys(v: &Value, f: &mut dyn FnMut(KeyIdentifier)) {
    match v {
        Value::Object(map) => {
            if let (Some(key), Some(_)) = (
                map.get("key_id").and_then(|k| k.as_str()),
                map.get("incoming_cert"),
            ) {
                if let Ok(ki) = KeyIdentifier::from_str(key) {
                    f(ki);
                }
            }
            for val in map.values() {
                collect_cert_keys(val, f);
            }
        }
        Value::Array(items) => {
            for item in items {
                collect_cert_keys(item, f);
            }
        }
        _ => { }
    }
}

pub fn run(behaviours: &Path, out: &Path, workdir: &Path) {
    let behaviours = read_ndjson(behaviours);
    let mut trace = TraceOut::create(out);
    for (idx, beh) in behaviours.iter().enumerate() {
        let id = beh.get("id").cloned().unwrap_or(json!(idx));
        let actions = beh.get("actions").and_then(|a| a.as_array()).cloned()
            .unwrap_or_default();
        refill_keys((idx * 53 + int_arg(beh, "keyoff") as usize) % 1400);
        let dir = workdir.join(format!("b{idx}"));
        let mut w = match World::create(&dir) {
            Ok(w) => w,
            Err(e) => {
                eprintln!("set-up failed for behaviour {id}: {e}");
                std::process::exit(3);
            }
        };
        let st = w.project();
        trace.push(&json!({"ev": "reset", "behaviour": id, "st": st}));
        for a in &actions {
            let name = str_arg(a, "a");
            let mut ev = serde_json::Map::new();
            ev.insert("ev".into(), json!(name));
            for (k, v) in a.as_object().unwrap() {
                if k != "a" {
                    ev.insert(k.clone(), v.clone());
                }
            }
            let before = w.finger();
            let res = match name {
                "Sync" => w.sync(a),
                "RWants" => w.rwants(a),
                "SyncOne" => w.sync_one(a),
                "Roll" => w.roll(a),
                "Activate" => w.activate(a),
                "MakeReq" => w.make_req(false),
                "GetReq" => w.make_req(true),
                "OtherProxyReq" => w.other_proxy_req(),
                "Sign" => w.sign(a),
                "Resp" => w.resp(a),
                "Reassoc" => w.reassoc(),
                other => {
                    eprintln!("unknown action {other}");
                    std::process::exit(2);
                }
            };
            let after = w.finger();
            ev.insert("chg".into(), json!(changed(&before, &after)));
            match res {
                Ok(extra) => {
                    let refused = extra.get("refused").is_some();
                    let skip = extra.get("skip").is_some();
                    ev.insert("res".into(), json!(
                        if skip { "skip" } else if refused { "err" }
                        else { "ok" }
                    ));
                    for (k, v) in extra.as_object().unwrap() {
                        ev.insert(k.clone(), v.clone());
                    }
                }
                Err(e) => {
                    ev.insert("res".into(), json!("err"));
                    ev.insert("refused".into(), json!(short(&e)));
                }
            }
            ev.insert("st".into(), w.project());
            trace.push(&Value::Object(ev));
        }
        drop(w);
        let _ = std::fs::remove_dir_all(&dir);
    }
    trace.finish();
}
