//! Set-up helpers shared by the C12 and C15 drivers: repository, trust
//! anchor, CAs below it (the recipe of krill's own `cas_import`).

use std::str::FromStr;
use krill::api::admin::{
    AddChildRequest, ParentCaReq, PublicationServerUris, RepositoryContact,
};
use krill::commons::actor::Actor;
use krill::constants::TA_NAME;
use rpki::ca::idexchange::{self, CaHandle, ParentHandle};
use rpki::repository::resources::ResourceSet;
use rpki::uri;
use crate::common::Env;

pub const RSYNC_BASE: &str = "rsync://repo.example.net/repo/";
pub const RRDP_BASE: &str = "https://repo.example.net/rrdp/";

pub fn actor(env: &Env) -> Actor {
    env.krill.system_actor().clone()
}

pub fn resources(asn: &str, v4: &str, v6: &str) -> ResourceSet {
    ResourceSet::from_strs(asn, v4, v6).unwrap()
}

pub fn ca_handle(name: &str) -> CaHandle {
    CaHandle::from_str(name).unwrap()
}

/// Initialises the publication server.
pub fn init_repo(env: &Env) -> Result<(), String> {
    let uris = PublicationServerUris {
        rrdp_base_uri: uri::Https::from_str(RRDP_BASE).unwrap(),
        rsync_jail: uri::Rsync::from_str(RSYNC_BASE).unwrap(),
    };
    env.krill.repo_manager().init(uris, &env.krill).map_err(|e| {
        format!("repo init: {e}")
    })
}

/// Initialises the fully embedded trust anchor (proxy and signer).
pub fn init_embedded_ta(env: &Env) -> Result<(), String> {
    let actor = actor(env);
    env.krill.ca_manager().ta_init_fully_embedded(
        uri::Rsync::from_str("rsync://repo.example.net/ta/ta.cer").unwrap(),
        vec![uri::Https::from_str("https://repo.example.net/ta/ta.cer")
            .unwrap()],
        None, &actor, &env.slow,
    ).map_err(|e| format!("ta init: {e}"))
}

/// Creates a CA with a repository (the local publication server).
pub fn create_ca(env: &Env, handle: &CaHandle) -> Result<(), String> {
    let actor = actor(env);
    let cam = env.krill.ca_manager();
    cam.init_ca(handle.clone(), &env.krill).map_err(|e| {
        format!("init_ca {handle}: {e}")
    })?;
    let pub_req = {
        let ca = cam.get_ca(handle).map_err(|e| e.to_string())?;
        idexchange::PublisherRequest::new(
            ca.id_cert().base64.clone(), handle.convert(), None,
        )
    };
    env.krill.repo_manager().create_publisher(pub_req, &actor).map_err(
        |e| format!("create_publisher {handle}: {e}")
    )?;
    let response = env.krill.repo_manager().repository_response(
        &handle.convert(), &env.krill
    ).map_err(|e| format!("repository_response {handle}: {e}"))?;
    let contact = RepositoryContact::try_from_response(response).map_err(
        |e| format!("repo contact {handle}: {e}")
    )?;
    cam.update_repo(
        handle.clone(), contact, false, &actor, &env.slow
    ).map_err(|e| format!("update_repo {handle}: {e}"))
}

/// Registers `handle` as a child of `parent` (local CA or "ta") and tells
/// the child about its parent. Does not synchronise.
pub fn connect_to_parent(
    env: &Env, handle: &CaHandle, parent: &CaHandle, res: ResourceSet,
) -> Result<(), String> {
    let actor = actor(env);
    let cam = env.krill.ca_manager();
    let id_cert = {
        let ca = cam.get_ca(handle).map_err(|e| e.to_string())?;
        ca.child_request().validate().map_err(|e| e.to_string())?
    };
    let response = cam.ca_add_child(
        parent,
        AddChildRequest {
            handle: handle.convert(), resources: res, id_cert,
        },
        &actor, &env.krill,
    ).map_err(|e| format!("add_child {handle} under {parent}: {e}"))?;
    cam.ca_parent_add_or_update(
        handle.clone(),
        ParentCaReq { handle: parent.convert(), response },
        &actor, &env.krill,
    ).map_err(|e| format!("parent_add {handle}: {e}"))
}

pub fn sync_parent(
    env: &Env, handle: &CaHandle, parent: &CaHandle,
) -> Result<bool, String> {
    let actor = actor(env);
    let parent: ParentHandle = parent.convert();
    env.krill.ca_manager().ca_sync_parent(
        handle, 0, &parent, &actor, &env.slow
    ).map_err(|e| format!("sync {handle} with {parent}: {e}"))
}

/// The complete recipe: CA with repository, child of `parent`, certified.
pub fn import_ca(
    env: &Env, handle: &CaHandle, parent: &CaHandle, res: ResourceSet,
) -> Result<(), String> {
    create_ca(env, handle)?;
    connect_to_parent(env, handle, parent, res)?;
    sync_parent(env, handle, parent)?;
    sync_parent(env, handle, parent)?;
    if parent.as_str() == TA_NAME {
        env.krill.ca_manager().sync_ta_proxy_signer_if_possible(
            &env.krill
        ).map_err(|e| format!("ta sync: {e}"))?;
        sync_parent(env, handle, parent)?;
    }
    Ok(())
}
