"""Shared machinery for the krill verification checks.

 * running TLC (exhaustive, simulation/generation, trace validation),
 * building and running the Rust harness (sharded over the cores),
 * known-findings matching, replay files, evidence files, exit codes.

Exit codes of a check: 0 = property held on everything explored,
1 = violation (a line "VIOLATION property=<id> replay=<path>" was printed),
2 = tool error / timeout (never reported as a violation).
"""
import fcntl
import hashlib
import json
import os
import random
import re
import shutil
import subprocess
import sys
import time

VERIF = os.path.dirname(os.path.dirname(os.path.abspath(__file__)))
SPEC = os.path.join(VERIF, "spec")
HARNESS = os.path.join(VERIF, "harness")
# every copy of /verif (a background snapshot, a scratch copy for a mutation
# run) has its own key pool: the harness binaries take the path from here
os.environ.setdefault("VERIF_KEYPOOL", os.path.join(HARNESS, "keypool.bin"))
TARGET = os.path.join(HARNESS, "target")
# harness crates: directory under /verif -> binary name. All share one
# target directory, so krill itself is compiled once.
CRATES = {
    "harness": "krillverif",
    "harness-pub": "kv-pub",
    "harness-store": "kv-store",
    "harness-vec": "kv-vec",
    "harness-auth": "kv-auth",
    "harness-http": "kv-http",
    "harness-fuzz": "kv-fuzz",
    "harness-conc": "kv-conc",
    "harness-fault": "kv-fault",
}
HARNESS_BIN = os.path.join(TARGET, "debug", "krillverif")


def harness_bin(crate="harness"):
    return os.path.join(TARGET, "debug", CRATES[crate])

OUT = os.path.join(VERIF, "out")
# (runs against a deliberately changed tree -- lib/with_mutation.py -- write
# their evidence elsewhere so that the committed files describe the real tree)
EVIDENCE = os.environ.get("VERIF_EVIDENCE_DIR") or os.path.join(VERIF, "evidence")
os.makedirs(EVIDENCE, exist_ok=True)
REPO = "/repo"
NCPU = os.cpu_count() or 4


class ToolError(Exception):
    pass


def log(msg):
    print(f"[check] {msg}", flush=True)


# --------------------------------------------------------------------------
# building
# --------------------------------------------------------------------------

def cargo_env():
    env = dict(os.environ)
    env["CARGO_NET_OFFLINE"] = "true"
    env.pop("RUSTFLAGS", None)
    return env


def build_harness(crate="harness", timeout=1800):
    """Builds a harness crate (and krill with hooks on) from /repo's tree."""
    os.makedirs(OUT, exist_ok=True)
    cdir = os.path.join(VERIF, crate)
    lock_path = os.path.join(OUT, ".build.lock")
    with open(lock_path, "w") as lock:
        fcntl.flock(lock, fcntl.LOCK_EX)
        lockfile = os.path.join(cdir, "Cargo.lock")
        if not os.path.exists(lockfile):
            shutil.copy(os.path.join(REPO, "Cargo.lock"), lockfile)
        t0 = time.time()
        p = subprocess.run(
            ["cargo", "build", "--offline"], cwd=cdir, env=cargo_env(),
            stdout=subprocess.PIPE, stderr=subprocess.STDOUT, text=True,
            timeout=timeout)
        if p.returncode != 0:
            sys.stdout.write(p.stdout[-6000:])
            raise ToolError(f"cargo build of {crate} failed")
        dt = time.time() - t0
        if dt > 5:
            log(f"{crate} built in {dt:.0f}s")
    if not os.path.exists(harness_bin(crate)):
        raise ToolError(f"binary of {crate} missing after build")


def build_all(timeout=3600):
    for crate in CRATES:
        if os.path.exists(os.path.join(VERIF, crate, "Cargo.toml")):
            build_harness(crate, timeout=timeout)


def ensure_keypool(count=1500):
    path = os.path.join(HARNESS, "keypool.bin")
    if os.path.exists(path) and os.path.getsize(path) > 1000 * count:
        return
    if not os.path.exists(HARNESS_BIN):
        build_harness("harness")
    log(f"generating RSA key pool ({count} keys)")
    subprocess.run([HARNESS_BIN, "gen-keys", "--count", str(count)],
                   check=True, timeout=1800)


# --------------------------------------------------------------------------
# TLC
# --------------------------------------------------------------------------

class TlcResult:
    def __init__(self, out, rc):
        self.out = out
        self.rc = rc
        m = re.findall(r"(\d+) states generated, (\d+) distinct states found",
                       out)
        self.generated = int(m[-1][0]) if m else 0
        self.distinct = int(m[-1][1]) if m else 0
        m = re.search(r"The depth of the complete state graph search is (\d+)",
                      out)
        self.depth = int(m.group(1)) if m else 0
        self.violated = None
        m = re.search(r"Error: Invariant (\S+) is violated", out)
        if m:
            self.violated = m.group(1)
        m = re.search(r"Error: Action property (\S+) is violated", out)
        if m:
            self.violated = m.group(1)
        if "Temporal properties were violated" in out:
            self.violated = "temporal"
        if re.search(r"Error: Deadlock reached", out):
            self.violated = "deadlock"
        self.postcondition_failed = "Error: Postcondition" in out
        self.assumption_failed = "Error: Assumption" in out
        self.finished = "Finished in" in out
        # per action coverage (with -coverage)
        self.actions = {}
        for m in re.finditer(
                r"^<(\w+) line \d+, col \d+ to line \d+, col \d+ of module "
                r"(\w+)(?: \([\d ]+\))?>: (\d+):(\d+)", out, re.M):
            name = m.group(1)
            prev = self.actions.get(name, (0, 0))
            self.actions[name] = (prev[0] + int(m.group(3)),
                                  prev[1] + int(m.group(4)))
        self.errors = [l for l in out.splitlines() if l.startswith("Error:")]

    def ok(self):
        return (self.finished and not self.errors and self.rc == 0)

    def counterexample(self):
        """The textual error trace (states) if any."""
        idx = self.out.find("Error:")
        return self.out[idx:idx + 20000] if idx >= 0 else ""


def run_tlc(module, cfg, workdir, workers=8, timeout=900, simulate=None,
            depth=None, seed=None, coverage=False, env_extra=None,
            deque=False, heap=None, extra=None):
    """Runs TLC on spec/<module>.tla with spec/<cfg>; returns TlcResult."""
    os.makedirs(workdir, exist_ok=True)
    meta = os.path.join(workdir, "meta_" + re.sub(r"\W", "_", cfg))
    shutil.rmtree(meta, ignore_errors=True)
    cmd = ["timeout", str(timeout), "tlc", "-workers", str(workers),
           "-metadir", meta, "-cleanup", "-noGenerateSpecTE",
           "-config", os.path.join(SPEC, cfg)]
    if simulate is not None:
        cmd += ["-simulate", f"num={simulate}"]
    if depth is not None:
        cmd += ["-depth", str(depth)]
    if seed is not None:
        cmd += ["-seed", str(seed)]
    if coverage:
        cmd += ["-coverage", "1"]
    if extra:
        cmd += extra
    cmd.append(os.path.join(SPEC, module + ".tla"))
    env = dict(os.environ)
    jopts = ["-Xss1g"]
    if heap:
        jopts.append(f"-Xmx{heap}")
    if deque:
        jopts.append("-Dtlc2.tool.queue.IStateQueue=StateDeque")
    env["JAVA_TOOL_OPTIONS"] = " ".join(jopts)
    if env_extra:
        env.update(env_extra)
    p = subprocess.run(cmd, cwd=workdir, env=env, stdout=subprocess.PIPE,
                       stderr=subprocess.STDOUT, text=True)
    shutil.rmtree(meta, ignore_errors=True)
    if p.returncode == 124:
        raise ToolError(f"TLC timed out after {timeout}s on {module}/{cfg}")
    res = TlcResult(p.stdout, p.returncode)
    if not res.finished and not res.errors:
        sys.stdout.write(p.stdout[-4000:])
        raise ToolError(f"TLC did not finish on {module}/{cfg}")
    for line in res.errors:
        if ("Parsing or semantic analysis failed" in line
                or "TLC threw an unexpected exception" in line
                or "was not found" in line):
            sys.stdout.write(p.stdout[-6000:])
            raise ToolError(f"TLC failed on {module}/{cfg}: {line}")
    return res


def action_coverage(out):
    """Per-action coverage of a TLC run with -coverage, including actions
    whose body is a LET (TLC appends the body's position in parentheses)."""
    acts = {}
    for m in re.finditer(
            r"^<(\w+) line \d+, col \d+ to line \d+, col \d+ of module "
            r"(\w+)(?: \([\d ]+\))?>: (\d+):(\d+)", out, re.M):
        prev = acts.get(m.group(1), (0, 0))
        acts[m.group(1)] = (prev[0] + int(m.group(3)),
                            prev[1] + int(m.group(4)))
    return acts


REPLAY_RE = re.compile(r'^<<"REPLAY", (".*")>>\s*$')


def parse_replays(out):
    res = []
    for line in out.splitlines():
        m = REPLAY_RE.match(line)
        if m:
            res.append(json.loads(json.loads(m.group(1))))
    return res


def generate_behaviours(module, cfg, workdir, num, depth, seed,
                        timeout=600, drop_last=True):
    """Simulation run of a *_gen module; returns distinct behaviours.

    The generator prints a behaviour for every successor examined at the
    final depth; the last action is dropped so that there is exactly one
    behaviour per simulated trace.
    """
    res = run_tlc(module, cfg, workdir, workers=1, timeout=timeout,
                  simulate=num, depth=depth + 2, seed=seed)
    if res.violated or res.errors:
        sys.stdout.write(res.out[-4000:])
        raise ToolError(f"generator {module} reported an error")
    seen = set()
    behaviours = []
    for beh in parse_replays(res.out):
        if drop_last:
            beh["actions"] = beh["actions"][:-1]
        key = json.dumps(beh, sort_keys=True)
        if key in seen:
            continue
        seen.add(key)
        beh["id"] = len(behaviours)
        behaviours.append(beh)
    return behaviours


def exhaustive_behaviours(module, cfg, workdir, timeout=900):
    """BFS run of a *_gen module with a depth constraint: every behaviour."""
    res = run_tlc(module, cfg, workdir, workers=1, timeout=timeout)
    if res.violated or res.errors:
        sys.stdout.write(res.out[-4000:])
        raise ToolError(f"generator {module} reported an error")
    seen = set()
    behaviours = []
    for beh in parse_replays(res.out):
        key = json.dumps(beh, sort_keys=True)
        if key in seen:
            continue
        seen.add(key)
        beh["id"] = len(behaviours)
        behaviours.append(beh)
    return behaviours


# --------------------------------------------------------------------------
# harness
# --------------------------------------------------------------------------

def write_ndjson(path, items):
    with open(path, "w") as f:
        for it in items:
            f.write(json.dumps(it, sort_keys=True) + "\n")


def read_ndjson(path):
    with open(path) as f:
        return [json.loads(l) for l in f if l.strip()]


def run_harness(subcmd, behaviours, workdir, shards=None, extra=None,
                timeout=3600, env_extra=None, crate="harness"):
    """Runs the harness driver over the behaviours, sharded; returns trace."""
    os.makedirs(workdir, exist_ok=True)
    if shards is None:
        shards = min(NCPU, max(1, len(behaviours) // 4))
    shards = max(1, min(shards, len(behaviours)))
    procs = []
    env = dict(os.environ)
    if env_extra:
        env.update(env_extra)
    for i in range(shards):
        part = behaviours[i::shards]
        inp = os.path.join(workdir, f"beh_{i}.ndjson")
        outp = os.path.join(workdir, f"trace_{i}.ndjson")
        work = os.path.join(workdir, f"work_{i}")
        write_ndjson(inp, part)
        cmd = [harness_bin(crate), subcmd, "--in", inp, "--out", outp,
               "--work", work] + (extra or [])
        logf = open(os.path.join(workdir, f"harness_{i}.log"), "w")
        procs.append((subprocess.Popen(cmd, stdout=logf, stderr=logf,
                                       env=env), outp, work, logf))
    deadline = time.time() + timeout
    trace = []
    failed = None
    for p, outp, work, logf in procs:
        try:
            rc = p.wait(timeout=max(1, deadline - time.time()))
        except subprocess.TimeoutExpired:
            p.kill()
            raise ToolError(f"harness {subcmd} timed out")
        logf.close()
        if rc != 0:
            failed = (rc, logf.name)
        if os.path.exists(outp):
            trace.extend(read_ndjson(outp))
        shutil.rmtree(work, ignore_errors=True)
    if failed:
        with open(failed[1]) as f:
            sys.stdout.write(f.read()[-3000:])
        raise ToolError(f"harness {subcmd} exited with {failed[0]}")
    return trace


# --------------------------------------------------------------------------
# trace validation
# --------------------------------------------------------------------------

class TraceVerdict:
    def __init__(self):
        self.accepted = True
        self.matched = 0
        self.total = 0
        self.next_line = None
        self.violated = None    # name of violated invariant/property
        self.states = 0
        self.out = ""


def validate_trace(module, cfg, trace, workdir, timeout=1800, tag="trace"):
    """Checks a recorded trace (list of events) against a trace spec."""
    os.makedirs(workdir, exist_ok=True)
    path = os.path.join(workdir, f"{tag}.ndjson")
    write_ndjson(path, trace)
    res = run_tlc(module, cfg, workdir, workers=1, timeout=timeout,
                  env_extra={"TRACE": path}, deque=True, heap="8g")
    v = TraceVerdict()
    v.total = len(trace)
    v.states = res.distinct
    v.out = res.out
    m = re.search(r'<<"TRACE_REJECTED", "matched", (\d+), "of", (\d+)>>',
                  res.out)
    if res.violated:
        v.accepted = False
        v.violated = res.violated
        # the violating step is the last state of the counterexample
        states = re.findall(r"^State (\d+):", res.out, re.M)
        v.matched = (int(states[-1]) - 1) if states else 0
        # matched counts consumed lines; the offending line is the last one
        v.next_line = trace[v.matched - 1] if 0 < v.matched <= len(trace) \
            else None
    elif m:
        v.accepted = False
        v.matched = int(m.group(1))
        v.next_line = trace[v.matched] if v.matched < len(trace) else None
    elif res.postcondition_failed or res.errors:
        sys.stdout.write(res.out[-4000:])
        raise ToolError(f"trace validation {module} failed unexpectedly")
    else:
        v.matched = len(trace)
    return v


def split_behaviours(trace):
    """Splits a concatenated trace at its reset events."""
    segs = []
    for ev in trace:
        if ev.get("ev") == "reset":
            segs.append([ev])
        elif segs:
            segs[-1].append(ev)
        else:
            segs.append([ev])
    return segs


def validate_all(module, cfg, trace, workdir, max_rejections=25,
                 timeout=1800):
    """Validates a concatenated trace; on a rejection records it, removes
    the offending behaviour and carries on with the rest.

    Returns (validated_segments, rejections) where a rejection is a dict
    with the segment, the index of the offending line in the segment, the
    violated property (or None for 'no action matches') and TLC's output.
    """
    segs = split_behaviours(trace)
    rejections = []
    validated = 0
    states = 0
    while segs:
        flat = [ev for s in segs for ev in s]
        v = validate_trace(module, cfg, flat, workdir, timeout=timeout)
        states += v.states
        if v.accepted:
            validated += len(segs)
            break
        # find the offending segment
        pos = v.matched if v.violated is None else v.matched - 1
        count = 0
        idx = 0
        for idx, s in enumerate(segs):
            if pos < count + len(s):
                break
            count += len(s)
        seg = segs[idx]
        rejections.append({
            "segment": seg,
            "line": pos - count,
            "violated": v.violated,
            "event": seg[pos - count] if pos - count < len(seg) else None,
            "tlc": v.out[-3000:],
        })
        validated += idx
        segs = segs[idx + 1:]
        if len(rejections) >= max_rejections:
            break
    return validated, rejections, states


def validate_parallel(module, cfg, trace, workdir, jobs=8, min_per_job=8,
                      timeout=2400):
    """validate_all over several TLC processes: the behaviours of the trace
    are dealt out to `jobs` chunks, each validated on its own."""
    import concurrent.futures
    segs = split_behaviours(trace)
    if not segs:
        return 0, [], 0
    jobs = max(1, min(jobs, len(segs) // min_per_job or 1))
    chunks = [segs[i::jobs] for i in range(jobs)]

    def work(i):
        flat = [ev for s in chunks[i] for ev in s]
        return validate_all(module, cfg, flat,
                            os.path.join(workdir, f"val_{i}"),
                            timeout=timeout)
    validated = 0
    rejections = []
    states = 0
    with concurrent.futures.ThreadPoolExecutor(max_workers=jobs) as pool:
        for v, r, s in pool.map(work, range(jobs)):
            validated += v
            rejections.extend(r)
            states += s
    return validated, rejections, states


# --------------------------------------------------------------------------
# known findings, replay files, evidence
# --------------------------------------------------------------------------

def load_known_findings():
    path = os.path.join(VERIF, "known-findings.json")
    if not os.path.exists(path):
        return []
    with open(path) as f:
        return json.load(f).get("findings", [])


class Check:
    def __init__(self, pid, level, tier, seed):
        self.pid = pid
        self.level = level
        self.tier = tier
        self.seed = seed
        self.t0 = time.time()
        self.out = os.path.join(OUT, f"{pid}-{tier}")
        shutil.rmtree(self.out, ignore_errors=True)
        os.makedirs(self.out, exist_ok=True)
        os.makedirs(os.path.join(OUT, "replay"), exist_ok=True)
        self.cov = {
            "states": 0, "transitions": 0,
            "traces_validated_against_impl": 0, "evaluations": 0,
            "distinct_nontrivial": 0, "samples": [], "rule": "",
            "exhaustive": False, "tlc_runs": [], "actions_covered": {},
        }
        self.assumptions = []
        self.violations = []      # unlisted
        self.known = []           # matched known findings
        self.findings = [f for f in load_known_findings()
                         if f.get("property") == pid
                         or pid in f.get("also_seen_by", [])]
        self.rng = random.Random(seed)
        self._distinct = set()

    # -- counting ----------------------------------------------------------
    def add_tlc(self, name, res):
        self.cov["states"] += res.distinct
        self.cov["transitions"] += res.generated
        self.cov["tlc_runs"].append({
            "run": name, "distinct_states": res.distinct,
            "states_generated": res.generated, "depth": res.depth,
        })
        for a, (n, d) in res.actions.items():
            # d = states generated by the action (times it was taken)
            cur = self.cov["actions_covered"].get(a, 0)
            self.cov["actions_covered"][a] = cur + d

    def count_case(self, case, nontrivial=True):
        """Counts one executed case; distinctness by content hash."""
        self.cov["evaluations"] += 1
        if nontrivial:
            h = hashlib.sha1(
                json.dumps(case, sort_keys=True).encode()).hexdigest()
            self._distinct.add(h)
        self.cov["distinct_nontrivial"] = len(self._distinct)

    def sample(self, case, limit=3):
        if len(self.cov["samples"]) < limit:
            self.cov["samples"].append(case)

    # -- violations --------------------------------------------------------
    def report(self, signature, description, replay):
        """Reports a violation seen on the real code.

        signature: stable string identifying what fails (matched against
        known-findings.json); replay: JSON-serialisable object from which
        the failure can be re-run.
        """
        for f in self.findings:
            if f.get("kind") == "finding" and re.search(f["match"],
                                                       signature):
                if f["id"] not in [k["id"] for k in self.known]:
                    self.known.append(f)
                    print(f"KNOWN-FINDING: property={self.pid} "
                          f"{f['id']}: {f['what']}", flush=True)
                return False
        n = len(self.violations)
        path = os.path.join(OUT, "replay", f"{self.pid}-{self.tier}-{n}.json")
        with open(path, "w") as fh:
            json.dump({"property": self.pid, "signature": signature,
                       "description": description, "replay": replay,
                       "seed": self.seed}, fh, indent=1)
        self.violations.append({"signature": signature,
                                "description": description, "replay": path})
        log(f"violation: {signature}: {description}")
        print(f"VIOLATION property={self.pid} replay={path}", flush=True)
        return True

    # -- finishing ---------------------------------------------------------
    def finish(self):
        cov = self.cov
        if not cov["samples"]:
            cov["samples"] = ["(no samples recorded)"]
        ev = {
            "property_id": self.pid,
            "tier": self.tier,
            "seed": self.seed,
            "level": self.level,
            "coverage": cov,
            "assumptions": self.assumptions,
            "wall_s": round(time.time() - self.t0, 1),
            "violations": len(self.violations),
            "known_findings_seen": [k["id"] for k in self.known],
        }
        os.makedirs(EVIDENCE, exist_ok=True)
        with open(os.path.join(EVIDENCE, f"{self.pid}.json"), "w") as f:
            json.dump(ev, f, indent=1, sort_keys=True)
        log(f"{self.pid} {self.tier}: states={cov['states']} "
            f"traces={cov['traces_validated_against_impl']} "
            f"evaluations={cov['evaluations']} "
            f"violations={len(self.violations)} "
            f"known={len(self.known)} wall={ev['wall_s']}s")
        return 1 if self.violations else 0
