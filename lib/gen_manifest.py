#!/usr/bin/env python3
"""Regenerates MANIFEST.json from the table below (run after adding a check)."""
import json
import os
import subprocess

VERIF = os.path.dirname(os.path.dirname(os.path.abspath(__file__)))

CLAIMED = {
 "C09": {
  "technique": "TLA+ model checking (TLC: safety exhaustive, liveness under fairness) of spec/TaskQueue.tla; TLC-generated behaviours replayed on the real TaskQueue; recorded traces validated by TLC against TaskQueueTrace.tla",
  "level": "model_checking",
  "text": "TLC explores every interleaving of schedule/claim/finish/reschedule/follow-up/crash/start-up over 4-5 task names and 4 time levels (safety: earliest-first, soonest-kept, nothing lost, nothing stranded in 'running' after start-up, recurring tasks queued) and checks under fairness that every queued task eventually runs and recurring tasks run again and again. The same spec is bound to the code: TLC-generated behaviours are executed on the real TaskQueue (disk and memory back-end) and each recorded trace must be a behaviour of the spec, with every invariant evaluated at every step.",
  "note": "Trusted: TLC; the projection of storage keys '<millis>-<name>' onto abstract time levels; the harness replicates the two lines of run_scheduler. Not covered here: the follow-up table of mq.rs (bound by the CA traces of C01-C04), crash points inside a queue operation (C08).",
  "ref": "§6 C09, §4.2", "engines": ["TLC", "krillverif"]},
}


KRILL_NOTE = ("Trusted: TLC; the rpki crate's decoding/validation routines used by the relying-party walk and the projection; "
              "the projection of real state onto resource atoms and key roles. Model bounds: TA <- A <- {B,C,D}, one parent per CA, "
              "A's holdings fixed, 2-3 resource atoms, <= 6 (quick) / 12 (thorough) API operations per behaviour in the exhaustive runs, "
              "unbounded background tasks. Known findings (known-findings.json) are reported as KNOWN-FINDING, not as violations; "
              "the invariants are stated for states free of them.")

def krill_claim(text, ref):
    return {
        "technique": "TLA+ model checking of spec/Krill.tla with TLC (exhaustive, bounded); TLC-generated behaviours executed on a real in-process Krill; recorded traces (state projected from CA state, publication-server content decoded from outside, relying-party walk) validated by TLC against KrillTrace.tla",
        "level": "model_checking", "text": text, "note": KRILL_NOTE, "ref": ref,
        "engines": ["TLC", "krillverif"]}

CLAIMED.update({
 "C01": krill_claim(
  "Krill.tla models CAs, delegation, key states, configured ROAs, what each CA publishes and the follow-up tasks of every change, at the grain of one API command / one background task. TLC checks exhaustively (bounded) that in every settled state the relying-party view derived from the published state is clean and the validated route origins are exactly the configured ones covered by a current certificate. The same spec judges the real code: TLC-generated behaviours (API calls interleaved with single named tasks and settle points) run on a real Krill; after every event the projected state must be exactly the successor the spec allows, every file under a key must be on its manifest and vice versa, and a relying-party walk over the real repository (rpki crate validation) must yield exactly the VRPs the spec derives and no problem in settled states.",
  "§6 C01, §4.3"),
 "C02": krill_claim(
  "Same model and binding as C01. Decides: every newly issued child certificate is within entitlement and issuer certificate (step property), no published child certificate exceeds the publisher's own current certificate whenever its publication is up to date, a settle (refresh rounds + tasks to a fixed point, bounded to 8 rounds on the real code) leaves every active child with exactly the offered resources and no open request, and another round changes nothing (the harness's fixed point must be a Settled state of the spec).",
  "§6 C02, §4.3"),
 "C03": krill_claim(
  "Same model and binding as C01. On the recorded traces TLC keeps, per real key, the history of every object identity (issuer key + serial) ever current under the key and requires in every state that whatever is no longer current is on that key's CRL as long as the key publishes one, that nothing current is revoked, and that manifest and CRL numbers agree; withdrawn objects are gone because the projected publication content must equal the spec's. Histories cover re-issue, ROA removal, child removal/suspension, resource loss, CA deletion and key retirement by a roll.",
  "§6 C03, §4.3"),
 "C04": krill_claim(
  "Same model and binding as C01, roll-heavy behaviours: roll initiation/activation interleaved at single-task granularity with entitlement changes, suspension, ROA changes and syncs. Decides: every key in use has a certificate, staging key publishes manifest+CRL only, after activation products move to the new key in one publication (old key's products tracked separately until the next sync), activation is refused only in the two cases the spec predicts, and every settle ends in the single-active-key state or at rest in roll_new.",
  "§6 C04, §4.3"),
 "C14": krill_claim(
  "Same model and binding as C01, with the maintenance tasks (Republish, Renew) as actions whose effect depends on whether something is due. Due-ness is produced on the real code by restarting the instance with timing values whose margins exceed the lifetimes (everything due) and back (nothing due), never by changing code. Around every maintenance run TLC compares the serial-number level facts of every real key decoded from the repository: manifest and CRL number +1 exactly and the same objects (re-issue), every route origin object replaced by a new one with the published payloads unchanged (renewal), nothing at all changed when nothing is due. In every state of every trace: manifest and CRL numbers agree and never go down, validity windows contain the present, and what a CA's object store holds is published whenever no repository synchronisation is pending (operations while everything is due exercise re-issue as a side effect of commands).",
  "§6 C14, §4.3"),
 "C19": krill_claim(
  "The status reports are variables of Krill.tla (per CA: outcome of the most recent parent exchange and entitlements last returned, outcome of the most recent repository exchange and whether the shown list of published objects is what the server holds; per child: the outcome its parent shows), assigned in the step of the exchange they report. TLC checks exhaustively (bounded) that after every successful repository synchronisation the shown list is the server's, also after the server's operator removed and re-created a publisher, and that removing a child or CA removes the entries. On the real code the reports (get_ca_status for every CA, compared with get_publisher_details as multisets of uri+content) are projected after every event of generated behaviours with failing exchanges (unknown publisher, removed child, nothing to offer), publisher removal/re-creation, bulk sync and restarts, and TLC validates them against the values the spec assigns; a restart must change nothing.",
  "§6 C19, §4.3"),
 "C17": {
  "technique": "TLA+ model of RFC 6811 validation over an abstract prefix tree (spec/Rov.tla) checked with TLC; TLC-enumerated (ROA set, announcement set) cases embedded at concrete IPv4/IPv6 places and run through the real BgpAnalyser; TLC (RovTrace.tla) judges every report line",
  "level": "model_checking",
  "text": "Rov.tla defines covers/matches, the RFC 6811 state of an announcement with the reason for invalidity, per-ROA authorises/disallows sets and the constraints on suggestions. TLC enumerates every case of six bounded universes (up to 3 ROAs x 3 announcements on shallow trees, deeper trees with fewer entries; ROA = prefix x max length in {len..depth, family max} x AS in {0,1,2}) and checks the sanity theorems (states total and exclusive, per-ROA sets agree with states, stale ROAs never validate, AS0 never validates). Every case is run on the real BgpAnalyser (verif_load_announcements, analyse, suggest) under 7 held/scope restrictions at 8 embeddings (roots /0../32, leaves down to /32 and /128, duplicate lines, implicit max length, noise outside the root) and TLC judges state, reason, allowed_by/disallowed_by, each ROA's exact authorises/disallows set and the suggestions. Thorough is exhaustive over the universes, quick a seeded sample.",
  "note": "Trusted: TLC, the embedding and its inverse, JSON transport. Assumed: announcement origin never AS0; valid max lengths; a ROA whose prefix is not held yields no VRP; validation is against all held VRPs even when a scope is given (the deviation of the code from this is known finding C17-scope-limit-drops-covering-roas); suggestions are read as: pure-removal lists contain no validating ROA and the net effect keeps every valid announcement valid.",
  "ref": "§6 C17", "engines": ["TLC", "kv-vec"]},
 "C05": {
  "technique": "TLA+ model of configuration validation (spec/ConfigValidation.tla) checked with TLC; TLC-enumerated (CA state, request) cases run on a real CA; TLC (ConfigValidationTrace.tla) judges decision, unchanged-on-refusal and applied-on-acceptance",
  "level": "model_checking",
  "text": "ConfigValidation.tla states for ROA deltas, ASPA definition and provider updates, router-key updates and child add/update when a request is accepted and what the configuration is afterwards, with the theorems AllOrNothing, nothing unbacked created or re-asserted, accepted delta fully applied, normalisation. TLC enumerates CA state x request (ROA deltas of up to 2 added + 2 removed entries over held/unheld/overlapping/whole-block prefixes, v4/v6, max length implicit/=len/len+1/family max/max+1/len-1, AS0, comments, duplicates; ASPA and router-key updates incl. bad CSR signatures; 10 child resource sets; states with entries for resources lost since). Each case runs on a real CA through the CaManager entry points; TLC judges accept/refuse, that a refusal leaves configuration and stored object set unchanged (history +<=1), and that after acceptance the configuration equals the request applied sequentially and the published payloads decoded from the object set equal the held part of the configuration. Thorough is exhaustive over the universe, quick a seeded sample.",
  "note": "Trusted: TLC; payload decoding with the rpki crate. Assumed: error text informative only; ROA 'same comment' judged against the pre-delta comment as the code does; ASPA provider updates lenient by design; 'repository' observed on the CA's stored object set, not on the publication server (C01 covers store -> server).",
  "ref": "§6 C05", "engines": ["TLC", "kv-vec"]},
 "C13": {
  "technique": "TLA+ decision-table model (spec/Authz.tla) checked with TLC; TLC-enumerated request cases executed against the real daemon started in-process (Unix socket and TLS); TLC (AuthzTrace.tla) judges every recorded request",
  "level": "model_checking",
  "text": "Authz.tla holds the reference policy (111 route x method entries with required permission and addressed CA), the role evaluation (per-CA grant wins over blanket grant, general grant for non-CA requests, login gate under /api/v1) and the public set. TLC checks the decision functions over all role shapes x credential classes x transports x testbed modes. Every generated case is one HTTP request to the real daemon (config-file users, generated roles, two CAs, publication server); TLC recomputes the verdict and compares status class, absence of effect for refused requests (state digest) and the CAs shown by listing endpoints. Thorough enumerates the whole table.",
  "note": "Trusted: the hand-written reference table (completeness against the code checked by counting dispatch call sites only); complex roles injected into the Config object; no-effect judged on CA list, publisher list, per-CA command count, parents and children.",
  "ref": "§6 C13, §4.5", "engines": ["TLC", "kv-http"]},
 "C20": {
  "technique": "TLA+ provider-chain and login-rule model (spec/Authz.tla) checked with TLC; TLC-enumerated credential rows concretised and sent to the real daemon; TLC (AuthzTrace.tla) judges every recorded request",
  "level": "model_checking",
  "text": "Authz.tla states who a request acts as (admin token verbatim / session issued by this instance for a configured user / mapped Unix peer / nobody) and when login succeeds. TLC checks OnlyGenuineCredentials, AdminOnlyByAdminToken, NoPeerOverTcp, foreign or stale sessions, LoginRule. 332 table rows (credential class x transport x peer mapping, login table of 20 typed names x 7 password classes) are enumerated completely in both tiers; each is concretised (truncations, bit flips, re-encodings, token of a second instance, name variants) and judged by a fingerprint of eight probe routes plus the audit actor. The token-mutation families are exploration and labelled so in the evidence.",
  "note": "Assumed: strength of ChaCha20-Poly1305/scrypt; surrounding white space of the bearer value is not part of the credential; password comparison modulo trim+NFKC; sessions do not expire, logout is outside the property.",
  "ref": "§6 C20, §4.5", "engines": ["TLC", "kv-http"]},
})

NOT_YET = ("not claimed yet: the specification and conformance check for this "
           "property are still under construction (DESIGN.md §12 build-out order)")
NOT_APPLICABLE = {}


def main():
    props = [json.loads(l) for l in open(os.path.join(VERIF, "properties.jsonl"))]
    hooks = subprocess.run(
        ["git", "-C", "/repo", "log", "--format=%h", "--grep=^verif hooks"],
        capture_output=True, text=True).stdout.split()
    served = sorted(CLAIMED)
    manifest = {
        "version": 1,
        "setup_cmd": "./check --setup",
        "hooks": {
            "guard": "--cfg krill_verif",
            "enable": "harness/.cargo/config.toml sets rustflags = [\"--cfg\", \"krill_verif\"]; the harness depends on /repo by path, so every check rebuilds krill from /repo's working tree with the hooks on",
            "baseline_off_cmd": "cd /repo && cargo test --workspace --no-fail-fast --offline",
            "source_commits": list(reversed(hooks)),
            "add_only": True,
        },
        "engines": [
            {"name": "TLC", "path": "spec/", "serves_properties": served,
             "kind_free_text": "explicit-state model checker for the TLA+ specifications in spec/*.tla (exhaustive, simulation for behaviour generation, trace validation)"},
            {"name": "krillverif", "path": "harness/", "serves_properties": [p for p in served if "krillverif" in CLAIMED[p]["engines"]],
             "kind_free_text": "Rust conformance harness: executes TLC-generated behaviours on the real krill code (built with --cfg krill_verif) and records projected traces (task queue, CA hierarchy with relying-party walk)"},
            {"name": "kv-http", "path": "harness-http/", "serves_properties": [p for p in served if "kv-http" in CLAIMED[p]["engines"]],
             "kind_free_text": "Rust harness that starts the real krill daemon in-process and drives it over the Unix socket and TLS"},
            {"name": "kv-pub", "path": "harness-pub/", "serves_properties": [p for p in served if "kv-pub" in CLAIMED[p]["engines"]],
             "kind_free_text": "Rust harness for the publication server (RFC 8181 deltas, RRDP and rsync files, file-system fault points)"},
            {"name": "kv-store", "path": "harness-store/", "serves_properties": [p for p in served if "kv-store" in CLAIMED[p]["engines"]],
             "kind_free_text": "Rust harness for the aggregate / WAL stores (concurrent commands with hook traces, replay/snapshot differential)"},
            {"name": "kv-vec", "path": "harness-vec/", "serves_properties": [p for p in served if "kv-vec" in CLAIMED[p]["engines"]],
             "kind_free_text": "Rust harness replaying TLC-enumerated decision vectors (ROA analysis, configuration validation)"},
            {"name": "kv-auth", "path": "harness-auth/", "serves_properties": [p for p in served if "kv-auth" in CLAIMED[p]["engines"]],
             "kind_free_text": "Rust harness for signed RFC 6492 / RFC 8181 exchanges and the TA proxy/signer exchange"},
        ],
        "checks": [],
        "not_applicable": [],
        "notes": "See DESIGN.md. Every check: ./check <ID> --tier quick|thorough; exit 0 (held; KNOWN-FINDING lines possible), 1 (VIOLATION line), 2 (tool error).",
    }
    for p in props:
        pid = p["id"]
        if pid in CLAIMED:
            c = CLAIMED[pid]
            manifest["checks"].append({
                "property_id": pid,
                "quick_cmd": f"./check {pid} --tier quick",
                "thorough_cmd": f"./check {pid} --tier thorough",
                "evidence_file": f"evidence/{pid}.json",
                "replay_cmd_template": f"./check {pid} --replay {{path}}",
                "engine": " + ".join(c["engines"]),
                "level_claimed": {"category": c["level"], "text": c["text"],
                                  "design_ref": c["ref"]},
                "level_note": c["note"],
                "technique": c["technique"],
            })
        else:
            manifest["not_applicable"].append({
                "property_id": pid,
                "reason": NOT_APPLICABLE.get(pid, NOT_YET)})
    with open(os.path.join(VERIF, "MANIFEST.json"), "w") as f:
        json.dump(manifest, f, indent=1)
    try:
        import jsonschema
        schema = json.load(open("/root/.vp/MANIFEST.schema.json"))
        jsonschema.validate(manifest, schema)
        print("MANIFEST.json valid")
    except ImportError:
        print("jsonschema not available; not validated")


if __name__ == "__main__":
    main()
