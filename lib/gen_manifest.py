#!/usr/bin/env python3
"""Regenerates MANIFEST.json from the table below (run after adding a check)."""
import json
import os
import subprocess

VERIF = os.path.dirname(os.path.dirname(os.path.abspath(__file__)))

CLAIMED = {
 "C09": {
  "technique": "TLA+ model checking (TLC: safety exhaustive, liveness under fairness) of spec/TaskQueue.tla; TLC-generated behaviours replayed on the real TaskQueue; recorded traces validated by TLC against TaskQueueTrace.tla",
  "level": "model_checking",
  "text": "TLC explores every interleaving of schedule/claim/finish/reschedule/follow-up/crash/start-up over 4-5 task names and 4 time levels (safety: earliest-first, soonest-kept, nothing lost, nothing stranded in 'running' after start-up, recurring tasks queued) and checks under fairness that every queued task eventually runs and recurring tasks run again and again. In the CA histories (Krill.tla traces with held tasks) TLC requires in every state that the recurring synchronisation of every hosted CA with each of its parents is somewhere in the real queue - due, scheduled for later or running - whatever the outcome of its last run (C09_ParentSyncKept), and that what is served equals the repository content at every settle point. What a queued task carries is bound as a step property of the traces: a scheduling call that writes an entry leaves an entry of that name with the payload of this call, also when an earlier time is kept (every call of the harness carries a payload of its own). The same spec is bound to the code: TLC-generated behaviours are executed on the real TaskQueue (disk and memory back-end) and each recorded trace must be a behaviour of the spec, with every invariant evaluated at every step.",
  "note": "Trusted: TLC; the projection of storage keys '<millis>-<name>' onto abstract time levels; the harness replicates the two lines of run_scheduler. Not covered here: the follow-up table of mq.rs (bound by the CA traces of C01-C04), crash points inside a queue operation (C08).",
  "ref": "§6 C09, §4.2", "engines": ["TLC", "krillverif"]},
}


KRILL_NOTE = ("Trusted: TLC; the rpki crate's decoding/validation routines used by the relying-party walk and the projection; "
              "the projection of real state onto resource atoms and key roles. Model bounds: TA <- A <- {B,C,D}, one parent per CA, "
              "A's holdings fixed, 2-3 resource atoms, <= 6 (quick) / 7-8 (thorough) API operations per behaviour in the exhaustive runs, "
              "unbounded background tasks. Known findings (known-findings.json) are reported as KNOWN-FINDING, not as violations; "
              "the invariants are stated for states free of them.")

def krill_claim(text, ref):
    return {
        "technique": "TLA+ model checking of spec/Krill.tla with TLC (exhaustive, bounded); TLC-generated behaviours executed on a real in-process Krill; recorded traces (state projected from CA state, publication-server content decoded from outside, relying-party walk) validated by TLC against KrillTrace.tla",
        "level": "model_checking", "text": text, "note": KRILL_NOTE, "ref": ref,
        "engines": ["TLC", "krillverif"]}

CLAIMED.update({
 "C01": krill_claim(
  "Krill.tla models CAs, delegation, key states, configured ROAs, what each CA publishes and the follow-up tasks of every change, at the grain of one API command / one background task. TLC checks exhaustively (bounded) that in every settled state the relying-party view derived from the published state is clean and the validated route origins are exactly the configured ones covered by a current certificate. The same spec judges the real code: TLC-generated behaviours (API calls interleaved with single named tasks and settle points) run on a real Krill; after every event the projected state must be exactly the successor the spec allows, every file under a key must be on its manifest and vice versa, and a relying-party walk over the real repository (rpki crate validation) must yield exactly the VRPs the spec derives and no problem in settled states.",
  "§6 C01, §4.3"),
 "C02": krill_claim(
  "Same model and binding as C01. Decides: every newly issued child certificate is within entitlement and issuer certificate (step property), no published child certificate exceeds the publisher's own current certificate whenever its publication is up to date, a settle (refresh rounds + tasks to a fixed point, bounded to 8 rounds on the real code) leaves every active child with exactly the offered resources and no open request, and another round changes nothing (the harness's fixed point must be a Settled state of the spec). 'Converges' is also a temporal property (MC_Krill_live: once the environment is done, every CA ends up for good with exactly what its parent offers, no open request and the parent issuing what the CA holds) that TLC checks under weak fairness of the background tasks and the periodic refresh, without state constraint; a false temporal property must be refuted on every run. Hierarchies four levels deep (theme deep) include the removal of a parent by a CA that has children. The check for inactive children (Task::SuspendChildrenIfNeeded with a threshold of one second; a directed behaviour and an exhaustive configuration) suspends every child with certificates that the parent has not heard of, at several levels at once, except those whose record still carries the mark of an earlier such suspension; the children are re-certified when they call in. Request limits, mapped class names and the signed RFC 6492 path are covered by children that are not hosted by the instance (Foreign in Krill.tla: the harness plays the child: list, issue with an arbitrary resource limit, revoke; the certificate carries exactly the limit, a limit outside the offer is refused, shrinking / re-issue at a key activation / suspension apply to such certificates like to any other).",
  "§6 C02, §4.3"),
 "C03": krill_claim(
  "Same model and binding as C01. On the recorded traces TLC keeps, per real key, the history of every object identity (issuer key + serial) ever current under the key and requires in every state that whatever is no longer current is on that key's CRL as long as the key publishes one, that nothing current is revoked, and that manifest and CRL numbers agree; withdrawn objects are gone because the projected publication content must equal the spec's. Histories cover re-issue, ROA removal, child removal/suspension, resource loss, CA deletion, removal of a parent by a CA that has children and grandchildren (everything issued under the class goes with it, level by level; also in the middle of a roll and with a suspended grandchild), suspension of inactive children by the background check, key retirement by a roll, and revocation requests of a child that is not hosted by the instance (signed RFC 6492 messages under the class name the child was told, also a mapped one, also after the parent's class went away and came back under another name).",
  "§6 C03, §4.3"),
 "C04": krill_claim(
  "Same model and binding as C01, roll-heavy behaviours: roll initiation/activation interleaved at single-task granularity with entitlement changes, suspension, ROA changes and syncs. Decides: every key in use has a certificate, staging key publishes manifest+CRL only, after activation products move to the new key in one publication (old key's products tracked separately until the next sync), activation is refused only in the two cases the spec predicts, and every settle ends in the single-active-key state or at rest in roll_new. 'Always completes' is checked by TLC as temporal properties under weak fairness of the background tasks (MC_Krill_live: a new key gets its certificate, after the activation the old key is revoked and its publication point goes away; exceptions are exactly the recorded findings and a parent that no longer knows the CA), with a false temporal property refuted on every run.",
  "§6 C04, §4.3"),
 "C14": krill_claim(
  "Same model and binding as C01, with the maintenance tasks (Republish, Renew) as actions whose effect depends on whether something is due. Due-ness is produced on the real code by restarting the instance with timing values whose margins exceed the lifetimes (everything due) and back (nothing due), never by changing code. Around every maintenance run TLC compares the serial-number level facts of every real key decoded from the repository: manifest and CRL number +1 exactly and the same objects (re-issue), every route origin object replaced by a new one with the published payloads unchanged (renewal), nothing at all changed when nothing is due; under a margin between two manifest lifetimes exactly the resource classes with a key set inside the margin re-issue (all their sets together: current, staging, old), the other classes of the same CA do not, and the CA's publication follows whichever class the run looked at last. In every state of every trace: manifest and CRL numbers agree and never go down, validity windows contain the present, and what a CA's object store holds is published whenever no repository synchronisation is pending (operations while everything is due exercise re-issue as a side effect of commands).",
  "§6 C14, §4.3"),
 "C19": krill_claim(
  "The status reports are variables of Krill.tla (per CA: outcome of the most recent parent exchange and entitlements last returned, outcome of the most recent repository exchange and whether the shown list of published objects is what the server holds; per child: the outcome its parent shows), assigned in the step of the exchange they report. TLC checks exhaustively (bounded) that after every successful repository synchronisation the shown list is the server's, also after the server's operator removed and re-created a publisher, and that removing a child or CA removes the entries. On the real code the reports (get_ca_status for every CA, compared with get_publisher_details as multisets of uri+content) are projected after every event of generated behaviours with failing exchanges (unknown publisher, removed child, nothing to offer), publisher removal/re-creation, bulk sync and restarts, and TLC validates them against the values the spec assigns; a restart must change nothing. A CA deleted and created again under the same name (after its parent removed the child and the server's operator the publisher it left behind) starts without any report: nothing of the deleted CA's entries may come back.",
  "§6 C19, §4.3"),
 "C17": {
  "technique": "TLA+ model of RFC 6811 validation over an abstract prefix tree (spec/Rov.tla) checked with TLC; TLC-enumerated (ROA set, announcement set) cases embedded at concrete IPv4/IPv6 places and run through the real BgpAnalyser; TLC (RovTrace.tla) judges every report line",
  "level": "model_checking",
  "text": "Rov.tla defines covers/matches, the RFC 6811 state of an announcement with the reason for invalidity, per-ROA authorises/disallows sets and the constraints on suggestions. TLC enumerates every case of six bounded universes (up to 3 ROAs x 3 announcements on shallow trees, deeper trees with fewer entries; ROA = prefix x max length in {len..depth, family max} x AS in {0,1,2}) and checks the sanity theorems (states total and exclusive, per-ROA sets agree with states, stale ROAs never validate, AS0 never validates). Every case is run on the real BgpAnalyser (verif_load_announcements, analyse, suggest) under 7 held/scope restrictions at 8 embeddings (roots /0../32, leaves down to /32 and /128, duplicate lines, implicit max length, noise outside the root) and TLC judges state, reason, allowed_by/disallowed_by, each ROA's exact authorises/disallows set and the suggestions. Thorough is exhaustive over the universes, quick a seeded sample.",
  "note": "Trusted: TLC, the embedding and its inverse, JSON transport. Assumed: announcement origin never AS0; valid max lengths; a ROA whose prefix is not held yields no VRP; validation is against all held VRPs even when a scope is given (the deviation of the code from this is known finding C17-scope-limit-drops-covering-roas); suggestions are read as: pure-removal lists contain no validating ROA and the net effect keeps every valid announcement valid.",
  "ref": "§6 C17", "engines": ["TLC", "kv-vec"]},
 "C05": {
  "technique": "TLA+ model of configuration validation (spec/ConfigValidation.tla) checked with TLC; TLC-enumerated (CA state, request) cases run on a real CA; TLC (ConfigValidationTrace.tla) judges decision, unchanged-on-refusal and applied-on-acceptance",
  "level": "model_checking",
  "text": "ConfigValidation.tla states for ROA deltas, ASPA definition and provider updates, router-key updates and child add/update when a request is accepted and what the configuration is afterwards, with the theorems AllOrNothing, nothing unbacked created or re-asserted, accepted delta fully applied, normalisation. TLC enumerates CA state x request (ROA deltas of up to 2 added + 2 removed entries over held/unheld/overlapping/whole-block prefixes, v4/v6, max length implicit/=len/len+1/family max/max+1/len-1, AS0, comments, duplicates; ASPA and router-key updates incl. bad CSR signatures; 10 child resource sets; states with entries for resources lost since). Each case runs on a real CA through the CaManager entry points; TLC judges accept/refuse, that a refusal leaves configuration and stored object set unchanged (history +<=1), and that after acceptance the configuration equals the request applied sequentially and the published payloads decoded from the object set equal the held part of the configuration. Thorough is exhaustive over the universe, quick a seeded sample.",
  "note": "Trusted: TLC; payload decoding with the rpki crate. Assumed: error text informative only; ROA 'same comment' judged against the pre-delta comment as the code does; ASPA provider updates lenient by design; 'repository' observed on the CA's stored object set, not on the publication server (C01 covers store -> server).",
  "ref": "§6 C05", "engines": ["TLC", "kv-vec"]},
 "C07": {
  "technique": "TLA+ model checking of spec/AggStore.tla with TLC (one action per lock, storage and cache step; all interleavings, bounded); TLC-generated thread programs run on OS threads against the real AggregateStore, WalStore and CertAuth; recorded hook-event interleavings validated by TLC against AggStoreTrace.tla",
  "level": "model_checking",
  "text": "TLC decides VersionsContiguous, ExactlyOnce, ReaderSeesPrefix, RejectLeavesOnlyAudit, NoopLeavesNoTrace, PreSaveFailLeavesNothing, HistoryListsAll, NoExit (the 'key in use' exit guard), AppendOnly, LockDiscipline and deadlock freedom on AggStore.tla for nine bounded configurations (up to 3 threads x 2 entities x 2 operations, incl. add_with_context, history cache, fresh-store snapshots, WAL variant); with the scope lock weakened to a read lock TLC must find the lost-update / exit counterexample (checked on every run). Binding: TLC-generated thread programs (simulation at 4 threads x 3 entities x 4 ops, BFS over all pairs of two-op programs, seeded contention programs) run on 2-4 OS threads with seeded yield delays against the real stores on both back-ends; TLC validates every recorded interleaving of hook events (lock wait/acquire/release, load, command, stored, cache) against the locked protocol, and after quiescence command keys, history order and actors, returned versions and live = replay = fresh load.",
  "note": "Trusted: TLC; norm.rs, which inserts the thread-local steps the hooks do not log at the program point where the code performs them; hook sequence numbers taken under the lock. Real-code schedules are sampled, not enumerated. Crashes and I/O errors belong to C08.",
  "ref": "§6 C07, §4.1", "engines": ["TLC", "kv-store"]},
 "C06": {
  "technique": "TLA+ model checking of spec/AggStore.tla (replay = snapshot = live as an invariant of the store protocol) with TLC; seeded histories of public operations on a real Krill with every changed entity rebuilt from snapshot+tail and from full replay; observations validated by TLC against AggStoreTrace.tla",
  "level": "model_checking",
  "text": "Protocol: ReplayEqSnapshotEqLive is an invariant of AggStore.tla, checked exhaustively (bounded) with snapshots taken by fresh and live store instances racing commands, a lagging live cache and WAL truncation. apply functions: seeded histories of public operations (TA, CAs on two levels with ROAs, ASPAs, children, entitlement changes, suspension, key rolls, id changes, delete_ca, extra publishers, tasks via verif_process_task, UpdateSnapshots, restarts); at each check point every changed entity is rebuilt twice - fresh store (snapshot + later commands) and fresh store on a snapshot-free copy (full replay) - and compared with the running manager through serde views and API views; TLC validates the observation events. A small oracle independent of apply records what accepted ROA, ASPA, child-resource and publisher commands asked for.",
  "note": "Masked, each justified in hist.rs: ResourceClass.last_key_change and 'since' of RouteInfo / StoredBgpSecCsr (Time::now() inside apply, invisible to the API, whose views are compared unmasked). Hash-map ordered lists are compared as multisets. The live RepositoryAccess/Content aggregates are private and observed through the manager API.",
  "ref": "§6 C06, §4.1", "engines": ["TLC", "kv-store"]},
 "C10": {
  "technique": "TLA+ model checking of spec/PubServer.tla with TLC (exhaustive, bounded); TLC-generated behaviours executed on the real RepositoryManager through signed RFC 8181 messages; recorded traces validated by TLC against PubServerTrace.tla",
  "level": "model_checking",
  "text": "PubServer.tla carries the merge table for staged deltas, the jail relation on path segments and the list/current/staged views. TLC checks AppliedIff, DeltaAtomic, ListIsCurrentPlusStaged, Isolation / IsolationPublished, RemoveWithdrawsExactlyOwn, UnknownRefused, UpdatePublishesViews exhaustively for handle sets {a, a/b} with all deltas and {a, ab, a/b} with deltas of up to 1 (quick) / 2 (thorough) elements. Generated behaviours (acceptable, near-miss and arbitrary deltas; add / remove / list / RRDP update / session reset; scheme and host case variants of URIs) are executed on the real server and validated by TLC; the merge table is bound through the delta and snapshot files every update writes.",
  "note": "Trusted: TLC, the rpki crate's XML/CMS parsing, SHA-256. Assumed: sequential requests (concurrency is C18); rrdp_delta_interval_min_seconds = 0; CMS identity binding is C12. Known findings: nested jails (S6), scheme-case identity split (D1).",
  "ref": "§6 C10, §4.4", "engines": ["TLC", "kv-pub"]},
 "C11": {
  "technique": "TLA+ model checking of spec/RepoFiles.tla (one action per file-system mutation, Crash / IoError between any two) with TLC; every cut of every write enumerated on the real publication server through the file-system fault points; recorded traces validated by TLC against RepoFilesTrace.tla",
  "level": "model_checking",
  "text": "RepoFiles.tla extends PubServer.tla by the RRDP and rsync files with one action per mutation and RRDP clients as a history set. TLC checks NotificationParsable, NotificationRefsExist, SnapshotIsStateAtSerial, ClientCatchesUp, SerialPlusOne, SessionOnlyOnReset, DeltasBounded / DeltasNeverExceedMaxNr, DeltasContiguous, DiskFollowsLogical, RsyncEqualsSnapshotAfterWrite, InterruptedWriteNeverBlocks exhaustively for one publisher with every cut of every write (1 fault quick, 2 thorough) and a retention grid. On the real code every write of 4 base scenarios is cut at every file-system mutation, as crash and as error (thorough: all ~1600; quick: a seeded sample), publication continues afterwards, and the complete projection of repo/rrdp and repo/rsync (parsed with rpki::rrdp, hashes recomputed) is validated by TLC after every action; plus TLC-simulated behaviours with random faults under 3 / 9 retention configurations; model-level counterexamples are replayed on the code before anything is reported.",
  "note": "Assumed: the key-value store is durable (C08); one file-system mutation is atomic; ages are 0 or ten days; serials stay below 10; no concurrent writers (C18); strict RFC 8182 clients. Known finding: the minimum rules beat max_nr (D3r).",
  "ref": "§6 C11, §4.4", "engines": ["TLC", "kv-pub"]},
 "C12": {
  "technique": "TLA+ model checking of spec/UpDownAuth.tla with TLC; TLC evaluates Valid(m) for all 5391 messages of the lattice in every reached identity state; every refused message is sent as real CMS to the real CaManager::rfc6492 / RepositoryManager::rfc8181 and must be refused without effect; valid probes are trace-validated by TLC against UpDownAuthTrace.tla",
  "level": "model_checking",
  "text": "UpDownAuth.tla states the acceptance rule (signing key = identity registered at the receiving server for the claimed sender, content = signed content) and the obligations: refused => nothing changes; accepted => only the sender's own certificates / objects within entitlement / base URI change; every signed reply carries the server's current identity key; only a request that is acted upon re-activates a suspended child. The lattices: RFC 6492 = 8 signing keys (incl. another child's, a replaced identity, an unregistered key, the server's own) x 3 claimed senders x 2 recipients x 2 end points x list/issue/revoke x tamper class; RFC 8181 = 5 keys x 3 publisher handles x list/publish/withdraw x 4 URIs; states include identity updates on either side, publisher re-registration and suspension. Six deliberately wrong server models must each be caught by TLC. On the code: quick covers all states of depth <= 1 plus a seeded sample of depth 2, thorough all of depth <= 2 plus 170 of depth 3; 'nothing changed' is a fingerprint over CA aggregates, status, repository, TA proxy and every file on disk. Single-bit corruption of one message per kind is exploration and labelled so.",
  "note": "Trusted: TLC, the rpki crate's decoder and validator, RSA/CMS strength. The RFC 6492 recipient handle is not part of the demanded rule (krill ignores it). The publication server has no identity update operation.",
  "ref": "§6 C12, §4.5", "engines": ["TLC", "kv-auth"]},
 "C15": {
  "technique": "TLA+ model checking of spec/TaExchange.tla with TLC (all sequences, bounded, with an adversary); TLC-generated behaviours executed on a real TA proxy, the real offline signer and real TA children; traces validated by TLC against TaExchangeTrace.tla",
  "level": "model_checking",
  "text": "TaExchange.tla defines ProxyAccepts (a request is open, nonce = open nonce, signed by the associated signer, clear text = signed text) and SignerAccepts (signed by the associated proxy, clear text = signed text) and states RefusedUnchanged, OneResponsePerRequest, DeliveredExactlyOnce, TaNumbersIncrease. TLC checks all sequences for two children with two requests each, two signer instances, another proxy, signer re-initialisation, and an adversary that presents any message ever sent as is, with changed nonce, changed content, the clear text of another message, or re-signed by a fresh key or the proxy's own key; eleven wrong models are each caught (among them: a response replaces what still waits for the child). The proxy keeps a request and a response slot per child key and processes one provisioning request per call; a child whose requests reach it one at a time (RWants / SyncOne; on the code through the cfg-gated entry to rfc6492_process_request, because krill refuses signed messages addressed to the trust anchor and a hosted child presents all its requests in one synchronisation) can have a response waiting while another of its requests is answered: both must be delivered, each once. Binding: TLC simulation (depth 40) plus all / sampled depth-6 behaviours run on a real TA proxy (ta_proxy_*, rfc6492 hand-over via ca_sync_parent), real local child CAs (first certification, key roll, activation) and the real offline signer (cli::ta::signer::TrustAnchorSignerManager), with a second signer and proxy instance; altered messages are made through serde or re-signing; TA manifest and CRL numbers are decoded from the proxy's objects and the repository after every step.",
  "note": "Assumed: signature strength; the signer may re-process a request it has already seen; re-initialisation continues the numbering as the operator would; audit-trail version bumps of refused commands are not counted as change.",
  "ref": "§6 C15, §4.5", "engines": ["TLC", "kv-auth"]},
 "C16": {
  "technique": "TLA+ catalogue model (spec/Malformed.tla: endpoint x malformation class x context, the only permitted outcome of a malformed input is error reply and unchanged state) checked with TLC; TLC enumerates all vectors; the harness concretises each with seeded instances and feeds them to the real entry points inside catch_unwind and through the real HTTP request processing; TLC (MalformedTrace.tla) judges every recorded outcome",
  "level": "exploration",
  "text": "TLC model-checks Malformed.tla (AlwaysAlive, AlwaysAnswers = ENABLED Malformed for every vector in every state, ErrorLeavesState) and enumerates all 4920 vectors of context x endpoint (29) x class (130; among them correctly signed requests that collide with each other or with what a preceding request - or the server's operator, who makes the CA's resource class go away and come back under another name - left behind) x addressed entity x channel. Every vector becomes seeded instances - structured mutations of a valid message of that endpoint (signed CMS with garbage or odd XML, DER tag/length flips, JSON type/number/nesting/duplicate mutations, ROA / prefix / ASN / resource-set / handle / certificate / URI value classes, path-segment mutations) or raw random bytes - run on the real code through two channels: direct (CaManager::rfc6492, RepositoryManager::rfc8181, serde decoding of the API request types followed by the manager call the dispatcher makes, the FromStr parsers of stored notations, BgpAnalyser) inside catch_unwind, and http (the real HttpServer::process_request: authentication, dispatcher, thread pool). Recorded per vector and distinct outcome: kind of reply, whether the configuration digest or the published-content digest changed, panic location; panic, exit, a non-reply, an error reply with a changed digest and an ok reply to a by-construction-malformed class match no action of the trace spec. The catalogue is covered completely, the byte space is sampled (quick ~48 k inputs, thorough ~850 k): a clean run is no proof of absence.",
  "note": "Harness profile has release arithmetic (overflow-checks=false, debug-assertions=false) and panic=unwind; process::exit is observed through about_to_exit; process deaths that are not panics through the harness exit status. The http channel has no scheduler thread. Status records are not configuration. Classification of replies, mutators and seeds are trusted. Known findings: two panics inside the rpki crate, bulk import and child update not atomic.",
  "ref": "§6 C16", "engines": ["TLC", "kv-fuzz"]},
 "C08": {
  "technique": "TLA+ model of the mutation pipeline (spec/PipelineDefs.tla, Pipeline.tla: every operation split into its real sequence of key-value and file-system mutations, Crash(k) / IoError(k) between any two, Restart, Pump, Resubmit) checked with TLC (-continue: the set of bad cuts of the design); every cut of every operation instance enumerated on the real code through the fault points; TLC (PipelineTrace.tla) judges every executed cut",
  "level": "fault_enumeration",
  "text": "Eleven scenarios (roa, chain, roll, create, maint, trunc, snap, pubrm, pubadd, remote, remove) expand into 103 operation instances: 25 API request kinds (among them the daily snapshot job, which folds the publication server's change sets into a new snapshot and removes them, and the provisioning requests of a child that is not hosted by the instance: issuance with and without a resource limit, the call-in of a suspended child, revocation, as signed messages through CaManager::rfc6492) and the task kinds sync_parent (both halves, revocation variant), sync_repo, update_rrdp, in the state classes active key, roll_new, roll_old, pending key, queued / unqueued synchronisation, last / not-last publication. The real mutation sequence of each instance is recorded with the fault injector in Count mode; every cut k = 1..N x {crash, failing write} gives 2156 cases (thorough: all; quick: 220 seeded cases covering every kind x mutation-class x mode stratum). Each case runs on the disk back-end: a crash is a fresh runtime on the surviving directory plus the start-up lines of the scheduler; then pump, resubmit, the rest of the chain, settle; a fault-free twin runs once per scenario. TLC checks per case that the mutations before the cut are the twin's, that the durable key set equals the fold of the mutations that took effect, that the process goes down and the request is acknowledged exactly where the model says, and evaluates the clauses AllLoad, AckedNeverLost, UnackedAllOrNothing (audit log, memory, object set), RPCleanAfterRestart / AfterPump / Final (relying-party walk over server content, on-disk RRDP snapshot and rsync tree, relative to the twin) and TwinEquivalence on the observed facts; verdicts are compared with the model's predictions.",
  "note": "Assumed: a disk back-end mutation is atomic (cuts are between mutations, never inside one); one fault per history; the label-to-effect translation; same-millisecond task ties resolved in a fixed order; passing time replaced by making rescheduled tasks due; single resource class, local parent and local repository. The ta_proxy / ta_signer / keys / signers namespaces are cut points but their durable effect is not compared. Known findings: the pre-save ordering (upstream issue 1182) and its non-converging consequences, RRDP/rsync files not rewritten after a failed update, publish delta stored but update task lost, no rsync current directory between the two renames, post-save reschedule drops a sync task, delete_ca withdraws best effort.",
  "ref": "§6 C08", "engines": ["TLC", "kv-fault"]},
 "C18": {
  "technique": "TLA+ model checking of spec/Locks.tla (TLC interleaves the lock programs recorded from the real code through the lock-table hooks, under flock and RwLock semantics) for deadlock freedom; seeded concurrent schedules on the real code with a watchdog and wait-for-cycle analysis; TLC (KrillConcTrace.tla) decides for every run whether results and final state are those of a serial execution consistent with real-time order",
  "level": "model_checking",
  "text": "Lock programs: about 55 operation kinds plus every task they spawn are run alone on both back-ends with the lock hooks on (about 360 programs, 8400 lock steps); they are cut into segments in which the thread holds nothing at both ends, repeated balanced blocks are collapsed and duplicates removed (38 distinct segments, nesting up to 5). TLC interleaves the segments exhaustively under flock semantics and RwLock with and without writer preference: complete segments for 2 threads (quick) and 2-3 threads (thorough), after two / three rounds of leaf-lock elimination (the first round removes the store caches) (sound for deadlocks, argument at leaf_reduce in checks/c18.py) for 3 / 4 threads; a deadlock of the model is re-run as directed scenarios on the real code before it is reported. Schedules: 2-4 worker threads plus a scheduler thread (a copy of the scheduler loop, or the real verif_run for 20% of scenarios), 7 scenario families on both back-ends with delay injection at the yield points; a 30 s watchdog guards every call, a timeout with a wait-for cycle in the lock table (seen twice, 0.5 s apart) is a violation, one without is a tool error. Linearisability: each call logs start and end numbers from one global atomic counter, its arguments and result; TLC searches a serial order consistent with real-time precedence under a reference model of ROA add/delete, child add/update/remove, RFC 6492 list, publisher add/remove, RFC 8181 delta and purge; the final state comes from the API, the RRDP and rsync files on disk and the relying-party walk.",
  "note": "Schedules on the real code are sampled, not enumerated (quick 315 scenarios, thorough 2700). Lock programs are those of the kinds and states the recorder visits; three locks have no hook and are modelled from source (status cache, pubd update_lock, rsync lock): a deadlock involving them would surface as a tool error, not as a violation. Refusals are compared as ok / refused plus a whitelist of error labels per operation. One refresh_all round runs before the final observation. Known findings: publish races publisher removal (F1), child add answered 'unknown' (F2).",
  "ref": "§6 C18", "engines": ["TLC", "kv-conc"]},
 "C13": {
  "technique": "TLA+ decision-table model (spec/Authz.tla) checked with TLC; TLC-enumerated request cases executed against the real daemon started in-process (Unix socket and TLS); TLC (AuthzTrace.tla) judges every recorded request",
  "level": "model_checking",
  "text": "Authz.tla holds the reference policy (111 route x method entries with required permission and addressed CA), the role evaluation (per-CA grant wins over blanket grant, general grant for non-CA requests, login gate under /api/v1) and the public set. TLC checks the decision functions over all role shapes x credential classes x transports x testbed modes. Every generated case is one HTTP request to the real daemon (config-file users, generated roles, two CAs, publication server); TLC recomputes the verdict and compares status class, absence of effect for refused requests (state digest) and the CAs shown by listing endpoints. Thorough enumerates the whole table.",
  "note": "Trusted: the hand-written reference table (completeness against the code checked by counting dispatch call sites only); complex roles injected into the Config object; no-effect judged on CA list, publisher list, per-CA command count, parents and children.",
  "ref": "§6 C13, §4.5", "engines": ["TLC", "kv-http"]},
 "C20": {
  "technique": "TLA+ provider-chain and login-rule model (spec/Authz.tla) checked with TLC; TLC-enumerated credential rows concretised and sent to the real daemon; TLC (AuthzTrace.tla) judges every recorded request",
  "level": "model_checking",
  "text": "Authz.tla states who a request acts as (admin token verbatim / session issued by this instance for a configured user / mapped Unix peer / nobody) and when login succeeds. TLC checks OnlyGenuineCredentials, AdminOnlyByAdminToken, NoPeerOverTcp, foreign or stale sessions, LoginRule. 360 table rows (credential class x transport x peer mapping, login table of 22 typed names x 7 password classes; two configured accounts have a password hash no password matches: empty, not hexadecimal) are enumerated completely in both tiers; each is concretised (truncations, bit flips, re-encodings, token of a second instance, name variants) and judged by a fingerprint of eight probe routes plus the audit actor. The token-mutation families are exploration and labelled so in the evidence.",
  "note": "Assumed: strength of ChaCha20-Poly1305/scrypt; surrounding white space of the bearer value is not part of the credential; password comparison modulo trim+NFKC; sessions do not expire, logout is outside the property.",
  "ref": "§6 C20, §4.5", "engines": ["TLC", "kv-http"]},
})

for _pid in ("C02", "C04"):
    CLAIMED[_pid]["technique"] += (
        "; convergence / completion stated as temporal properties and "
        "checked by TLC under weak fairness of the background tasks "
        "(spec/MC_Krill_live.tla, no state constraint)")
CLAIMED["C15"]["technique"] += (
    "; the proxy's per-key request / response slots bound through the "
    "request-processing entry (cfg-gated hook) for a child whose requests "
    "arrive one at a time")

NOT_YET = ("not claimed yet: the specification and conformance check for this "
           "property are still under construction (DESIGN.md §12 build-out order)")
NOT_APPLICABLE = {}


def main():
    props = [json.loads(l) for l in open(os.path.join(VERIF, "properties.jsonl"))]
    hooks = subprocess.run(
        ["git", "-C", "/repo", "log", "--format=%h", "--grep=^verif hooks"],
        capture_output=True, text=True).stdout.split()
    served = sorted(CLAIMED)
    manifest = {
        "version": 1,
        "setup_cmd": "./check --setup",
        "hooks": {
            "guard": "--cfg krill_verif",
            "enable": "harness/.cargo/config.toml sets rustflags = [\"--cfg\", \"krill_verif\"]; the harness depends on /repo by path, so every check rebuilds krill from /repo's working tree with the hooks on",
            "baseline_off_cmd": "cd /repo && cargo test --workspace --no-fail-fast --offline",
            "source_commits": list(reversed(hooks)),
            "add_only": True,
        },
        "engines": [
            {"name": "TLC", "path": "spec/", "serves_properties": served,
             "kind_free_text": "explicit-state model checker for the TLA+ specifications in spec/*.tla (exhaustive, simulation for behaviour generation, trace validation)"},
            {"name": "krillverif", "path": "harness/", "serves_properties": [p for p in served if "krillverif" in CLAIMED[p]["engines"]],
             "kind_free_text": "Rust conformance harness: executes TLC-generated behaviours on the real krill code (built with --cfg krill_verif) and records projected traces (task queue, CA hierarchy with relying-party walk)"},
            {"name": "kv-http", "path": "harness-http/", "serves_properties": [p for p in served if "kv-http" in CLAIMED[p]["engines"]],
             "kind_free_text": "Rust harness that starts the real krill daemon in-process and drives it over the Unix socket and TLS"},
            {"name": "kv-pub", "path": "harness-pub/", "serves_properties": [p for p in served if "kv-pub" in CLAIMED[p]["engines"]],
             "kind_free_text": "Rust harness for the publication server (RFC 8181 deltas, RRDP and rsync files, file-system fault points)"},
            {"name": "kv-store", "path": "harness-store/", "serves_properties": [p for p in served if "kv-store" in CLAIMED[p]["engines"]],
             "kind_free_text": "Rust harness for the aggregate / WAL stores (concurrent commands with hook traces, replay/snapshot differential)"},
            {"name": "kv-vec", "path": "harness-vec/", "serves_properties": [p for p in served if "kv-vec" in CLAIMED[p]["engines"]],
             "kind_free_text": "Rust harness replaying TLC-enumerated decision vectors (ROA analysis, configuration validation)"},
            {"name": "kv-fuzz", "path": "harness-fuzz/", "serves_properties": [p for p in served if "kv-fuzz" in CLAIMED[p]["engines"]],
             "kind_free_text": "Rust harness feeding seeded malformed inputs to the provisioning, publication and API entry points inside catch_unwind and through the real HTTP request processing"},
            {"name": "kv-fault", "path": "harness-fault/", "serves_properties": [p for p in served if "kv-fault" in CLAIMED[p]["engines"]],
             "kind_free_text": "Rust harness enumerating crash and I/O-error cuts at every key-value and file-system mutation of every operation, with restart, pump, resubmission and a fault-free twin"},
            {"name": "kv-conc", "path": "harness-conc/", "serves_properties": [p for p in served if "kv-conc" in CLAIMED[p]["engines"]],
             "kind_free_text": "Rust harness recording lock programs through the lock-table hooks and running seeded concurrent schedules (worker threads plus a scheduler thread) with a watchdog"},
            {"name": "kv-auth", "path": "harness-auth/", "serves_properties": [p for p in served if "kv-auth" in CLAIMED[p]["engines"]],
             "kind_free_text": "Rust harness for signed RFC 6492 / RFC 8181 exchanges and the TA proxy/signer exchange"},
        ],
        "checks": [],
        "not_applicable": [],
        "notes": "See DESIGN.md. Every check: ./check <ID> --tier quick|thorough; exit 0 (held; KNOWN-FINDING lines possible), 1 (VIOLATION line), 2 (tool error).",
    }
    for p in props:
        pid = p["id"]
        if pid in CLAIMED:
            c = CLAIMED[pid]
            manifest["checks"].append({
                "property_id": pid,
                "quick_cmd": f"./check {pid} --tier quick",
                "thorough_cmd": f"./check {pid} --tier thorough",
                "evidence_file": f"evidence/{pid}.json",
                "replay_cmd_template": f"./check {pid} --replay {{path}}",
                "engine": " + ".join(c["engines"]),
                "level_claimed": {"category": c["level"], "text": c["text"],
                                  "design_ref": c["ref"]},
                "level_note": c["note"],
                "technique": c["technique"],
            })
        else:
            manifest["not_applicable"].append({
                "property_id": pid,
                "reason": NOT_APPLICABLE.get(pid, NOT_YET)})
    with open(os.path.join(VERIF, "MANIFEST.json"), "w") as f:
        json.dump(manifest, f, indent=1)
    try:
        import jsonschema
        schema = json.load(open("/root/.vp/MANIFEST.schema.json"))
        jsonschema.validate(manifest, schema)
        print("MANIFEST.json valid")
    except ImportError:
        print("jsonschema not available; not validated")


if __name__ == "__main__":
    main()
