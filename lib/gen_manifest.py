#!/usr/bin/env python3
"""Regenerates MANIFEST.json from the table below (run after adding a check)."""
import json
import os
import subprocess

VERIF = os.path.dirname(os.path.dirname(os.path.abspath(__file__)))

CLAIMED = {
 "C09": {
  "technique": "TLA+ model checking (TLC: safety exhaustive, liveness under fairness) of spec/TaskQueue.tla; TLC-generated behaviours replayed on the real TaskQueue; recorded traces validated by TLC against TaskQueueTrace.tla",
  "level": "model_checking",
  "text": "TLC explores every interleaving of schedule/claim/finish/reschedule/follow-up/crash/start-up over 4-5 task names and 4 time levels (safety: earliest-first, soonest-kept, nothing lost, nothing stranded in 'running' after start-up, recurring tasks queued) and checks under fairness that every queued task eventually runs and recurring tasks run again and again. The same spec is bound to the code: TLC-generated behaviours are executed on the real TaskQueue (disk and memory back-end) and each recorded trace must be a behaviour of the spec, with every invariant evaluated at every step.",
  "note": "Trusted: TLC; the projection of storage keys '<millis>-<name>' onto abstract time levels; the harness replicates the two lines of run_scheduler. Not covered here: the follow-up table of mq.rs (bound by the CA traces of C01-C04), crash points inside a queue operation (C08).",
  "ref": "§6 C09, §4.2", "engines": ["TLC", "krillverif"]},
}

NOT_YET = ("not claimed yet: the specification and conformance check for this "
           "property are still under construction (DESIGN.md §12 build-out order)")
NOT_APPLICABLE = {}


def main():
    props = [json.loads(l) for l in open(os.path.join(VERIF, "properties.jsonl"))]
    hooks = subprocess.run(
        ["git", "-C", "/repo", "log", "--format=%h", "--grep=^verif hooks"],
        capture_output=True, text=True).stdout.split()
    served = sorted(CLAIMED)
    manifest = {
        "version": 1,
        "setup_cmd": "./check --setup",
        "hooks": {
            "guard": "--cfg krill_verif",
            "enable": "harness/.cargo/config.toml sets rustflags = [\"--cfg\", \"krill_verif\"]; the harness depends on /repo by path, so every check rebuilds krill from /repo's working tree with the hooks on",
            "baseline_off_cmd": "cd /repo && cargo test --workspace --no-fail-fast --offline",
            "source_commits": list(reversed(hooks)),
            "add_only": True,
        },
        "engines": [
            {"name": "TLC", "path": "spec/", "serves_properties": served,
             "kind_free_text": "explicit-state model checker for the TLA+ specifications in spec/*.tla (exhaustive, simulation for behaviour generation, trace validation)"},
            {"name": "krillverif", "path": "harness/", "serves_properties": served,
             "kind_free_text": "Rust conformance harness: executes TLC-generated behaviours on the real krill code (built with --cfg krill_verif) and records projected traces"},
        ],
        "checks": [],
        "not_applicable": [],
        "notes": "See DESIGN.md. Every check: ./check <ID> --tier quick|thorough; exit 0 (held; KNOWN-FINDING lines possible), 1 (VIOLATION line), 2 (tool error).",
    }
    for p in props:
        pid = p["id"]
        if pid in CLAIMED:
            c = CLAIMED[pid]
            manifest["checks"].append({
                "property_id": pid,
                "quick_cmd": f"./check {pid} --tier quick",
                "thorough_cmd": f"./check {pid} --tier thorough",
                "evidence_file": f"evidence/{pid}.json",
                "replay_cmd_template": f"./check {pid} --replay {{path}}",
                "engine": " + ".join(c["engines"]),
                "level_claimed": {"category": c["level"], "text": c["text"],
                                  "design_ref": c["ref"]},
                "level_note": c["note"],
                "technique": c["technique"],
            })
        else:
            manifest["not_applicable"].append({
                "property_id": pid,
                "reason": NOT_APPLICABLE.get(pid, NOT_YET)})
    with open(os.path.join(VERIF, "MANIFEST.json"), "w") as f:
        json.dump(manifest, f, indent=1)
    try:
        import jsonschema
        schema = json.load(open("/root/.vp/MANIFEST.schema.json"))
        jsonschema.validate(manifest, schema)
        print("MANIFEST.json valid")
    except ImportError:
        print("jsonschema not available; not validated")


if __name__ == "__main__":
    main()
