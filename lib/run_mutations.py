#!/usr/bin/env python3
"""Runs quick checks against the mutations in /verif/mutations and the seeded
changes in /verif/seeded, one at a time, each under the exclusive repository
lock (lib/with_mutation.py), and records which check catches which change in
mutations/results.json.

  lib/run_mutations.py <CHECK-ID> [name-substring ...]     mutations/<ID>-*.diff
  lib/run_mutations.py <CHECK-ID> --patch <file> [...]     any patch files

The model-only part of a check does not depend on the code: VERIF_SKIP_MC=1
lets checks skip it here.
"""
import glob
import json
import os
import subprocess
import sys
import time

VERIF = os.path.dirname(os.path.dirname(os.path.abspath(__file__)))
RESULTS = os.path.join(VERIF, "mutations", "results.json")


def main():
    pid = sys.argv[1]
    args = sys.argv[2:]
    if args and args[0] == "--patch":
        patches = [os.path.abspath(p) for p in args[1:]]
    else:
        patches = sorted(glob.glob(os.path.join(VERIF, "mutations",
                                                f"{pid}-*.diff")))
        if args:
            patches = [p for p in patches if any(a in p for a in args)]
    os.makedirs(os.path.join(VERIF, "out", "mut"), exist_ok=True)
    for patch in patches:
        name = os.path.basename(patch)
        if name == "patch.diff":
            name = os.path.basename(os.path.dirname(patch))
        log = os.path.join(VERIF, "out", "mut", f"{pid}__{name}.log")
        t0 = time.time()
        env = dict(os.environ, VERIF_SKIP_MC="1")
        with open(log, "w") as f:
            p = subprocess.run(
                [os.path.join(VERIF, "lib", "with_mutation.py"), patch, "--",
                 os.path.join(VERIF, "check"), pid, "--tier", "quick"],
                stdout=f, stderr=subprocess.STDOUT, env=env, cwd=VERIF)
        text = open(log).read()
        first = next((ln for ln in text.splitlines()
                      if ln.startswith("[check] violation:")), "")
        entry = {
            "check": pid, "change": name, "exit": p.returncode,
            "detected": p.returncode == 1,
            "violations": text.count("\nVIOLATION "),
            "first": first[19:260],
            "seconds": round(time.time() - t0),
        }
        try:
            allr = json.load(open(RESULTS))
        except (OSError, ValueError):
            allr = []
        allr = [e for e in allr
                if not (e["check"] == pid and e["change"] == name)]
        allr.append(entry)
        allr.sort(key=lambda e: (e["change"], e["check"]))
        with open(RESULTS, "w") as f:
            json.dump(allr, f, indent=1)
        print(json.dumps(entry), flush=True)


if __name__ == "__main__":
    sys.exit(main())
