#!/usr/bin/env python3
"""Runs quick checks against the mutations in /verif/mutations and the seeded
changes in /verif/seeded, one at a time, each under the exclusive repository
lock (lib/with_mutation.py), and records which check catches which change in
mutations/results.json.

  lib/run_mutations.py <CHECK-ID> [name-substring ...]     mutations/<ID>-*.diff
  lib/run_mutations.py <CHECK-ID> --patch <file> [...]     any patch files
  lib/run_mutations.py --scratch <CHECK-ID> ...            the same, on a scratch copy of
      /repo and /verif under /tmp (no repository lock needed: runs in parallel
      with everything else; the copy and its build output are removed at the end)

The model-only part of a check does not depend on the code: VERIF_SKIP_MC=1
lets checks skip it here.
"""
import glob
import json
import os
import subprocess
import sys
import time

VERIF = os.path.dirname(os.path.dirname(os.path.abspath(__file__)))
RESULTS = os.path.join(VERIF, "mutations", "results.json")


def make_scratch():
    """A private copy of /repo (working tree, HEAD) and of /verif with the
    harness crates pointed at it; the dependency build output is copied so
    that only krill and the harness are rebuilt."""
    import shutil
    root = f"/tmp/verif-scratch-{os.getpid()}"
    shutil.rmtree(root, ignore_errors=True)
    os.makedirs(root)
    import fcntl
    os.makedirs(os.path.join(VERIF, "out"), exist_ok=True)
    with open(os.path.join(VERIF, "out", ".repo.lock"), "w") as lock:
        # (shared: nobody has a patch applied to /repo while it is copied)
        fcntl.flock(lock, fcntl.LOCK_SH)
        subprocess.run(["rsync", "-a", "--exclude", "/target", "--exclude",
                        "/.git", "/repo/", f"{root}/repo/"], check=True)
    subprocess.run(["rsync", "-a", "--exclude", "/out", "--exclude", "/.git",
                    f"{VERIF}/", f"{root}/verif/"], check=True)
    for d in os.listdir(f"{root}/verif"):
        toml = f"{root}/verif/{d}/Cargo.toml"
        if d.startswith("harness") and os.path.exists(toml):
            t = open(toml).read().replace('path = "/repo"',
                                          f'path = "{root}/repo"')
            open(toml, "w").write(t)
    return root


def main():
    argv = sys.argv[1:]
    scratch = None
    if argv and argv[0] == "--scratch":
        argv = argv[1:]
        scratch = make_scratch()
    try:
        return run(argv, scratch)
    finally:
        if scratch:
            import shutil
            shutil.rmtree(scratch, ignore_errors=True)


def run(argv, scratch):
    pid = argv[0]
    args = argv[1:]
    if args and args[0] == "--patch":
        patches = [os.path.abspath(p) for p in args[1:]]
    else:
        patches = sorted(glob.glob(os.path.join(VERIF, "mutations",
                                                f"{pid}-*.diff")))
        if args:
            patches = [p for p in patches if any(a in p for a in args)]
    os.makedirs(os.path.join(VERIF, "out", "mut"), exist_ok=True)
    for patch in patches:
        name = os.path.basename(patch)
        if name == "patch.diff":
            name = os.path.basename(os.path.dirname(patch))
        log = os.path.join(VERIF, "out", "mut", f"{pid}__{name}.log")
        t0 = time.time()
        env = dict(os.environ, VERIF_SKIP_MC="1")
        with open(log, "w") as f:
            if scratch:
                env["VERIF_EVIDENCE_DIR"] = f"{scratch}/verif/out/evidence"
                a = subprocess.run(["git", "apply", patch],
                                   cwd=f"{scratch}/repo", stdout=f,
                                   stderr=subprocess.STDOUT)
                if a.returncode != 0:
                    p = a
                    p.returncode = 2
                else:
                    p = subprocess.run(
                        [f"{scratch}/verif/check", pid, "--tier", "quick"],
                        stdout=f, stderr=subprocess.STDOUT, env=env,
                        cwd=f"{scratch}/verif")
                    subprocess.run(["git", "apply", "-R", patch],
                                   cwd=f"{scratch}/repo", stdout=f,
                                   stderr=subprocess.STDOUT)
            else:
                p = subprocess.run(
                    [os.path.join(VERIF, "lib", "with_mutation.py"), patch,
                     "--", os.path.join(VERIF, "check"), pid, "--tier",
                     "quick"],
                    stdout=f, stderr=subprocess.STDOUT, env=env, cwd=VERIF)
        text = open(log).read()
        first = next((ln for ln in text.splitlines()
                      if ln.startswith("[check] violation:")), "")
        entry = {
            "check": pid, "change": name, "exit": p.returncode,
            "detected": p.returncode == 1,
            "violations": text.count("\nVIOLATION "),
            "first": first[19:260],
            "seconds": round(time.time() - t0),
        }
        import fcntl
        with open(RESULTS + ".lock", "w") as lk:
            fcntl.flock(lk, fcntl.LOCK_EX)
            try:
                allr = json.load(open(RESULTS))
            except (OSError, ValueError):
                allr = []
            allr = [e for e in allr
                    if not (e["check"] == pid and e["change"] == name)]
            allr.append(entry)
            allr.sort(key=lambda e: (e["change"], e["check"]))
            with open(RESULTS, "w") as f:
                json.dump(allr, f, indent=1)
        print(json.dumps(entry), flush=True)


if __name__ == "__main__":
    sys.exit(main())
