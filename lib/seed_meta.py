#!/usr/bin/env python3
"""Completes seeded/<id>/meta.json with what the coordinator did: the
re-run of the demonstration (coordinator-rerun.log) and the verdicts of the
checks that were run against the patch (mutations/results.json)."""
import glob
import json
import os
import re

VERIF = os.path.dirname(os.path.dirname(os.path.abspath(__file__)))


def main():
    res = json.load(open(os.path.join(VERIF, "mutations", "results.json")))
    for d in sorted(glob.glob(os.path.join(VERIF, "seeded", "*"))):
        name = os.path.basename(d)
        meta_path = os.path.join(d, "meta.json")
        log_path = os.path.join(d, "coordinator-rerun.log")
        if not os.path.exists(meta_path) or not os.path.exists(log_path):
            continue
        meta = json.load(open(meta_path))
        log = open(log_path).read()
        parts = re.split(r"^== ", log, flags=re.M)
        rerun = {}
        for part in parts:
            head = part.split("\n", 1)[0]
            results = re.findall(r"test result: [^\n]*", part)
            if head.startswith("unpatched"):
                rerun["without_patch"] = "; ".join(results)
            elif head.startswith("patched: cargo test"):
                rerun["with_patch"] = "; ".join(results)
            elif head.startswith("patched: cfg"):
                rerun["hooks_on_check"] = part.split("\n", 1)[1].strip()[:120]
        if not rerun:
            continue
        checks = [{"check": e["check"],
                   "verdict": {1: "caught", 0: "missed"}.get(
                       e["exit"], f"tool error {e['exit']}"),
                   "signature": e["first"][:200], "seconds": e["seconds"]}
                  for e in res if e["change"] == name]
        meta["coordinator"] = {"demonstration_rerun_by_me": rerun,
                               "quick_checks_against_the_patch": checks}
        with open(meta_path, "w") as f:
            json.dump(meta, f, indent=1)
        print(name, rerun.get("with_patch", "")[:40], [
            (c["check"], c["verdict"]) for c in checks])


if __name__ == "__main__":
    main()
