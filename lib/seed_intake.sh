#!/bin/bash
# lib/seed_intake.sh <worktree> <dest-name> <test-target> [extra cargo test args...]
# Re-runs a delivered demonstration (a tests/<target>.rs file under DELIVER/demo)
# in the deliverer's scratch worktree without and with DELIVER/patch.diff, checks
# that the patch compiles with the hooks on, and files everything under
# seeded/<dest-name>/ (coordinator-rerun.log is what lib/seed_meta.py reads).
set -u
wt=$1; name=$2; target=$3; shift 3
dest=/verif/seeded/$name
mkdir -p $dest
cd $wt || exit 2
git checkout -q -- src 2>/dev/null
cp DELIVER/demo/$target.rs tests/ || exit 2
log=$dest/coordinator-rerun.log
{
echo "== unpatched: cargo test --offline -j 6 --test $target $*"
cargo test --offline -j 6 --test $target "$@" 2>&1 | grep -E "^test |test result|panicked|error" | head -40
git apply DELIVER/patch.diff || echo "PATCH DOES NOT APPLY"
echo "== patched: cargo test --offline -j 6 --test $target $*"
cargo test --offline -j 6 --test $target "$@" 2>&1 | grep -E "^test |test result|panicked|error|violat|VIOLAT" | head -40
echo "== patched: cfg(krill_verif) check"
RUSTFLAGS='--cfg krill_verif --check-cfg cfg(krill_verif)' cargo check --lib --offline -j 6 --target-dir target/verif 2>&1 | grep -E "warning|error|Finished" | head
} > $log 2>&1
git checkout -q -- src; rm -f tests/$target.rs
rm -rf $dest/demo; cp -r DELIVER/demo $dest/demo; cp DELIVER/patch.diff DELIVER/meta.json $dest/
cat $log
