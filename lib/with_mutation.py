#!/usr/bin/env python3
"""Runs a command with a patch temporarily applied to /repo.

  lib/with_mutation.py <patch.diff> -- <command...>

Takes the repository lock exclusively (checks hold it shared), applies the
patch with `git -C /repo apply`, runs the command with
VERIF_HAVE_REPO_LOCK=1, and always restores /repo (`git checkout -- .`)
before releasing the lock. Exit code is the command's.
"""
import fcntl
import os
import subprocess
import sys

VERIF = os.path.dirname(os.path.dirname(os.path.abspath(__file__)))


def main():
    if "--" not in sys.argv:
        print(__doc__)
        return 2
    i = sys.argv.index("--")
    patch = os.path.abspath(sys.argv[1])
    cmd = sys.argv[i + 1:]
    os.makedirs(os.path.join(VERIF, "out"), exist_ok=True)
    with open(os.path.join(VERIF, "out", ".repo.lock"), "w") as lock:
        fcntl.flock(lock, fcntl.LOCK_EX)
        dirty = subprocess.run(["git", "-C", "/repo", "status", "--porcelain",
                                "--untracked-files=no"],
                               capture_output=True, text=True).stdout.strip()
        if dirty:
            print("with_mutation: /repo has uncommitted changes; refusing")
            return 2
        p = subprocess.run(["git", "-C", "/repo", "apply", patch])
        if p.returncode != 0:
            print("with_mutation: patch does not apply")
            return 2
        try:
            env = dict(os.environ)
            env.setdefault("VERIF_EVIDENCE_DIR",
                           os.path.join(VERIF, "out", "mut", "evidence"))
            env["VERIF_HAVE_REPO_LOCK"] = "1"
            rc = subprocess.run(cmd, cwd=VERIF, env=env).returncode
        finally:
            subprocess.run(["git", "-C", "/repo", "checkout", "--", "."])
        return rc


if __name__ == "__main__":
    sys.exit(main())
