\* Reference configuration of the trace validation of C10 (checks/c10.py
\* generates the same from its template, optionally without some properties).
CONSTANTS
  Pubs <- PubsAllTrace
  Uris <- UrisAllTrace
  Contents <- Cont
  Size <- SizeSmall
  MinNr = 0
  MaxNr = 2
  MinAge = "zero"
  MaxAge = "inf"
  MaxNrEquality = FALSE
  MaxSerial = 99
  MaxSession = 99
  DeltaChoices = {}
SPECIFICATION TraceSpec
INVARIANT TraceTypeOK
INVARIANT TraceStagedApplies
INVARIANT TraceUnregistered
INVARIANT ListIsCurrentPlusStaged
INVARIANT NoPanic
INVARIANT StatsAgree
INVARIANT DetailsAgree
INVARIANT RepliesAgree
INVARIANT PublishedAgrees
INVARIANT IsolationPublished
PROPERTY TraceAppliedIff
PROPERTY TraceDeltaAtomic
PROPERTY TraceUnknownRefused
PROPERTY TraceIsolation
PROPERTY TraceRemoveWithdrawsExactlyOwn
PROPERTY TraceUpdatePublishesViews
PROPERTY TraceSerialPlusOne
PROPERTY TraceSessionOnlyOnReset
POSTCONDITION TraceAccepted
CHECK_DEADLOCK FALSE
